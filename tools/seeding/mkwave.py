import json,glob,os,sys,subprocess
wave=sys.argv[1]
base=open('/var/tmp/seed_prompt.txt').read()
tried={}
for m in sorted(glob.glob('/verif/seeded/*/meta.json')):
    j=json.load(open(m)); tried.setdefault(j['property'],[]).append(j['summary'])
pairs=[("C%02d"%(i+1),"C%02d"%(i+11)) for i in range(10)]
for i,(a,b) in enumerate(pairs):
    wt="/var/tmp/seed%s%d"%(wave,i); out="seedout%s%d"%(wave,i)
    subprocess.run(["git","-C","/repo","worktree","add","--detach",wt],capture_output=True)
    os.makedirs("/var/tmp/"+out,exist_ok=True)
    t=base.replace("WORKTREE/../OUTDIR","/var/tmp/"+out).replace("WORKTREE",wt).replace("OUTDIR",out)
    for p in (a,b):
        t+="\n"+open('/var/tmp/prop_%s.txt'%p).read().strip()+"\n"
        t+="Mutants already produced for %s (make yours DIFFERENT in kind and location):\n"%p
        for s in tried.get(p,[]): t+="- "+s+"\n"
    open('/var/tmp/wave%s_%d.txt'%(wave,i),'w').write(t)
    print(i,a,b,len(t))
