#!/bin/bash
# confirm_dir.sh <seedoutdir> : confirm every mutant in it, log to <seedoutdir>/confirm.log
for d in $1/C*_*; do [ -f $d/patch.diff ] && python3 /var/tmp/confirm.py $d 2>&1 | grep -v conda; done > $1/confirm.log 2>&1
