#!/usr/bin/env python3
"""confirm.py <seeddir> [verifdir] : suite check (all stable_pass tests still pass with the patch) + seedtest"""
import json, os, shutil, subprocess, sys, tempfile
import xml.etree.ElementTree as ET
d = os.path.abspath(sys.argv[1]); V = sys.argv[2] if len(sys.argv) > 2 else "/var/tmp/vhead"
stable = set(json.load(open("/root/.vp/BASELINE.json"))["stable_pass"])
tmp = tempfile.mkdtemp(prefix="confirm_", dir="/var/tmp")
try:
    repo = os.path.join(tmp, "repo")
    subprocess.check_call(["rsync", "-a", "--exclude", ".git", "--exclude", "__pycache__", "/repo/", repo + "/"])
    p = subprocess.run(["patch", "-p1", "-d", repo, "-i", os.path.join(d, "patch.diff")], capture_output=True)
    if p.returncode:
        print("CONFIRM %s: patch does not apply" % d); sys.exit(2)
    x = os.path.join(tmp, "j.xml")
    env = dict(os.environ); env.pop("PYTHONPATH", None); env["PYTHONDONTWRITEBYTECODE"] = "1"
    subprocess.run(["/venv/bin/python", "-m", "pytest", "-q", "-p", "no:cacheprovider", "--timeout=900",
                    "--continue-on-collection-errors", "--junitxml=" + x], cwd=repo, env=env, capture_output=True, timeout=3000)
    passed = set()
    for tc in ET.parse(x).getroot().iter("testcase"):
        if not any(c.tag in ("failure", "error", "skipped") for c in tc):
            passed.add("%s::%s" % (tc.get("classname"), tc.get("name")))
    lost = sorted(stable - passed)
    print("CONFIRM %s: suite: %d stable tests, %d no longer pass %s" % (os.path.basename(d), len(stable), len(lost), lost[:3]))
finally:
    shutil.rmtree(tmp, ignore_errors=True)
sys.stdout.flush()
subprocess.run(["python3", os.path.join(V, "tools/seedtest.py"), d] + sys.argv[3:])
