#!/usr/bin/env python3
"""tools/reverttest.py [Cxx ...] : for every `fixed:` line of known_findings.jsonl, revert that commit in a scratch
clone of /repo and run the property's quick check against it: the violation must be reported again
(exit 1, VIOLATION line).  Prints one line per fix; leaves /repo untouched; removes the clones."""
import os, re, shutil, subprocess, sys, tempfile
V = os.path.dirname(os.path.dirname(os.path.abspath(__file__)))
only = set(sys.argv[1:])
rows = []
for line in open(os.path.join(V, "known_findings.jsonl")):
    m = re.match(r"fixed: property=(C\d+) ([0-9a-f]{7,}) (.*)", line)
    if m and (not only or m.group(1) in only):
        rows.append(m.groups())
bad = 0
for pid, sha, what in rows:
    tmp = tempfile.mkdtemp(prefix="verif_revert_", dir="/var/tmp")
    try:
        clone = os.path.join(tmp, "clone")
        subprocess.check_call(["git", "clone", "-q", "/repo", clone])
        p = subprocess.run(["git", "-C", clone, "-c", "user.email=x@x", "-c", "user.name=x", "revert", "--no-commit", sha], capture_output=True)
        if p.returncode:
            print("REVERT %s %s: does not revert cleanly (later fixes touch the same lines): skipped" % (pid, sha))
            continue
        repo = os.path.join(tmp, "repo")
        subprocess.check_call(["rsync", "-a", "--exclude", ".git", clone + "/", repo + "/"])
        env = dict(os.environ, VERIF_REPO=repo, VERIF_SANDBOX=os.path.join(tmp, "sb"))
        env.pop("PYTHONPATH", None)
        c = subprocess.run([os.path.join(V, "bin/check"), pid, "--tier", "quick"], cwd=V, env=env, capture_output=True, timeout=7200)
        out = c.stdout.decode()
        vio = [l for l in out.splitlines() if l.startswith("VIOLATION")]
        known = [l for l in out.splitlines() if l.startswith("KNOWN-FINDING")]
        ok = c.returncode == 1 and vio
        bad += not ok
        print("REVERT %s %s: exit %d %s%s | %s" % (pid, sha, c.returncode, vio[0].replace(tmp, "") if vio else "NO VIOLATION LINE",
                                               " (no concrete input)" if vio and "no-failing-input-found" in vio[0] else "", what[:90]))
        sys.stdout.flush()
    finally:
        shutil.rmtree(tmp, ignore_errors=True)
sys.exit(1 if bad else 0)
