#!/usr/bin/env python3
"""py2v: fail-closed translator from a small Python subset (as it occurs in
/repo) to Gallina.  Output goes to /verif/coq/Gen/*.v and is regenerated on
every run of every check, so the generated definitions *are* the source.

Two kinds of output:
  * data  : constants, tables, maps, class hierarchies, instruction lists;
  * code  : straight-line integer functions (assignments, tuple assignment,
            if/elif/else with early return, `for x in seq` as a fold).

Anything outside the accepted subset raises TranslationError; the caller
(tools/vlib.regen) turns that into a broken obligation.
"""
import ast
import os
import sys

REPO = os.environ.get("VERIF_REPO", "/repo")


class TranslationError(Exception):
    pass


def parse(relpath):
    path = os.path.join(REPO, relpath)
    with open(path) as f:
        return ast.parse(f.read(), path)


def find_func(tree, name, cls=None):
    body = tree.body
    if cls is not None:
        for n in body:
            if isinstance(n, ast.ClassDef) and n.name == cls:
                body = n.body
                break
        else:
            raise TranslationError("class %s not found" % cls)
    for n in body:
        if isinstance(n, ast.FunctionDef) and n.name == name:
            return n
    raise TranslationError("function %s not found" % name)


def find_class(tree, name):
    for n in tree.body:
        if isinstance(n, ast.ClassDef) and n.name == name:
            return n
    raise TranslationError("class %s not found" % name)


def module_assign(tree, name, body=None):
    for n in (body if body is not None else tree.body):
        if isinstance(n, ast.Assign) and len(n.targets) == 1 and \
                isinstance(n.targets[0], ast.Name) and n.targets[0].id == name:
            return n.value
        if isinstance(n, ast.AnnAssign) and isinstance(n.target, ast.Name) \
                and n.target.id == name and n.value is not None:
            return n.value
    raise TranslationError("assignment to %s not found" % name)


# --------------------------------------------------------------------------
# constant evaluation of a tiny expression language (module-level constants)

def const_eval(node, env):
    """Evaluate module-level constant expressions: ints, bytes, arithmetic,
    bytes([..] * n), bytes.fromhex("..."), names bound in env, dict/tuple/list
    of those, X.to_bytes(n, "big"), attribute access on env classes."""
    if isinstance(node, ast.Constant):
        if isinstance(node.value, (int, bytes, str)) or node.value is None:
            return node.value
        raise TranslationError("constant %r" % (node.value,))
    if isinstance(node, ast.Name):
        if node.id in env:
            return env[node.id]
        raise TranslationError("unbound name %s" % node.id)
    if isinstance(node, ast.Attribute) and isinstance(node.value, ast.Name):
        base = env.get(node.value.id)
        if isinstance(base, dict) and node.attr in base:
            return base[node.attr]
        raise TranslationError("attribute %s.%s" % (node.value.id, node.attr))
    if isinstance(node, ast.BinOp):
        a, b = const_eval(node.left, env), const_eval(node.right, env)
        ops = {ast.Add: lambda x, y: x + y, ast.Sub: lambda x, y: x - y,
               ast.Mult: lambda x, y: x * y, ast.FloorDiv: lambda x, y: x // y,
               ast.Mod: lambda x, y: x % y, ast.Pow: lambda x, y: x ** y,
               ast.LShift: lambda x, y: x << y, ast.RShift: lambda x, y: x >> y,
               ast.BitOr: lambda x, y: x | y, ast.BitAnd: lambda x, y: x & y}
        if type(node.op) in ops:
            return ops[type(node.op)](a, b)
        raise TranslationError("binop %s" % type(node.op).__name__)
    if isinstance(node, ast.UnaryOp) and isinstance(node.op, ast.USub):
        return -const_eval(node.operand, env)
    if isinstance(node, (ast.Tuple,)):
        return tuple(const_eval(e, env) for e in node.elts)
    if isinstance(node, ast.List):
        return [const_eval(e, env) for e in node.elts]
    if isinstance(node, ast.Dict):
        return {const_eval(k, env): const_eval(v, env)
                for k, v in zip(node.keys, node.values)}
    if isinstance(node, ast.Subscript):
        base = const_eval(node.value, env)
        key = const_eval(node.slice, env)
        try:
            return base[key]
        except Exception as e:
            raise TranslationError("subscript: %r" % e)
    if isinstance(node, ast.Call):
        f = node.func
        if isinstance(f, ast.Name) and f.id == "bytes" and len(node.args) == 1 and not node.keywords:
            return bytes(const_eval(node.args[0], env))
        if isinstance(f, ast.Name) and f.id == "bytes" and not node.args:
            return b""
        if isinstance(f, ast.Name) and f.id == "dict" and not node.args:
            return {k.arg: const_eval(k.value, env) for k in node.keywords}
        if isinstance(f, ast.Name) and f.id == "int" and len(node.args) in (1, 2):
            args = [const_eval(a, env) for a in node.args]
            return int(*args)
        if isinstance(f, ast.Attribute) and f.attr == "fromhex" and \
                isinstance(f.value, ast.Name) and f.value.id == "bytes":
            return bytes.fromhex(const_eval(node.args[0], env))
        if isinstance(f, ast.Attribute) and f.attr == "to_bytes":
            v = const_eval(f.value, env)
            args = [const_eval(a, env) for a in node.args]
            return v.to_bytes(*args)
        raise TranslationError("call %s" % ast.dump(f))
    raise TranslationError("expr %s" % type(node).__name__)


def class_consts(tree, name, env=None):
    """All `NAME = <const expr>` of a class body as a dict."""
    env = dict(env or {})
    out = {}
    for n in find_class(tree, name).body:
        if isinstance(n, ast.Assign) and len(n.targets) == 1 and isinstance(n.targets[0], ast.Name):
            try:
                v = const_eval(n.value, {**env, **out})
            except TranslationError:
                continue
            out[n.targets[0].id] = v
        elif isinstance(n, ast.AnnAssign) and isinstance(n.target, ast.Name) and n.value is not None:
            try:
                v = const_eval(n.value, {**env, **out})
            except TranslationError:
                continue
            out[n.target.id] = v
    return out


# --------------------------------------------------------------------------
# Coq literal printers

def cN(n):
    if not isinstance(n, int) or n < 0:
        raise TranslationError("not a natural: %r" % (n,))
    return "%d%%N" % n


def cZ(n):
    if not isinstance(n, int):
        raise TranslationError("not an int: %r" % (n,))
    return "(%d)%%Z" % n


def cbytes(b):
    if len(b) == 0:
        return "(@nil byte)"
    return "(H %d 0x%s)" % (len(b), b.hex())


def clist(items, ty=None):
    if not items:
        return "(@nil %s)" % ty if ty else "[]"
    return "[" + "; ".join(items) + "]"


def cstr(s):
    """Python str -> list N of code points"""
    return clist([cN(ord(c)) for c in s], "N")


# --------------------------------------------------------------------------
# integer code translation

class FuncTr:
    """Translate one straight-line integer function to a Gallina definition.

    scope: 'Z' or 'N'.  params: list of python parameter names to keep (others
    such as `self` are dropped).  extra_params: names added as parameters and
    bound by attr_map.  attr_map: {ast-dump-prefix -> coq expr} for calls such as
    self.__curve.a().  call_map: {python callee name -> coq function name}
    for self._foo(...) / foo(...) calls, arguments translated positionally.
    """

    def __init__(self, scope="Z", attr_map=None, call_map=None, seq_params=()):
        self.scope = scope
        self.attr_map = attr_map or {}
        self.call_map = call_map or {}
        self.seq_params = set(seq_params)
        self.aux = []     # auxiliary definitions (loop bodies)
        self.fname = None

    # -- expressions
    def lit(self, n):
        return cZ(n) if self.scope == "Z" else cN(n)

    def op(self, name):
        return "%s.%s" % (self.scope, name)

    def expr(self, e):
        if isinstance(e, ast.Constant) and isinstance(e.value, int) and not isinstance(e.value, bool):
            return self.lit(e.value)
        if isinstance(e, ast.Name):
            return e.id
        if isinstance(e, ast.BinOp):
            a, b = self.expr(e.left), self.expr(e.right)
            t = type(e.op)
            if t is ast.Sub and self.scope == "N":
                raise TranslationError("subtraction in N scope")
            table = {ast.Add: "add", ast.Sub: "sub", ast.Mult: "mul", ast.FloorDiv: "div",
                     ast.Mod: "modulo", ast.Pow: "pow", ast.LShift: "shiftl",
                     ast.RShift: "shiftr", ast.BitAnd: "land", ast.BitOr: "lor",
                     ast.BitXor: "lxor"}
            if t not in table:
                raise TranslationError("operator %s" % t.__name__)
            return "(%s %s %s)" % (self.op(table[t]), a, b)
        if isinstance(e, ast.UnaryOp) and isinstance(e.op, ast.USub):
            if self.scope == "N":
                raise TranslationError("negation in N scope")
            return "(Z.opp %s)" % self.expr(e.operand)
        if isinstance(e, ast.Call):
            key = ast.dump(e)
            for k, v in self.attr_map.items():
                if ast.dump(ast.parse(k, mode="eval").body) == key:
                    return v
            f = e.func
            if isinstance(f, ast.Name) and f.id == "int" and len(e.args) == 1:
                return self.expr(e.args[0])
            callee = None
            if isinstance(f, ast.Attribute) and isinstance(f.value, ast.Name) and f.value.id == "self":
                callee = f.attr
            elif isinstance(f, ast.Name):
                callee = f.id
            if callee in self.call_map and not e.keywords:
                return "(%s %s)" % (self.call_map[callee], " ".join(self.expr(a) for a in e.args))
            raise TranslationError("call %s" % ast.unparse(e))
        if isinstance(e, ast.Tuple):
            return "(" + ", ".join(self.expr(x) for x in e.elts) + ")"
        if isinstance(e, ast.IfExp):
            return "(if %s then %s else %s)" % (self.cond(e.test), self.expr(e.body), self.expr(e.orelse))
        raise TranslationError("expression %s" % ast.unparse(e))

    def cond(self, c):
        if isinstance(c, ast.UnaryOp) and isinstance(c.op, ast.Not):
            inner = c.operand
            if isinstance(inner, (ast.Compare, ast.BoolOp, ast.UnaryOp)) and not \
                    (isinstance(inner, ast.UnaryOp) and isinstance(inner.op, ast.USub)):
                return "(negb %s)" % self.cond(inner)
            return "(%s %s %s)" % (self.op("eqb"), self.expr(inner), self.lit(0))
        if isinstance(c, ast.BoolOp):
            parts = [self.cond(v) for v in c.values]
            op = "&&" if isinstance(c.op, ast.And) else "||"
            out = parts[0]
            for p in parts[1:]:
                out = "(%s %s %s)" % (out, op, p)
            return out
        if isinstance(c, ast.Compare):
            if len(c.ops) == 2 and all(isinstance(o, (ast.Lt, ast.LtE)) for o in c.ops):
                l, m, r = c.left, c.comparators[0], c.comparators[1]
                return "(%s && %s)" % (
                    self.cond(ast.Compare(l, [c.ops[0]], [m])),
                    self.cond(ast.Compare(m, [c.ops[1]], [r])))
            if len(c.ops) != 1:
                raise TranslationError("chained comparison")
            a, b = self.expr(c.left), self.expr(c.comparators[0])
            t = type(c.ops[0])
            table = {ast.Eq: "(%s %s %s)" % (self.op("eqb"), a, b),
                     ast.NotEq: "(negb (%s %s %s))" % (self.op("eqb"), a, b),
                     ast.Lt: "(%s %s %s)" % (self.op("ltb"), a, b),
                     ast.LtE: "(%s %s %s)" % (self.op("leb"), a, b),
                     ast.Gt: "(%s %s %s)" % (self.op("ltb"), b, a),
                     ast.GtE: "(%s %s %s)" % (self.op("leb"), b, a)}
            if t not in table:
                raise TranslationError("comparison %s" % t.__name__)
            return table[t]
        # truthiness of an integer expression
        return "(negb (%s %s %s))" % (self.op("eqb"), self.expr(c), self.lit(0))

    # -- statements
    def target(self, t):
        if isinstance(t, ast.Name):
            return t.id
        if isinstance(t, ast.Tuple) and all(isinstance(x, ast.Name) for x in t.elts):
            return "'(" + ", ".join(x.id for x in t.elts) + ")"
        raise TranslationError("assignment target %s" % ast.unparse(t))

    @staticmethod
    def assigned(stmts):
        out = []
        for s in ast.walk(ast.Module(body=list(stmts), type_ignores=[])):
            if isinstance(s, (ast.Assign,)):
                for t in s.targets:
                    for n in ast.walk(t):
                        if isinstance(n, ast.Name) and n.id not in out:
                            out.append(n.id)
            elif isinstance(s, ast.AugAssign) and isinstance(s.target, ast.Name):
                if s.target.id not in out:
                    out.append(s.target.id)
        return out

    def block(self, stmts, defined, tail=None):
        """Translate a statement list that must end in a return on every path.
        `tail` is the coq expression to use when falling off the end (loop bodies)."""
        if not stmts:
            if tail is None:
                raise TranslationError("control reaches end of function without return")
            return tail
        s, rest = stmts[0], stmts[1:]
        if isinstance(s, ast.Expr) and isinstance(s.value, ast.Constant) and isinstance(s.value.value, str):
            return self.block(rest, defined, tail)          # docstring
        if isinstance(s, ast.Return):
            if s.value is None:
                raise TranslationError("bare return")
            return self.expr(s.value)
        if isinstance(s, ast.Assign):
            if len(s.targets) != 1:
                raise TranslationError("multiple assignment")
            tgt = s.targets[0]
            if isinstance(tgt, ast.Tuple) and isinstance(s.value, ast.Tuple):
                if len(tgt.elts) != len(s.value.elts):
                    raise TranslationError("tuple arity")
            new = defined | set(n.id for n in ast.walk(tgt) if isinstance(n, ast.Name))
            return "let %s := %s in\n  %s" % (self.target(tgt), self.expr(s.value),
                                             self.block(rest, new, tail))
        if isinstance(s, ast.AugAssign):
            if not isinstance(s.target, ast.Name):
                raise TranslationError("augmented assignment target")
            e = ast.BinOp(ast.Name(s.target.id, ast.Load()), s.op, s.value)
            return "let %s := %s in\n  %s" % (s.target.id, self.expr(e),
                                             self.block(rest, defined, tail))
        if isinstance(s, ast.If):
            then_returns = self.always_returns(s.body)
            else_returns = bool(s.orelse) and self.always_returns(s.orelse)
            if then_returns and (else_returns or not s.orelse):
                c = self.cond(s.test)
                th = self.block(s.body, defined, None)
                el = self.block(list(s.orelse) + list(rest) if not else_returns else s.orelse,
                                defined, tail)
                return "if %s then (%s)\n  else (%s)" % (c, th, el)
            raise TranslationError("if-statement that does not return on its then-branch")
        if isinstance(s, ast.For):
            if s.orelse or not isinstance(s.target, ast.Name) or not isinstance(s.iter, ast.Name) \
                    or s.iter.id not in self.seq_params:
                raise TranslationError("for-loop shape")
            body_assigned = self.assigned(s.body)
            state = [v for v in body_assigned if v in defined]
            used_after = set(n.id for st in rest for n in ast.walk(st) if isinstance(n, ast.Name))
            for v in body_assigned:
                if v in used_after and v not in defined:
                    raise TranslationError("loop variable %s escapes the loop" % v)
            if not state:
                raise TranslationError("loop without state")
            st_pat = state[0] if len(state) == 1 else "'(" + ", ".join(state) + ")"
            st_val = state[0] if len(state) == 1 else "(" + ", ".join(state) + ")"
            for st in s.body:
                if any(isinstance(n, (ast.Return, ast.Break, ast.Continue)) for n in ast.walk(st)):
                    raise TranslationError("return/break/continue inside loop")
            body = self.block(s.body, defined | {s.target.id}, st_val)
            name = "%s_body" % self.fname
            free = sorted((defined - set(state)) - self.seq_params)
            free = [v for v in free if any(isinstance(n, ast.Name) and n.id == v
                                           for st in s.body for n in ast.walk(st))]
            self.aux.append("Definition %s %s(st : _) (%s : %s) :=\n  let %s := st in\n  %s." % (
                name, "".join("(%s : %s) " % (v, self.scope) for v in free),
                s.target.id, self.scope, st_pat, body))
            call = "(fold_left (%s%s) %s %s)" % (name, "".join(" " + v for v in free), s.iter.id, st_val)
            return "let %s := %s in\n  %s" % (st_pat, call, self.block(rest, defined, tail))
        raise TranslationError("statement %s" % type(s).__name__)

    def always_returns(self, stmts):
        if not stmts:
            return False
        last = stmts[-1]
        if isinstance(last, ast.Return):
            return True
        if isinstance(last, ast.If):
            return self.always_returns(last.body) and bool(last.orelse) and self.always_returns(last.orelse)
        return False

    def function(self, fn, coq_name, drop=("self",), extra_params=()):
        self.fname = coq_name
        self.aux = []
        params = [a.arg for a in fn.args.args if a.arg not in drop]
        if fn.args.vararg or fn.args.kwarg or fn.args.kwonlyargs:
            raise TranslationError("varargs")
        params = params + list(extra_params)
        body = self.block(fn.body, set(params), None)
        sig = " ".join("(%s : %s)" % (p, ("list %s" % self.scope) if p in self.seq_params else self.scope)
                       for p in params)
        defaults = {}
        n = len(fn.args.defaults)
        if n:
            pnames = [a.arg for a in fn.args.args][-n:]
            for p, d in zip(pnames, fn.args.defaults):
                defaults[p] = d
        text = "\n".join(self.aux + ["Definition %s %s :=\n  %s." % (coq_name, sig, body)])
        return text, defaults


HEADER = """(* GENERATED by tools/py2v.py from %s -- do not edit; regenerated on every run *)
From Coq Require Import List Bool NArith ZArith.
From Coq Require Import Init.Byte.
From Bec2 Require Import Base.Result Base.Bytes.
Import ListNotations.
"""


# --------------------------------------------------------------------------
# generators, one per Gen file.  Each returns (filename, text).

def gen_crc():
    tree = parse("bec2format/bec2file.py")
    fn = find_func(tree, "crc8404B")
    tr = FuncTr("N", seq_params=["data"])
    text, defaults = tr.function(fn, "crc8404B")
    if "start_value" not in defaults:
        raise TranslationError("crc8404B: no default start value")
    start = const_eval(defaults["start_value"], {})
    out = HEADER % "bec2format/bec2file.py (crc8404B)"
    out += "Open Scope N_scope.\n\n" + text + "\n\n"
    out += "Definition crc8404B_default_start : N := %s.\n" % cN(start)
    return "Crc.v", out


def bf3_env():
    tree = parse("bec2format/bf3file.py")
    hw = parse("bec2format/hwcids.py")
    env = {"HWCID_MAP": const_eval(module_assign(hw, "HWCID_MAP"), {})}
    for cls in ("BF3TAG", "BF3FMT", "BF3ENC", "BF3TYPE", "BF3INTF"):
        env[cls] = class_consts(tree, cls)
    for name in ("MAX_TLVBLOCK_SIZE", "KEY_SIZE", "CMAC_SIZE", "END_OF_LINE",
                 "DEFAULT_SESSION_KEY", "BF3_FILE_SIG", "BF2_TAGTYPE_MAP",
                 "PFID2FILTER_TO_HWCID_SPECIAL_CASES", "BF2_INTERFACES"):
        env[name] = const_eval(module_assign(tree, name), env)
    return tree, env


def gen_consts():
    tree, env = bf3_env()
    out = HEADER % "bec2format/bf3file.py, bec2file.py, crypto.py, hwcids.py (constants)"
    out += "Open Scope N_scope.\n\n"
    for cls in ("BF3TAG", "BF3FMT", "BF3ENC", "BF3TYPE", "BF3INTF"):
        for k, v in env[cls].items():
            out += "Definition %s_%s : N := %s.\n" % (cls, k, cN(v))
    out += "Definition BF3INTF_names : list (list N * N) := %s.\n" % clist(
        ["(%s, %s)" % (cstr(k), cN(v)) for k, v in env["BF3INTF"].items()])
    for name in ("MAX_TLVBLOCK_SIZE", "KEY_SIZE", "CMAC_SIZE", "END_OF_LINE"):
        out += "Definition %s : N := %s.\n" % (name, cN(env[name]))
    out += "Definition DEFAULT_SESSION_KEY : bytes := %s.\n" % cbytes(env["DEFAULT_SESSION_KEY"])
    out += "Definition BF3_FILE_SIG : bytes := %s.\n" % cbytes(env["BF3_FILE_SIG"])

    def opt(v):
        return "None" if v is None else "(Some %s)" % cN(v)
    rows = []
    for k, (t, h, f, i) in env["BF2_TAGTYPE_MAP"].items():
        rows.append("(%s, (%s, %s, %s, %s))" % (cN(k), opt(t), opt(h), opt(f), opt(i)))
    out += "Definition BF2_TAGTYPE_MAP : list (N * (option N * option N * option N * option N)) :=\n  %s.\n" % clist(rows)
    out += "Definition PFID2FILTER_TO_HWCID_SPECIAL_CASES : list (list N * N) := %s.\n" % clist(
        ["(%s, %s)" % (cstr(k), cN(v)) for k, v in env["PFID2FILTER_TO_HWCID_SPECIAL_CASES"].items()])
    out += "Definition BF2_INTERFACES : list (list N * N) := %s.\n" % clist(
        ["(%s, %s)" % (cstr(k), cN(v)) for k, v in env["BF2_INTERFACES"].items()])
    out += "Definition HWCID_MAP : list (list N * N) := %s.\n" % clist(
        ["(%s, %s)" % (cstr(k), cN(v)) for k, v in env["HWCID_MAP"].items()])

    # bec2file constants
    b2 = parse("bec2format/bec2file.py")
    for name in ("CONFIG_SECURITY_CODE_SIZE", "CUSTOMER_KEY_SIZE"):
        out += "Definition %s : N := %s.\n" % (name, cN(const_eval(module_assign(b2, name), {})))
    out += "Definition BEC2_FILE_SIG : bytes := %s.\n" % cbytes(const_eval(module_assign(b2, "BEC2_FILE_SIG"), {}))
    ecc = class_consts(b2, "EccEncryptor")
    for k in ("KEYSEL_FW_STD", "KEYSEL_KEYSTORE_STD", "KEYSEL_KEYSTORE_ALT0", "KEYSEL_KEYSTORE_ALT1"):
        out += "Definition %s : N := %s.\n" % (k, cN(ecc[k]))
    out += "Definition DEFAULT_PUBLIC_KEYS : list (N * bytes) := %s.\n" % clist(
        ["(%s, %s)" % (cN(k), cbytes(v)) for k, v in ecc["DEFAULT_PUBLIC_KEYS"].items()])
    for cls, nm in (("InitCustKeyAuthBlock", "TAG_CUSTKEY"), ("InitEccAuthBlock", "TAG_ECC"),
                    ("UpdateAuthBlock", "TAG_UPDATE")):
        out += "Definition %s : N := %s.\n" % (nm, cN(class_consts(b2, cls)["TAG"]))
    out += "Definition CUSTOMER_KEY_PLACEHOLDER : bytes := %s.\n" % cbytes(
        class_consts(b2, "InitCustKeyAuthBlock")["CUSTOMER_KEY_PLACEHOLDER"])
    # crypto.py: AES128 sizes and the P-256 DER header
    cr = parse("bec2format/crypto.py")
    aes = class_consts(cr, "AES128")
    out += "Definition AES_BLOCK_SIZE : N := %s.\nDefinition AES_KEY_SIZE : N := %s.\n" % (
        cN(aes["BLOCK_SIZE"]), cN(aes["KEY_SIZE"]))
    pk = find_class(cr, "PublicEccKey")
    f1 = [n for n in pk.body if isinstance(n, ast.FunctionDef) and n.name == "create_from_raw_fmt"][0]
    f2 = [n for n in pk.body if isinstance(n, ast.FunctionDef) and n.name == "to_raw_bin_fmt"][0]
    out += "Definition der_header : bytes := %s.\n" % cbytes(const_eval(module_assign(cr, "der_header", f1.body), {}))
    out += "Definition der_header_len : N := %s.\n" % cN(const_eval(module_assign(cr, "der_header_len", f2.body), {}))
    out += "Require Export Bec2.Gen.Pad Bec2.Gen.AesFrame Bec2.Gen.TagTypes.\n"
    return "Consts.v", out


def gen_tagtypes():
    tree, env = bf3_env()
    out = HEADER % "bec2format/bf3file.py (is_known_tagtype)"
    out += "Open Scope N_scope.\n\n"
    # known tag types: the list literal inside is_known_tagtype
    fn = find_func(tree, "is_known_tagtype")
    kt = const_eval(module_assign(tree, "known_tagtypes", fn.body), env)
    ret = fn.body[-1]
    want = "return any((base_tagtype <= tagtype <= end_tagtype for base_tagtype, end_tagtype in known_tagtypes))"
    if not isinstance(ret, ast.Return) or ast.unparse(ret) != want:
        raise TranslationError("is_known_tagtype: unexpected return expression: " + ast.unparse(ret))
    out += "Definition known_tagtypes : list (N * N) := %s.\n" % clist(
        ["(%s, %s)" % (cN(a), cN(b)) for a, b in kt])
    out += "Definition is_known_tagtype (tagtype : N) : bool :=\n  existsb (fun '(lo, hi) => (lo <=? tagtype) && (tagtype <=? hi)) known_tagtypes.\n"
    return "TagTypes.v", out


def gen_aesframe():
    b2 = parse("bec2format/bec2file.py")
    cr = parse("bec2format/crypto.py")
    aes = class_consts(cr, "AES128")
    out = HEADER % "bec2format/bec2file.py (AesEncryptorMixin.encrypt: padding length and frame)"
    out += "Open Scope N_scope.\n\n"
    # the AES container's padding length expression (AesEncryptorMixin.encrypt)
    enc = find_func(b2, "encrypt", "AesEncryptorMixin")
    loc = {}
    for n in enc.body:
        if isinstance(n, ast.Assign) and isinstance(n.targets[0], ast.Name) and \
                n.targets[0].id in ("header_len", "min_padding_len"):
            loc[n.targets[0].id] = const_eval(n.value, {})
    pl = module_assign(b2, "padding_len", enc.body)
    tr = FuncTr("Z", attr_map={"AES128.BLOCK_SIZE": cZ(aes["BLOCK_SIZE"])})
    src = ast.unparse(pl)
    # rewrite len(plaintext), len(crc) and the two locals into names/literals
    class R(ast.NodeTransformer):
        def visit_Call(self, n):
            if isinstance(n.func, ast.Name) and n.func.id == "len" and isinstance(n.args[0], ast.Name):
                if n.args[0].id == "plaintext":
                    return ast.Name("len_plaintext", ast.Load())
                if n.args[0].id == "crc":
                    return ast.Constant(2)
            return self.generic_visit(n)
        def visit_Name(self, n):
            if n.id in loc:
                return ast.Constant(loc[n.id])
            return n
        def visit_Attribute(self, n):
            if ast.unparse(n) == "AES128.BLOCK_SIZE":
                return ast.Constant(aes["BLOCK_SIZE"])
            return self.generic_visit(n)
    pl2 = R().visit(pl)
    out += "(* padding_len = %s *)\n" % src
    out += "Definition padding_len (len_plaintext : Z) : Z :=\n  %s.\n" % tr.expr(pl2)
    out += "Definition AES_HEADER_LEN : N := %s.\n" % cN(loc["header_len"])
    # the frame concatenation must have the expected shape
    frame = [n for n in enc.body if isinstance(n, ast.Assign) and isinstance(n.targets[0], ast.Name)
             and n.targets[0].id == "plaintext"]
    want = "b'B' + (len(plaintext) + len(crc)).to_bytes(1, 'big') + bytes([0] * padding_len) + plaintext + crc"
    if len(frame) != 1 or ast.unparse(frame[0].value) != want:
        raise TranslationError("AesEncryptorMixin.encrypt: frame expression changed: " +
                               (ast.unparse(frame[0].value) if frame else "missing"))
    crcexpr = module_assign(b2, "crc", enc.body)
    if ast.unparse(crcexpr) != "crc8404B(plaintext).to_bytes(2, 'big')":
        raise TranslationError("AesEncryptorMixin.encrypt: crc expression changed: " + ast.unparse(crcexpr))
    return "AesFrame.v", out


def gen_pad():
    cr = parse("bec2format/crypto.py")
    aes = class_consts(cr, "AES128")
    out = HEADER % "bec2format/crypto.py (pad)"
    out += "Open Scope N_scope.\n\n"
    # crypto.pad
    padf = find_func(cr, "pad")
    if [ast.unparse(s) for s in padf.body] != [
            "pad_length = -len(data) % __AES128.BLOCK_SIZE",
            "return data + bytes([0] * pad_length)"]:
        raise TranslationError("crypto.pad changed: " + ast.unparse(padf))
    out += "Definition pad_length (len_data : Z) : Z := (Z.modulo (Z.opp len_data) %s).\n" % cZ(aes["BLOCK_SIZE"])
    return "Pad.v", out


GENERATORS = [gen_crc, gen_tagtypes, gen_aesframe, gen_pad, gen_consts]


def all_generators():
    """Built-in generators plus every tools/gen/<name>.py module's GENERATORS list
    (each generator is a function returning (filename, text) and raising
    TranslationError when the source is outside the accepted subset)."""
    import importlib
    gens = list(GENERATORS)
    gdir = os.path.join(os.path.dirname(os.path.abspath(__file__)), "gen")
    if gdir not in sys.path:
        sys.path.insert(0, os.path.dirname(gdir))
    for fn in sorted(os.listdir(gdir)) if os.path.isdir(gdir) else []:
        if fn.endswith(".py") and not fn.startswith("_"):
            name = "gen." + fn[:-3]
            try:
                if name in sys.modules:
                    mod = importlib.reload(sys.modules[name])
                else:
                    mod = importlib.import_module(name)
                gens += list(mod.GENERATORS)
            except Exception as e:   # a generator module that does not load is a failed translation
                def bad(e=e, name=name):
                    raise TranslationError("generator module %s failed to load: %r" % (name, e))
                bad.__name__ = name
                gens.append(bad)
    return gens


def generate(outdir, only=None):
    """Run all generators; write files only when content changes.
    Returns list of (filename, error-or-None)."""
    os.makedirs(outdir, exist_ok=True)
    results = []
    for g in all_generators():
        try:
            fname, text = g()
        except TranslationError as e:
            results.append((g.__name__, "TranslationError: %s" % e))
            continue
        except Exception as e:  # fail closed on anything unexpected
            results.append((g.__name__, "%s: %s" % (type(e).__name__, e)))
            continue
        path = os.path.join(outdir, fname)
        old = None
        if os.path.exists(path):
            with open(path) as f:
                old = f.read()
        if old != text:
            with open(path, "w") as f:
                f.write(text)
        results.append((fname, None))
    return results


if __name__ == "__main__":
    out = sys.argv[1] if len(sys.argv) > 1 else "/verif/coq/Gen"
    bad = 0
    for name, errmsg in generate(out):
        print(name, "OK" if errmsg is None else errmsg)
        bad += errmsg is not None
    sys.exit(1 if bad else 0)
