"""C20 (part 1): _rwlock.py -> coq/Gen/RwLock.v.

Every method of RWLock / _LightSwitch becomes an instruction list over

    Acq l | Rel l | Load c | StoreInc c | StoreDec c | IfNeSkip c k | Call

with lock and counter names taken from the two __init__ methods.
`self.__counter += 1` is split into `Load c; StoreInc c` (read into a
thread-local temporary, then store temporary+1): a finer granularity than the
interpreter gives, so every schedule of the real code is a schedule of the model.
`if self.__counter == k: <one acquire/release>` becomes `IfNeSkip c k` (one read
of the counter; skips the next instruction when the counter differs from k)
followed by the guarded instruction.  A call `self.__switch.acquire(self.__lock)`
becomes `Call` (the line that performs the call; no shared access) followed by
the body of the _LightSwitch method with its mutex/counter/parameter substituted.

Fails closed (TranslationError) on every statement shape not listed above.

`analyse()` is also used by tools/props/C20.py: it returns, for every
instruction, the stack of (function name, line) positions of the source line it
was generated from, which is how positions of the real threads (sys.settrace)
are mapped to program counters of the model."""
import ast

from py2v import parse, find_class, TranslationError

SRC = "appnotes/register_crypto_plugin/ecdsa/_rwlock.py"


def _strip(name):
    return name.lstrip("_")


def _self_attr(node):
    """self.<attr> -> attr (stripped) or None"""
    if isinstance(node, ast.Attribute) and isinstance(node.value, ast.Name) and node.value.id == "self":
        return _strip(node.attr)
    return None


def _is_docstring(s):
    return isinstance(s, ast.Expr) and isinstance(s.value, ast.Constant) and isinstance(s.value.value, str)


def _methods(cls):
    out = {}
    for n in cls.body:
        if _is_docstring(n):
            continue
        if isinstance(n, ast.FunctionDef):
            if n.decorator_list:
                raise TranslationError("%s.%s: decorated method" % (cls.name, n.name))
            out[n.name] = n
        else:
            raise TranslationError("%s: unexpected class-level statement %s" % (cls.name, ast.unparse(n)))
    return out


def _params(fn):
    a = fn.args
    if a.vararg or a.kwarg or a.kwonlyargs or a.defaults or a.posonlyargs:
        raise TranslationError("%s: unsupported signature" % fn.name)
    names = [x.arg for x in a.args]
    if not names or names[0] != "self":
        raise TranslationError("%s: first parameter is not self" % fn.name)
    return names[1:]


def _init_fields(cls, fn, switch_classes):
    """__init__ body: self.__x = threading.Lock() | self.__x = <int> | self.__x = _LightSwitch()"""
    if _params(fn):
        raise TranslationError("%s.__init__ takes parameters" % cls.name)
    fields = []
    for s in fn.body:
        if _is_docstring(s):
            continue
        if not (isinstance(s, ast.Assign) and len(s.targets) == 1 and _self_attr(s.targets[0])):
            raise TranslationError("%s.__init__: statement %s" % (cls.name, ast.unparse(s)))
        name = _self_attr(s.targets[0])
        if name in [f[1] for f in fields]:
            raise TranslationError("%s.__init__: %s assigned twice" % (cls.name, name))
        v = s.value
        if isinstance(v, ast.Constant) and isinstance(v.value, int) and not isinstance(v.value, bool) and v.value >= 0:
            fields.append(("counter", name, v.value))
        elif isinstance(v, ast.Call) and not v.args and not v.keywords and ast.unparse(v.func) == "threading.Lock":
            fields.append(("lock", name, None))
        elif isinstance(v, ast.Call) and not v.args and not v.keywords and isinstance(v.func, ast.Name) \
                and v.func.id in switch_classes:
            fields.append(("switch", name, v.func.id))
        else:
            raise TranslationError("%s.__init__: initialiser %s" % (cls.name, ast.unparse(s)))
    return fields


def _lock_op(call):
    """<obj>.acquire() / <obj>.release() with no arguments -> (op, obj) else None"""
    if isinstance(call, ast.Call) and isinstance(call.func, ast.Attribute) and \
            call.func.attr in ("acquire", "release") and not call.keywords:
        return ("Acq" if call.func.attr == "acquire" else "Rel"), call.func.value, call.args
    return None


def _switch_method(cls, fn, fields):
    """Body of a _LightSwitch method as symbolic instructions over
    ('mutex'|'param', name) locks and the switch's counters."""
    params = _params(fn)
    locks = {f[1] for f in fields if f[0] == "lock"}
    ctrs = {f[1] for f in fields if f[0] == "counter"}
    out = []   # (instr tuple, line)

    def lockref(node):
        a = _self_attr(node)
        if a is not None and a in locks:
            return ("own", a)
        if isinstance(node, ast.Name) and node.id in params:
            return ("param", node.id)
        raise TranslationError("%s.%s: lock expression %s" % (cls.name, fn.name, ast.unparse(node)))

    def simple(s):
        if isinstance(s, ast.Expr):
            op = _lock_op(s.value)
            if op and not op[2]:
                return [((op[0], lockref(op[1])), s.lineno)]
        if isinstance(s, ast.AugAssign) and _self_attr(s.target) in ctrs and \
                isinstance(s.value, ast.Constant) and s.value.value == 1 and \
                isinstance(s.op, (ast.Add, ast.Sub)):
            c = _self_attr(s.target)
            st = "StoreInc" if isinstance(s.op, ast.Add) else "StoreDec"
            return [(("Load", c), s.lineno), ((st, c), s.lineno)]
        raise TranslationError("%s.%s: statement %s" % (cls.name, fn.name, ast.unparse(s)))

    for s in fn.body:
        if _is_docstring(s):
            continue
        if isinstance(s, ast.If):
            t = s.test
            if s.orelse or len(s.body) != 1 or not (
                    isinstance(t, ast.Compare) and len(t.ops) == 1 and isinstance(t.ops[0], ast.Eq)
                    and _self_attr(t.left) in ctrs and isinstance(t.comparators[0], ast.Constant)
                    and isinstance(t.comparators[0].value, int) and t.comparators[0].value >= 0):
                raise TranslationError("%s.%s: if-statement %s" % (cls.name, fn.name, ast.unparse(s)))
            body = simple(s.body[0])
            if len(body) != 1 or body[0][0][0] not in ("Acq", "Rel"):
                raise TranslationError("%s.%s: guarded statement %s" % (cls.name, fn.name, ast.unparse(s.body[0])))
            out.append((("IfNeSkip", _self_attr(t.left), t.comparators[0].value), s.lineno))
            out += body
        else:
            out += simple(s)
    return params, out


def analyse():
    tree = parse(SRC)
    for n in tree.body:
        if isinstance(n, (ast.Import, ast.ClassDef)) or _is_docstring(n):
            continue
        if isinstance(n, ast.Assign) and len(n.targets) == 1 and isinstance(n.targets[0], ast.Name) \
                and n.targets[0].id.startswith("__") and isinstance(n.value, ast.Constant):
            continue    # __author__ = "..."
        raise TranslationError("module-level statement %s" % ast.unparse(n))
    rw = find_class(tree, "RWLock")
    sw = find_class(tree, "_LightSwitch")
    for c in (rw, sw):
        if c.bases or c.keywords or c.decorator_list:
            raise TranslationError("class %s has bases/decorators" % c.name)
    swm = _methods(sw)
    rwm = _methods(rw)
    if set(swm) != {"__init__", "acquire", "release"}:
        raise TranslationError("_LightSwitch methods: %s" % sorted(swm))
    if set(rwm) != {"__init__", "reader_acquire", "reader_release", "writer_acquire", "writer_release"}:
        raise TranslationError("RWLock methods: %s" % sorted(rwm))
    sw_fields = _init_fields(sw, swm["__init__"], ())
    if any(f[0] == "switch" for f in sw_fields):
        raise TranslationError("_LightSwitch has a nested switch")
    rw_fields = _init_fields(rw, rwm["__init__"], ("_LightSwitch",))
    if any(f[0] == "counter" for f in rw_fields):
        raise TranslationError("RWLock has its own counter")
    sw_bodies = {m: _switch_method(sw, swm[m], sw_fields) for m in ("acquire", "release")}

    locks, ctrs = [], []      # (coq id, runtime path)   runtime path: tuple of mangled attribute names
    switches = {}
    for kind, name, extra in rw_fields:
        if kind == "lock":
            locks.append((name, ("_RWLock__" + name,)))
        else:
            switches[name] = True
            for k2, n2, init in sw_fields:
                full = "%s_%s" % (name, n2)
                path = ("_RWLock__" + name, "_LightSwitch__" + n2)
                if k2 == "lock":
                    locks.append((full, path))
                else:
                    ctrs.append((full, path, init))
    lock_names = [l[0] for l in locks]
    if len(set(lock_names)) != len(lock_names) or not ctrs:
        raise TranslationError("lock/counter names")

    methods = {}
    for m in ("reader_acquire", "reader_release", "writer_acquire", "writer_release"):
        fn = rwm[m]
        if _params(fn):
            raise TranslationError("RWLock.%s takes parameters" % m)
        prog = []   # (instr tuple, pos)
        for s in fn.body:
            if _is_docstring(s):
                continue
            op = _lock_op(s.value) if isinstance(s, ast.Expr) else None
            if op is None:
                raise TranslationError("RWLock.%s: statement %s" % (m, ast.unparse(s)))
            kind, obj, args = op
            target = _self_attr(obj)
            here = ((m, s.lineno),)
            if target in lock_names and target not in switches and not args:
                prog.append(((kind, target), here))
            elif target in switches and len(args) == 1 and _self_attr(args[0]) in lock_names \
                    and _self_attr(args[0]) not in switches:
                arg = _self_attr(args[0])
                meth = "acquire" if kind == "Acq" else "release"
                params, body = sw_bodies[meth]
                if len(params) != 1:
                    raise TranslationError("_LightSwitch.%s: expected exactly one parameter" % meth)
                prog.append((("Call",), here))
                for ins, line in body:
                    pos = here + ((meth, line),)
                    if ins[0] in ("Acq", "Rel"):
                        ref = ins[1]
                        l = "%s_%s" % (target, ref[1]) if ref[0] == "own" else arg
                        prog.append(((ins[0], l), pos))
                    elif ins[0] == "IfNeSkip":
                        prog.append((("IfNeSkip", "%s_%s" % (target, ins[1]), ins[2]), pos))
                    else:
                        prog.append(((ins[0], "%s_%s" % (target, ins[1])), pos))
            else:
                raise TranslationError("RWLock.%s: statement %s" % (m, ast.unparse(s)))
        methods[m] = prog
    return {"locks": locks, "counters": ctrs, "methods": methods}


def _coq_instr(ins):
    if ins[0] in ("Acq", "Rel"):
        return "%s L_%s" % (ins[0], ins[1])
    if ins[0] in ("Load", "StoreInc", "StoreDec"):
        return "%s C_%s" % (ins[0], ins[1])
    if ins[0] == "IfNeSkip":
        return "IfNeSkip C_%s %d" % (ins[1], ins[2])
    if ins[0] == "Call":
        return "Call"
    raise TranslationError("instr %r" % (ins,))


def gen_rwlock():
    a = analyse()
    locks = [l[0] for l in a["locks"]]
    ctrs = [(c[0], c[2]) for c in a["counters"]]
    o = "(* GENERATED by tools/gen/rwlock.py from %s -- do not edit; regenerated on every run *)\n" % SRC
    o += "From Coq Require Import List Bool Arith.\nImport ListNotations.\n\n"
    o += "Inductive lockid : Set :=\n" + "\n".join("| L_%s" % l for l in locks) + ".\n"
    o += "Inductive ctrid : Set :=\n" + "\n".join("| C_%s" % c for c, _ in ctrs) + ".\n\n"
    o += "Definition all_locks : list lockid := [%s].\n" % "; ".join("L_" + l for l in locks)
    o += "Definition all_ctrs : list ctrid := [%s].\n\n" % "; ".join("C_" + c for c, _ in ctrs)
    o += "(* one threading.Lock = one bit (binary semaphore without owner) *)\n"
    o += "Record lockst : Set := mk_lockst { %s }.\n" % "; ".join("v_%s : bool" % l for l in locks)
    o += "Definition getl (s : lockst) (l : lockid) : bool :=\n  match l with\n"
    o += "".join("  | L_%s => v_%s s\n" % (l, l) for l in locks) + "  end.\n"
    o += "Definition setl (s : lockst) (l : lockid) (b : bool) : lockst :=\n  match l with\n"
    for l in locks:
        o += "  | L_%s => mk_lockst %s\n" % (l, " ".join("b" if x == l else "(v_%s s)" % x for x in locks))
    o += "  end.\n"
    o += "Definition lockst0 : lockst := mk_lockst %s.\n\n" % " ".join("false" for _ in locks)
    o += "Record ctrst : Set := mk_ctrst { %s }.\n" % "; ".join("v_%s : nat" % c for c, _ in ctrs)
    o += "Definition getc (s : ctrst) (c : ctrid) : nat :=\n  match c with\n"
    o += "".join("  | C_%s => v_%s s\n" % (c, c) for c, _ in ctrs) + "  end.\n"
    o += "Definition setc (s : ctrst) (c : ctrid) (n : nat) : ctrst :=\n  match c with\n"
    for c, _ in ctrs:
        o += "  | C_%s => mk_ctrst %s\n" % (c, " ".join("n" if x == c else "(v_%s s)" % x for x, _ in ctrs))
    o += "  end.\n"
    o += "Definition ctrst0 : ctrst := mk_ctrst %s.\n\n" % " ".join(str(i) for _, i in ctrs)
    o += ("Inductive instr : Set :=\n"
          "| Acq (l : lockid)            (* l.acquire(): disabled while l is held *)\n"
          "| Rel (l : lockid)            (* l.release(): RuntimeError when l is not held *)\n"
          "| Load (c : ctrid)            (* tmp := c         (first half of  c += 1 / c -= 1) *)\n"
          "| StoreInc (c : ctrid)        (* c := tmp + 1 *)\n"
          "| StoreDec (c : ctrid)        (* c := tmp - 1 *)\n"
          "| IfNeSkip (c : ctrid) (k : nat)  (* if c == k: <next instruction> *)\n"
          "| Call.                       (* the line calling a _LightSwitch method *)\n\n")
    for m, prog in a["methods"].items():
        o += "(* %s\n" % m
        for i, (ins, pos) in enumerate(prog):
            o += "   %2d  %-40s %s\n" % (i, _coq_instr(ins), " > ".join("%s:%d" % p for p in pos))
        o += "*)\n"
        o += "Definition %s : list instr :=\n  [%s].\n\n" % (m, ";\n   ".join(_coq_instr(i) for i, _ in prog))
    return "RwLock.v", o


GENERATORS = [gen_rwlock]
