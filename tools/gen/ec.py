"""Translator generators for property C17 (elliptic-curve arithmetic).

  gen_ec_formulas -> coq/Gen/EcFormulas.v
      the seven Jacobian formula functions of class PointJacobi
      (_double_with_z_1, _double, _add_with_z_1, _add_with_z_eq, _add_with_z2_1,
      _add_with_z_ne, _add), AbstractPoint._naf and CurveFp.contains_point of
      appnotes/register_crypto_plugin/ecdsa/ellipticcurve.py, translated with
      py2v.FuncTr (scope Z).  `self.__curve.a()` becomes the extra parameter `a`
      (appended to the parameter list of every function that uses it, and passed
      on by the callers); `self._foo(...)` becomes a call of the generated
      function.  `_naf` (a `while mult:` loop that ends in `mult //= 2` and
      appends to a list) becomes fuelled recursion returning `result (list Z)`
      (`Err EFuel` when the fuel runs out).

  gen_curves -> coq/Gen/Curves.v
      (name, p, a, b, Gx, Gy, n, h) of every `Curve(...)` object of curves.py
      that is built from a CurveFp/PointJacobi pair of ecdsa.py (17 short
      Weierstrass curves; the two Edwards curves come from eddsa.py and are
      skipped), obtained by evaluating the module-level constant expressions
      of ecdsa.py in order.

  gen_ec_affine -> coq/Gen/EcAffine.v
      the arithmetic of the affine class Point: the two tests of Point.__add__ on the
      equal-x branch (`self.__x == other.__x`, `(self.__y + other.__y) % p == 0`, whose
      arms must be `return INFINITY` / `return self.double()`), the straight-line chord
      formulas of __add__ and tangent formulas of double (the argument D of the single
      call numbertheory.inverse_mod(D, p) as `ap_*_den`, the rest with the returned
      inverse as parameter `inv` as `ap_*_xy`; the function must end in
      `return Point(self.__curve, x3, y3)`), and the coordinates __neg__ passes to the
      constructor.  self.__x/__y, other.__x/__y, self.__curve.p()/a() become the
      parameters sx sy ox oy p a.  The guards before the x test of __add__ and the
      INFINITY test of double are hand-modelled (Model/EcAffine.v).

All fail closed (TranslationError) on any source shape outside the subset.
"""
import ast

from py2v import (parse, find_func, const_eval, FuncTr, cZ, cstr, clist, HEADER,
                  TranslationError)

EC_PY = "appnotes/register_crypto_plugin/ecdsa/ellipticcurve.py"
ECDSA_PY = "appnotes/register_crypto_plugin/ecdsa/ecdsa.py"
CURVES_PY = "appnotes/register_crypto_plugin/ecdsa/curves.py"

# python method -> (coq name, does it take the extra parameter `a`)
FORMULAS = [
    ("_double_with_z_1", "pj_double_with_z_1"),
    ("_double", "pj_double"),
    ("_add_with_z_1", "pj_add_with_z_1"),
    ("_add_with_z_eq", "pj_add_with_z_eq"),
    ("_add_with_z2_1", "pj_add_with_z2_1"),
    ("_add_with_z_ne", "pj_add_with_z_ne"),
    ("_add", "pj_add"),
]


class EcTr(FuncTr):
    """FuncTr + (1) plain attribute reads through attr_map (self.__a), (2) a
    comparison as an expression (bool), (3) callees that need extra trailing
    arguments (the curve coefficient `a`, which the Python code reads from
    self.__curve inside the callee or passes explicitly)."""

    def __init__(self, *a, call_extra=None, **k):
        FuncTr.__init__(self, *a, **k)
        self.call_extra = call_extra or {}
        self.used_extra = set()

    def expr(self, e):
        if isinstance(e, ast.Attribute):
            key = ast.dump(e)
            for k, v in self.attr_map.items():
                if ast.dump(ast.parse(k, mode="eval").body) == key:
                    self.used_extra.add(v)
                    return v
            raise TranslationError("attribute %s" % ast.unparse(e))
        if isinstance(e, ast.Compare):
            return self.cond(e)
        if isinstance(e, ast.Call):
            key = ast.dump(e)
            for k, v in self.attr_map.items():
                if ast.dump(ast.parse(k, mode="eval").body) == key:
                    self.used_extra.add(v)
                    return v
            f = e.func
            callee = None
            if isinstance(f, ast.Attribute) and isinstance(f.value, ast.Name) and f.value.id == "self":
                callee = f.attr
            if callee in self.call_map:
                if e.keywords:
                    raise TranslationError("keyword arguments in %s" % ast.unparse(e))
                args = [self.expr(a) for a in e.args] + list(self.call_extra.get(callee, ()))
                for x in self.call_extra.get(callee, ()):
                    self.used_extra.add(x)
                return "(%s %s)" % (self.call_map[callee], " ".join(args))
        return FuncTr.expr(self, e)


def _arity(fn):
    return len([a for a in fn.args.args if a.arg != "self"])


def gen_ec_formulas():
    tree = parse(EC_PY)
    out = HEADER % (EC_PY + " (PointJacobi formula functions, _naf, contains_point)")
    out += "Open Scope Z_scope.\n\n"
    call_map = {}
    call_extra = {}
    arity = {}
    for py, coq in FORMULAS:
        fn = find_func(tree, py, "PointJacobi")
        if any(d for d in fn.decorator_list):
            raise TranslationError("%s: decorated" % py)
        tr = EcTr("Z", attr_map={"self.__curve.a()": "a"}, call_map=dict(call_map),
                  call_extra=dict(call_extra))
        # first pass: does the body need the extra parameter?
        tr.function(fn, coq)
        needs_a = "a" in tr.used_extra
        params = [a.arg for a in fn.args.args if a.arg != "self"]
        if needs_a and "a" in params:
            # `a` already is a parameter and self.__curve.a() is also read: both denote the curve
            # coefficient only if the callers pass it; refuse rather than guess
            raise TranslationError("%s: both a parameter `a` and self.__curve.a()" % py)
        text, defaults = tr.function(fn, coq, extra_params=("a",) if needs_a else ())
        if defaults:
            raise TranslationError("%s: default arguments" % py)
        # every call inside must have had the callee's arity
        for node in ast.walk(fn):
            if isinstance(node, ast.Call) and isinstance(node.func, ast.Attribute) and \
                    isinstance(node.func.value, ast.Name) and node.func.value.id == "self" and \
                    node.func.attr in arity and len(node.args) != arity[node.func.attr]:
                raise TranslationError("%s: call of %s with %d arguments" % (py, node.func.attr, len(node.args)))
        out += "(* PointJacobi.%s(%s)%s *)\n" % (py, ", ".join(params), "  [+ a = self.__curve.a()]" if needs_a else "")
        out += text + "\n\n"
        call_map[py] = coq
        arity[py] = len(params)
        if needs_a:
            call_extra[py] = ["a"]
    out += _gen_contains_point(tree) + "\n\n"
    out += _gen_naf(tree) + "\n"
    return "EcFormulas.v", out


def _gen_contains_point(tree):
    fn = find_func(tree, "contains_point", "CurveFp")
    tr = EcTr("Z", attr_map={"self.__a": "a", "self.__b": "b", "self.__p": "p"})
    text, defaults = tr.function(fn, "contains_point", extra_params=("p", "a", "b"))
    if defaults:
        raise TranslationError("contains_point: defaults")
    if tr.used_extra != {"a", "b", "p"}:
        raise TranslationError("contains_point: does not read exactly __a, __b, __p: %r" % (tr.used_extra,))
    return "(* CurveFp.contains_point(x, y)  [+ p, a, b = self.__p, self.__a, self.__b] *)\n" + text


# --------------------------------------------------------------------------
# _naf: while-loop with a list accumulator

class NafTr(FuncTr):
    """Statement translator for loop bodies that update a fixed tuple of state
    variables: assignments, augmented assignments, `lst.append(e)`, and
    if/else without return (both arms fall through)."""

    def __init__(self, lists):
        FuncTr.__init__(self, "Z")
        self.lists = set(lists)

    def stmts(self, body, state, tail):
        """coq expression: run `body`, then `tail` (a coq expression over the state names)"""
        if not body:
            return tail
        s, rest = body[0], body[1:]
        k = self.stmts(rest, state, tail)
        if isinstance(s, ast.Assign):
            if len(s.targets) != 1 or not isinstance(s.targets[0], ast.Name):
                raise TranslationError("_naf: assignment target")
            if s.targets[0].id in self.lists:
                raise TranslationError("_naf: list reassigned")
            return "let %s := %s in\n      %s" % (s.targets[0].id, self.expr(s.value), k)
        if isinstance(s, ast.AugAssign):
            if not isinstance(s.target, ast.Name) or s.target.id in self.lists:
                raise TranslationError("_naf: augmented assignment target")
            e = ast.BinOp(ast.Name(s.target.id, ast.Load()), s.op, s.value)
            return "let %s := %s in\n      %s" % (s.target.id, self.expr(e), k)
        if isinstance(s, ast.Expr) and isinstance(s.value, ast.Call):
            c = s.value
            if isinstance(c.func, ast.Attribute) and c.func.attr == "append" and \
                    isinstance(c.func.value, ast.Name) and c.func.value.id in self.lists and \
                    len(c.args) == 1 and not c.keywords:
                lst = c.func.value.id
                return "let %s := (%s ++ [%s]) in\n      %s" % (lst, lst, self.expr(c.args[0]), k)
            raise TranslationError("_naf: expression statement %s" % ast.unparse(s))
        if isinstance(s, ast.If):
            for n in ast.walk(s):
                if isinstance(n, (ast.Return, ast.Break, ast.Continue, ast.While, ast.For)):
                    raise TranslationError("_naf: control flow inside if")
            # variables assigned in either arm must already exist (they are joined after the if)
            assigned = []
            for n in ast.walk(s):
                if isinstance(n, ast.Assign):
                    for t in n.targets:
                        if isinstance(t, ast.Name) and t.id not in assigned:
                            assigned.append(t.id)
                elif isinstance(n, ast.AugAssign) and isinstance(n.target, ast.Name):
                    if n.target.id not in assigned:
                        assigned.append(n.target.id)
                elif isinstance(n, ast.Call) and isinstance(n.func, ast.Attribute) and n.func.attr == "append" \
                        and isinstance(n.func.value, ast.Name) and n.func.value.id not in assigned:
                    assigned.append(n.func.value.id)
            # locals first defined inside an arm and used only there are fine; joined variables
            # are those visible before the if
            joined = [v for v in assigned if v in state]
            local_only = [v for v in assigned if v not in state]
            used_after = set(n.id for st in rest for n in ast.walk(st) if isinstance(n, ast.Name))
            for v in local_only:
                if v in used_after:
                    raise TranslationError("_naf: %s defined in one arm and used after the if" % v)
            if not joined:
                raise TranslationError("_naf: if without effect")
            pat = joined[0] if len(joined) == 1 else "'(" + ", ".join(joined) + ")"
            val = joined[0] if len(joined) == 1 else "(" + ", ".join(joined) + ")"
            th = self.stmts(list(s.body), state | set(local_only), val)
            el = self.stmts(list(s.orelse), state | set(local_only), val)
            return "let %s := (if %s then (%s) else (%s)) in\n      %s" % (pat, self.cond(s.test), th, el, k)
        raise TranslationError("_naf: statement %s" % type(s).__name__)


def _gen_naf(tree):
    fn = find_func(tree, "_naf", "AbstractPoint")
    if [ast.unparse(d) for d in fn.decorator_list] != ["staticmethod"]:
        raise TranslationError("_naf: expected a staticmethod")
    params = [a.arg for a in fn.args.args]
    if params != ["mult"] or fn.args.defaults or fn.args.vararg or fn.args.kwarg:
        raise TranslationError("_naf: parameters %r" % params)
    body = [s for s in fn.body if not (isinstance(s, ast.Expr) and isinstance(s.value, ast.Constant)
                                       and isinstance(s.value.value, str))]
    if len(body) != 3:
        raise TranslationError("_naf: expected `ret = []; while mult: ...; return ret`")
    init, loop, ret = body
    if ast.unparse(init) != "ret = []" or ast.unparse(ret) != "return ret":
        raise TranslationError("_naf: unexpected init/return: %s / %s" % (ast.unparse(init), ast.unparse(ret)))
    if not isinstance(loop, ast.While) or loop.orelse or ast.unparse(loop.test) != "mult":
        raise TranslationError("_naf: expected `while mult:`")
    # syntactic measure: the last statement of the body halves the loop variable
    if not loop.body or ast.unparse(loop.body[-1]) != "mult //= 2":
        raise TranslationError("_naf: loop body must end in `mult //= 2` (termination measure)")
    tr = NafTr(lists=["ret"])
    step = tr.stmts(list(loop.body), {"mult", "ret"}, "naf_loop fuel' mult ret")
    out = "(* AbstractPoint._naf(mult): `while mult: ...; mult //= 2` as fuelled recursion.\n"
    out += "   Fuel log2|mult| + 3 (|mult| at most halves, rounded up, per iteration). *)\n"
    out += "Fixpoint naf_loop (fuel : nat) (mult : Z) (ret : list Z) : result (list Z) :=\n"
    out += "  match fuel with\n  | O => Err EFuel\n  | S fuel' =>\n"
    out += "    if (negb (Z.eqb mult (0)%Z)) then\n      " + step + "\n    else Ok ret\n  end.\n\n"
    out += "Definition naf_fuel (mult : Z) : nat := (Z.to_nat (Z.log2 (Z.abs mult)) + 3)%nat.\n\n"
    out += "Definition naf (mult : Z) : result (list Z) := naf_loop (naf_fuel mult) mult (@nil Z).\n"
    return out


# --------------------------------------------------------------------------
# curve parameters

def _ceval(node, env):
    """const_eval + int(<str>, 16) and remove_whitespace(<str>) as they occur in ecdsa.py"""
    if isinstance(node, ast.Call) and isinstance(node.func, ast.Name) and not node.keywords:
        if node.func.id == "remove_whitespace" and len(node.args) == 1:
            s = _ceval(node.args[0], env)
            if not isinstance(s, str):
                raise TranslationError("remove_whitespace of a non-string")
            return "".join(s.split())
        if node.func.id == "int" and len(node.args) in (1, 2):
            s = _ceval(node.args[0], env)
            base = _ceval(node.args[1], env) if len(node.args) == 2 else 10
            if isinstance(s, int) and len(node.args) == 1:
                return s
            if not isinstance(s, str) or not isinstance(base, int):
                raise TranslationError("int(%r, %r)" % (s, base))
            try:
                return int(s, base)
            except ValueError as e:
                raise TranslationError("int(): %s" % e)
    if isinstance(node, ast.UnaryOp) and isinstance(node.op, ast.USub):
        return -_ceval(node.operand, env)
    return const_eval(node, env)


def _is_attr_call(node, mod, name):
    return isinstance(node, ast.Call) and isinstance(node.func, ast.Attribute) and \
        node.func.attr == name and isinstance(node.func.value, ast.Name) and node.func.value.id == mod


def read_curves():
    """[(name, p, a, b, Gx, Gy, n, h)] for the short-Weierstrass Curve objects of curves.py."""
    et = parse(ECDSA_PY)
    # remove_whitespace must be the expected helper (it is defined in ecdsa.py or imported)
    env = {}
    fp = {}      # curve variable -> (p, a, b, h)
    gens = {}    # generator variable -> (curve variable, Gx, Gy, n)
    for st in et.body:
        if not isinstance(st, ast.Assign) or len(st.targets) != 1 or not isinstance(st.targets[0], ast.Name):
            continue
        name, v = st.targets[0].id, st.value
        if _is_attr_call(v, "ellipticcurve", "CurveFp"):
            if v.keywords or len(v.args) != 4:
                raise TranslationError("%s: CurveFp(...) expected 4 positional arguments" % name)
            p, a, b, h = [_ceval(x, env) for x in v.args]
            if not all(isinstance(x, int) for x in (p, a, b, h)):
                raise TranslationError("%s: non-integer curve parameter" % name)
            fp[name] = (p, a, b, h)
        elif _is_attr_call(v, "ellipticcurve", "PointJacobi"):
            kw = {k.arg: k.value for k in v.keywords}
            if len(v.args) != 5 or set(kw) != {"generator"} or ast.unparse(kw["generator"]) != "True":
                raise TranslationError("%s: PointJacobi(curve, x, y, 1, n, generator=True) expected" % name)
            if not isinstance(v.args[0], ast.Name) or v.args[0].id not in fp:
                raise TranslationError("%s: unknown curve object" % name)
            gx, gy, z, n = [_ceval(x, env) for x in v.args[1:]]
            if z != 1 or not all(isinstance(x, int) for x in (gx, gy, n)):
                raise TranslationError("%s: generator not in affine form / non-integer" % name)
            gens[name] = (v.args[0].id, gx, gy, n)
        elif name.startswith("_"):
            try:
                env[name] = _ceval(v, env)
            except TranslationError:
                env.pop(name, None)     # not a constant: any later use fails closed (unbound name)
    ct = parse(CURVES_PY)
    out = []
    seen_edwards = 0
    for st in ct.body:
        if not isinstance(st, ast.Assign) or len(st.targets) != 1 or not isinstance(st.targets[0], ast.Name):
            continue
        v = st.value
        if not (isinstance(v, ast.Call) and isinstance(v.func, ast.Name) and v.func.id == "Curve"):
            continue
        name = st.targets[0].id
        if len(v.args) < 4:
            raise TranslationError("%s: Curve(name, curve, generator, oid, ...) expected" % name)
        cur, gen = v.args[1], v.args[2]
        if not (isinstance(cur, ast.Attribute) and isinstance(cur.value, ast.Name) and
                isinstance(gen, ast.Attribute) and isinstance(gen.value, ast.Name)):
            raise TranslationError("%s: curve/generator expression" % name)
        if cur.value.id == "eddsa" and gen.value.id == "eddsa":
            seen_edwards += 1
            continue
        if cur.value.id != "ecdsa" or gen.value.id != "ecdsa":
            raise TranslationError("%s: curve from module %s" % (name, cur.value.id))
        if gen.attr not in gens or cur.attr not in fp:
            raise TranslationError("%s: %s / %s not found in ecdsa.py" % (name, cur.attr, gen.attr))
        cvar, gx, gy, n = gens[gen.attr]
        if cvar != cur.attr:
            raise TranslationError("%s: generator %s is on %s, not on %s" % (name, gen.attr, cvar, cur.attr))
        if _ceval(v.args[0], {}) != name:
            raise TranslationError("%s: name argument differs" % name)
        p, a, b, h = fp[cur.attr]
        out.append((name, p, a, b, gx, gy, n, h))
    if len(out) != 17:
        raise TranslationError("expected 17 short-Weierstrass curves, found %d" % len(out))
    return out


def gen_curves():
    rows = read_curves()
    out = HEADER % (CURVES_PY + ", " + ECDSA_PY + " (short-Weierstrass curve parameters)")
    out += "Open Scope Z_scope.\n\n"
    out += ("Record curve := mkCurve { c_name : list N; c_p : Z; c_a : Z; c_b : Z;\n"
            "  c_Gx : Z; c_Gy : Z; c_n : Z; c_h : Z }.\n\n")
    for name, p, a, b, gx, gy, n, h in rows:
        out += "(* %s *)\nDefinition %s : curve := mkCurve %s\n  %s\n  %s\n  %s\n  %s\n  %s\n  %s\n  %s.\n\n" % (
            name, name, cstr(name), cZ(p), cZ(a), cZ(b), cZ(gx), cZ(gy), cZ(n), cZ(h))
    out += "Definition curves : list curve := %s.\n" % clist([r[0] for r in rows])
    return "Curves.v", out


# --------------------------------------------------------------------------
# the affine class Point: __add__, double, __neg__ (straight-line parts)

AFF_ATTRS = {"self.__x": "sx", "self.__y": "sy", "other.__x": "ox", "other.__y": "oy",
             "self.__curve.p()": "p", "self.__curve.a()": "a"}


def _strip_doc(body):
    return [s for s in body if not (isinstance(s, ast.Expr) and isinstance(s.value, ast.Constant)
                                    and isinstance(s.value.value, str))]


def _point_ctor_xy(ret, what, nargs=3):
    """`return Point(self.__curve, X, Y)` -> (X, Y) (ast nodes).  A fourth argument would be the
    order, which switches on the order assertion of Point.__init__: refused here."""
    if not (isinstance(ret, ast.Return) and isinstance(ret.value, ast.Call) and isinstance(ret.value.func, ast.Name)
            and ret.value.func.id == "Point" and not ret.value.keywords and len(ret.value.args) == nargs
            and ast.unparse(ret.value.args[0]) == "self.__curve"):
        raise TranslationError("%s: expected `return Point(self.__curve, x, y)`, found %s" % (
            what, ast.unparse(ret) if ret is not None else None))
    return ret.value.args[1], ret.value.args[2]


class _InvOut(ast.NodeTransformer):
    """replace the (single) call numbertheory.inverse_mod(D, p) by the name `inv`; D is kept"""

    def __init__(self, what):
        self.what = what
        self.den = None

    def visit_Call(self, n):
        if ast.unparse(n.func) == "numbertheory.inverse_mod":
            if self.den is not None:
                raise TranslationError("%s: more than one inverse_mod call" % self.what)
            if n.keywords or len(n.args) != 2 or ast.unparse(n.args[1]) != "p":
                raise TranslationError("%s: expected numbertheory.inverse_mod(<expr>, p)" % self.what)
            for sub in ast.walk(n.args[0]):
                if isinstance(sub, ast.Call) and ast.unparse(sub.func) == "numbertheory.inverse_mod":
                    raise TranslationError("%s: nested inverse_mod" % self.what)
            self.den = n.args[0]
            return ast.copy_location(ast.Name("inv", ast.Load()), n)
        return self.generic_visit(n)


def _straight_line(stmts, what, params, fname):
    """[assignments ...; return Point(self.__curve, X, Y)] with one inverse_mod(D, p) inside ->
    (text of `<fname>_den params := D` and `<fname>_xy params inv := (X, Y)`).
    Names assigned before the inverse_mod call may occur in D: the denominator function repeats
    those assignments."""
    if not stmts:
        raise TranslationError("%s: empty body" % what)
    x, y = _point_ctor_xy(stmts[-1], what)
    pre = list(stmts[:-1])
    for s in pre:
        if not (isinstance(s, ast.Assign) and len(s.targets) == 1 and isinstance(s.targets[0], ast.Name)):
            raise TranslationError("%s: only plain assignments are allowed before the return, found %s" % (
                what, ast.unparse(s)))
        if s.targets[0].id in ("inv",) + tuple(params):
            if not (s.targets[0].id in ("p", "a") and ast.unparse(s.value) == "self.__curve.%s()" % s.targets[0].id):
                raise TranslationError("%s: assignment to %s" % (what, s.targets[0].id))
    inv = _InvOut(what)
    idx = None
    new = []
    for k, s in enumerate(pre):
        s2 = inv.visit(ast.parse(ast.unparse(s)).body[0])
        if inv.den is not None and idx is None:
            idx = k
        new.append(s2)
    for e in (x, y):
        for sub in ast.walk(e):
            if isinstance(sub, ast.Call):
                raise TranslationError("%s: call in the constructor arguments" % what)
    if inv.den is None:
        raise TranslationError("%s: no inverse_mod call" % what)
    sig = " ".join("(%s : Z)" % v for v in params)
    tr = EcTr("Z", attr_map=dict(AFF_ATTRS))
    den_body = tr.block(new[:idx] + [ast.Return(inv.den)], set(params), None)
    tr2 = EcTr("Z", attr_map=dict(AFF_ATTRS))
    xy_body = tr2.block(new + [ast.Return(ast.Tuple([x, y], ast.Load()))], set(params) | {"inv"}, None)
    out = "Definition %s_den %s : Z :=\n  %s.\n\n" % (fname, sig, den_body)
    out += "Definition %s_xy %s (inv : Z) : Z * Z :=\n  %s.\n" % (fname, sig, xy_body)
    return out


def gen_ec_affine():
    tree = parse(EC_PY)
    out = HEADER % (EC_PY + " (class Point: the arithmetic of __add__, double, __neg__)")
    out += "Open Scope Z_scope.\n\n"
    # ---- __add__
    fn = find_func(tree, "__add__", "Point")
    if [a.arg for a in fn.args.args] != ["self", "other"] or fn.decorator_list:
        raise TranslationError("Point.__add__: signature")
    body = _strip_doc(fn.body)
    k = None
    for i, s in enumerate(body):
        if isinstance(s, ast.If) and isinstance(s.test, ast.Compare) and "__x" in ast.unparse(s.test):
            k = i
            break
    if k is None:
        raise TranslationError("Point.__add__: `if self.__x == other.__x:` not found")
    for s in body[:k]:
        # the guards before it (isinstance, INFINITY operands, same-curve assertion) are hand-modelled
        # (Model/EcAffine.v: ap_add) and tied by correspondence; they must not bind names
        if not isinstance(s, (ast.If, ast.Assert)) or any(isinstance(n, (ast.Assign, ast.AugAssign, ast.NamedExpr))
                                                         for n in ast.walk(s)):
            raise TranslationError("Point.__add__: unexpected statement before the x test: %s" % ast.unparse(s))
    sx = body[k]
    if sx.orelse or len(sx.body) != 1 or not isinstance(sx.body[0], ast.If):
        raise TranslationError("Point.__add__: shape of the equal-x branch")
    opp = sx.body[0]
    if len(opp.body) != 1 or len(opp.orelse) != 1 or ast.unparse(opp.body[0]) != "return INFINITY" or \
            ast.unparse(opp.orelse[0]) != "return self.double()":
        raise TranslationError("Point.__add__: expected `return INFINITY` / `return self.double()` in the equal-x branch")
    params = ["sx", "sy", "ox", "oy", "p"]
    sig = " ".join("(%s : Z)" % v for v in params)
    tr = EcTr("Z", attr_map=dict(AFF_ATTRS))
    out += "(* Point.__add__: `if %s:` *)\n" % ast.unparse(sx.test)
    out += "Definition ap_add_same_x %s : bool :=\n  %s.\n\n" % (sig, tr.cond(sx.test))
    out += "(* Point.__add__: `if %s: return INFINITY else: return self.double()` *)\n" % ast.unparse(opp.test)
    out += "Definition ap_add_opposite %s : bool :=\n  %s.\n\n" % (sig, tr.cond(opp.test))
    out += "(* Point.__add__, different x: the argument of inverse_mod(., p) and the chord formulas\n"
    out += "   (inv = the value inverse_mod returned); the result is Point(curve, x3, y3) *)\n"
    out += _straight_line(body[k + 1:], "Point.__add__", params, "ap_add") + "\n"
    # ---- double
    fn = find_func(tree, "double", "Point")
    if [a.arg for a in fn.args.args] != ["self"] or fn.decorator_list:
        raise TranslationError("Point.double: signature")
    body = _strip_doc(fn.body)
    if not body or ast.unparse(body[0]) != "if self == INFINITY:\n    return INFINITY":
        raise TranslationError("Point.double: expected `if self == INFINITY: return INFINITY` first")
    out += "(* Point.double (self not INFINITY): the argument of inverse_mod(., p) and the tangent formulas *)\n"
    out += _straight_line(body[1:], "Point.double", ["sx", "sy", "p", "a"], "ap_double") + "\n"
    # ---- __neg__
    fn = find_func(tree, "__neg__", "Point")
    if [a.arg for a in fn.args.args] != ["self"] or fn.decorator_list:
        raise TranslationError("Point.__neg__: signature")
    body = _strip_doc(fn.body)
    if len(body) != 1:
        raise TranslationError("Point.__neg__: expected a single return")
    x, y = _point_ctor_xy(body[0], "Point.__neg__")
    tr = EcTr("Z", attr_map=dict(AFF_ATTRS))
    out += "(* Point.__neg__: Point(curve, x, y) without order *)\n"
    out += "Definition ap_neg_xy (sx : Z) (sy : Z) (p : Z) : Z * Z :=\n  %s.\n" % tr.expr(ast.Tuple([x, y], ast.Load()))
    return "EcAffine.v", out


GENERATORS = [gen_ec_formulas, gen_curves, gen_ec_affine]
