"""Generator for coq/Gen/AesTables.v: the fourteen lookup tables of the bundled
pyaes block cipher (S, Si, T1..T4, T5..T8, U1..U4) plus `rcon` and
`number_of_rounds`, taken literally from the class body of
appnotes/register_crypto_plugin/pyaes/aes.py (class AES).

Fails closed: every table must be a list literal of exactly 256 plain integer
constants (rcon: a non-empty list literal of integer constants,
number_of_rounds: a dict literal int -> int); a table that is missing, defined
twice, computed, or re-assigned anywhere else in the module is a
TranslationError."""
import ast

from py2v import HEADER, TranslationError, cN, clist, find_class, parse

SRC = "appnotes/register_crypto_plugin/pyaes/aes.py"
TABLES = ["S", "Si", "T1", "T2", "T3", "T4", "T5", "T6", "T7", "T8", "U1", "U2", "U3", "U4"]
WIDTH = {"S": 8, "Si": 8}


def _int_list(node, name):
    if not isinstance(node, ast.List):
        raise TranslationError("AES.%s is not a list literal (%s)" % (name, type(node).__name__))
    out = []
    for e in node.elts:
        if not (isinstance(e, ast.Constant) and type(e.value) is int and e.value >= 0):
            raise TranslationError("AES.%s: entry is not a plain non-negative integer: %s"
                                   % (name, ast.unparse(e)[:40]))
        out.append(e.value)
    return out


def gen_aes_tables():
    tree = parse(SRC)
    cls = find_class(tree, "AES")
    found = {}
    wanted = set(TABLES + ["rcon", "number_of_rounds"])
    for n in cls.body:
        names = []
        if isinstance(n, ast.Assign):
            for t in n.targets:
                names += [x.id for x in ast.walk(t) if isinstance(x, ast.Name)]
            value = n.value
        elif isinstance(n, (ast.AugAssign, ast.AnnAssign)):
            names = [x.id for x in ast.walk(n.target) if isinstance(x, ast.Name)]
            value = n.value
        else:
            continue
        for nm in names:
            if nm in wanted:
                if nm in found or not isinstance(n, ast.Assign) or len(n.targets) != 1 \
                        or not isinstance(n.targets[0], ast.Name):
                    raise TranslationError("AES.%s: assigned more than once or in an unexpected form" % nm)
                found[nm] = value
    missing = wanted - set(found)
    if missing:
        raise TranslationError("class AES: missing %s" % ", ".join(sorted(missing)))
    # no other statement of the module may store into one of the tables
    # (e.g. AES.S[3] = 7, self.T1 = ..., setattr): look for stores through attributes/subscripts
    for node in ast.walk(tree):
        if isinstance(node, (ast.Assign, ast.AugAssign, ast.AnnAssign, ast.Delete)):
            tgts = node.targets if isinstance(node, (ast.Assign, ast.Delete)) else [node.target]
            for t in tgts:
                for x in ast.walk(t):
                    if isinstance(x, ast.Attribute) and x.attr in wanted:
                        raise TranslationError("store into attribute %s: %s" % (x.attr, ast.unparse(node)[:80]))
        if isinstance(node, ast.Call) and isinstance(node.func, ast.Name) and node.func.id in ("setattr", "delattr"):
            raise TranslationError("setattr/delattr in pyaes/aes.py: " + ast.unparse(node)[:80])
        if isinstance(node, ast.Call) and isinstance(node.func, ast.Attribute) and \
                node.func.attr in ("append", "extend", "insert", "pop", "remove", "reverse", "sort", "clear", "update",
                                   "__setitem__") and \
                isinstance(node.func.value, ast.Attribute) and node.func.value.attr in wanted:
            raise TranslationError("mutation of table %s: %s" % (node.func.value.attr, ast.unparse(node)[:80]))
    out = HEADER % (SRC + " (class AES: lookup tables)")
    out += "Open Scope N_scope.\n\n"
    for nm in TABLES:
        vals = _int_list(found[nm], nm)
        if len(vals) != 256:
            raise TranslationError("AES.%s has %d entries, expected 256" % (nm, len(vals)))
        bits = WIDTH.get(nm, 32)
        for v in vals:
            if v >> bits:
                raise TranslationError("AES.%s: entry %#x wider than %d bits" % (nm, v, bits))
        rows = []
        for i in range(0, 256, 8):
            rows.append("; ".join(("0x%0*x" % (bits // 4, v)) for v in vals[i:i + 8]))
        out += "Definition %s_tbl : list N :=\n  [ %s ].\n\n" % (nm, "\n  ; ".join(rows))
    rcon = _int_list(found["rcon"], "rcon")
    if not rcon or any(v >> 8 for v in rcon):
        raise TranslationError("AES.rcon: empty or entry wider than 8 bits")
    out += "Definition rcon_tbl : list N := %s.\n\n" % clist(["0x%02x" % v for v in rcon])
    nr = found["number_of_rounds"]
    if not isinstance(nr, ast.Dict):
        raise TranslationError("AES.number_of_rounds is not a dict literal")
    pairs = []
    for k, v in zip(nr.keys, nr.values):
        if not (isinstance(k, ast.Constant) and type(k.value) is int and isinstance(v, ast.Constant)
                and type(v.value) is int and k.value >= 0 and v.value >= 0):
            raise TranslationError("AES.number_of_rounds: non-integer entry")
        pairs.append((k.value, v.value))
    if len(set(k for k, _ in pairs)) != len(pairs):
        raise TranslationError("AES.number_of_rounds: duplicate key")
    out += "Definition number_of_rounds_tbl : list (N * N) := %s.\n" % clist(
        ["(%s, %s)" % (cN(k), cN(v)) for k, v in pairs])
    return "AesTables.v", out


GENERATORS = [gen_aes_tables]
