"""Generator for coq/Gen/ConfigIdConsts.v (property C12): DATA only.

Extracts from bec2format/configid.py, without retyping anything:
  * UNKNOWN                                   -> CFGID_UNKNOWN : N
  * the two string-literal patterns passed to re.match inside ConfigId.create_from_str,
    in source order                           -> CFGID_PATTERN_NUMERIC, CFGID_PATTERN_NAMEONLY
  * the set of template string constants of ConfigId.cfgid_str (the two format strings)
                                              -> CFGID_CFGIDSTR_STRINGS : list (list N), sorted
  * the set of string constants of ConfigId.__str__ (name-only format; only template strings, i.e. those with a replacement field, are tied)
                                              -> CFGID_STR_STRINGS : list (list N), sorted

Strings are lists of code points.  The hand-written matcher/printer of coq/Model/ConfigId.v
renders the pattern/format strings it implements from its own width constants;
C12_source_tie proves them equal to the strings generated here, so a changed pattern, width
or format in the source breaks a proof obligation of C12.

Nothing about CODE is constrained here: control flow, variable names, how the match groups
are read (group(i), groups(), named access) and statement order (beyond the order of the two
re.match calls) are tied by the hand model + correspondence + search, not by this generator.
Fails closed (TranslationError) only when the data cannot be extracted: UNKNOWN is not an
int constant, or create_from_str does not contain exactly two re.match calls with exactly two
positional arguments (pattern literal, subject; a third argument would be regex flags)."""
import ast

from py2v import HEADER, TranslationError, cN, cstr, const_eval, find_func, module_assign, parse

SRC = "bec2format/configid.py"


def _patterns(tree):
    fn = find_func(tree, "create_from_str", "ConfigId")
    calls = [n for n in ast.walk(fn) if isinstance(n, ast.Call) and isinstance(n.func, ast.Attribute)
             and n.func.attr == "match" and isinstance(n.func.value, ast.Name) and n.func.value.id == "re"]
    calls.sort(key=lambda c: (c.lineno, c.col_offset))
    if len(calls) != 2:
        raise TranslationError("create_from_str: expected exactly two re.match calls, found %d" % len(calls))
    pats = []
    for c in calls:
        if c.keywords or len(c.args) != 2:
            raise TranslationError("re.match call with a flags argument / keywords: " + ast.unparse(c))
        p = c.args[0]
        if not (isinstance(p, ast.Constant) and isinstance(p.value, str)):
            raise TranslationError("re.match pattern is not a string literal: " + ast.unparse(c))
        pats.append(p.value)
    return pats


def _string_constants(fn):
    """set of the template string constants (those containing a replacement field "{" or "%") of a function
    body, sorted; plain strings such as keyword names of a **dict call are not format data"""
    body = list(fn.body)
    if body and isinstance(body[0], ast.Expr) and isinstance(body[0].value, ast.Constant) \
            and isinstance(body[0].value.value, str):
        body = body[1:]
    out = set()
    for st in body:
        for n in ast.walk(st):
            if isinstance(n, ast.Constant) and isinstance(n.value, str) and ("{" in n.value or "%" in n.value):
                out.add(n.value)
    return sorted(out)


def gen_configid_consts():
    tree = parse(SRC)
    unknown = const_eval(module_assign(tree, "UNKNOWN"), {})
    if not isinstance(unknown, int) or isinstance(unknown, bool):
        raise TranslationError("UNKNOWN is not an int: %r" % (unknown,))
    p_num, p_name = _patterns(tree)
    s_cfgid = _string_constants(find_func(tree, "cfgid_str", "ConfigId"))
    s_str = _string_constants(find_func(tree, "__str__", "ConfigId"))

    def cm(x):      # the source text, made safe for a Coq comment
        return repr(x).replace("*", "<star>").replace('"', "<dq>")

    def strs(l):
        return "[" + ";\n   ".join(cstr(x) for x in l) + "]" if l else "(@nil (list N))"
    out = HEADER % (SRC + " (UNKNOWN, re.match patterns, format strings)")
    out += "Open Scope N_scope.\n\n"
    out += "Definition CFGID_UNKNOWN : N := %s.\n" % cN(unknown)
    out += "(* %s *)\nDefinition CFGID_PATTERN_NUMERIC : list N := %s.\n" % (cm(p_num), cstr(p_num))
    out += "(* %s *)\nDefinition CFGID_PATTERN_NAMEONLY : list N := %s.\n" % (cm(p_name), cstr(p_name))
    out += "(* string constants of cfgid_str, sorted: %s *)\n" % cm(s_cfgid)
    out += "Definition CFGID_CFGIDSTR_STRINGS : list (list N) :=\n  %s.\n" % strs(s_cfgid)
    out += "(* string constants of __str__, sorted: %s *)\n" % cm(s_str)
    out += "Definition CFGID_STR_STRINGS : list (list N) :=\n  %s.\n" % strs(s_str)
    return "ConfigIdConsts.v", out


GENERATORS = [gen_configid_consts]
