"""Generator for coq/Gen/ConfigIdConsts.v (property C12).

Extracts from bec2format/configid.py, without retyping anything:
  * UNKNOWN                                   -> CFGID_UNKNOWN : N
  * the two patterns given to re.match in ConfigId.create_from_str, in source order
                                              -> CFGID_PATTERN_NUMERIC, CFGID_PATTERN_NAMEONLY : list N
  * the two format strings of ConfigId.cfgid_str (device-settings branch / general branch)
                                              -> CFGID_FMT_DEVSETTINGS, CFGID_FMT_FULL : list N
  * the format string of the name-only branch of ConfigId.__str__
                                              -> CFGID_FMT_NAMEONLY : list N
  * the separator put between the id and the name in __str__ -> CFGID_NAME_SEP : list N

Strings are emitted as lists of code points.  The hand-written matcher/printer in
coq/Model/ConfigId.v renders the pattern/format strings it implements from its own
width constants; Proofs/ConfigIdProofs.v proves (by reflexivity) that they are equal
to the strings generated here, so a changed pattern, width or format in the source
breaks a proof obligation of C12.

Fails closed (TranslationError) when the source does not have the expected shape:
number and form of the re.match calls (two positional arguments, constant pattern, the
parameter as subject, no flags), use of the match groups, the shape of cfgid_str and
__str__."""
import ast

from py2v import (HEADER, TranslationError, cN, cstr, const_eval, find_class, find_func,
                  module_assign, parse)

SRC = "bec2format/configid.py"


def _calls(node, pred):
    return [n for n in ast.walk(node) if isinstance(n, ast.Call) and pred(n)]


def _is_re_match(c):
    f = c.func
    return isinstance(f, ast.Attribute) and f.attr == "match" and isinstance(f.value, ast.Name) \
        and f.value.id == "re"


def _patterns(tree):
    fn = find_func(tree, "create_from_str", "ConfigId")
    params = [a.arg for a in fn.args.args]
    if len(params) != 2:
        raise TranslationError("create_from_str: unexpected parameters %r" % (params,))
    subject = params[1]
    # any other use of the re module (search, fullmatch, compile, flags) is outside the model
    for n in ast.walk(fn):
        if isinstance(n, ast.Attribute) and isinstance(n.value, ast.Name) and n.value.id == "re" \
                and n.attr != "match":
            raise TranslationError("create_from_str uses re.%s (only re.match is modelled)" % n.attr)
    calls = _calls(fn, _is_re_match)
    calls.sort(key=lambda c: (c.lineno, c.col_offset))
    if len(calls) != 2:
        raise TranslationError("create_from_str: expected exactly two re.match calls, found %d" % len(calls))
    pats = []
    for c in calls:
        if c.keywords or len(c.args) != 2:
            raise TranslationError("re.match call with flags/keywords: " + ast.unparse(c))
        p, s = c.args
        if not (isinstance(p, ast.Constant) and isinstance(p.value, str)):
            raise TranslationError("re.match pattern is not a string constant: " + ast.unparse(c))
        if not (isinstance(s, ast.Name) and s.id == subject):
            raise TranslationError("re.match subject is not the parameter: " + ast.unparse(c))
        pats.append(p.value)
    # control shape: first match decides; only if it fails is the second pattern tried
    body = [s for s in fn.body if not (isinstance(s, ast.Expr) and isinstance(s.value, ast.Constant))]
    if len(body) != 2 or not isinstance(body[0], ast.Assign) or not isinstance(body[1], ast.If):
        raise TranslationError("create_from_str: unexpected statement structure")
    if body[0].value is not calls[0] or ast.unparse(body[1].test) != ast.unparse(body[0].targets[0]):
        raise TranslationError("create_from_str: first statement is not `m = re.match(...)` / `if m:`")
    top_if = body[1]
    if len(top_if.body) != 1 or not isinstance(top_if.body[0], ast.Return):
        raise TranslationError("create_from_str: numeric branch is not a single return")
    els = top_if.orelse
    if len(els) != 2 or not isinstance(els[0], ast.Assign) or els[0].value is not calls[1] \
            or not isinstance(els[1], ast.If) or ast.unparse(els[1].test) != ast.unparse(els[0].targets[0]):
        raise TranslationError("create_from_str: name-only branch has an unexpected structure")
    if len(els[1].body) != 1 or not isinstance(els[1].body[0], ast.Return) \
            or len(els[1].orelse) != 1 or not isinstance(els[1].orelse[0], ast.Raise):
        raise TranslationError("create_from_str: name-only branch is not return / raise")
    # group usage: which group feeds which field (emitted, so that the model's choice is checked)
    def groups(ret):
        call = ret.value
        if not isinstance(call, ast.Call) or call.args:
            raise TranslationError("create_from_str: return is not cls(keyword=...)")
        out = {}
        for kw in call.keywords:
            v = kw.value
            conv = "raw"
            if isinstance(v, ast.Constant) and v.value is None:
                out[kw.arg] = ("none", 0)
                continue
            if isinstance(v, ast.Call) and isinstance(v.func, ast.Name) and v.func.id in ("int", "str") \
                    and len(v.args) == 1 and not v.keywords:
                conv = "int" if v.func.id == "int" else "raw"   # str(group) of a str is the group
                v = v.args[0]
            if isinstance(v, ast.Call) and isinstance(v.func, ast.Attribute) and v.func.attr == "group" \
                    and len(v.args) == 1 and isinstance(v.args[0], ast.Constant) \
                    and isinstance(v.args[0].value, int):
                out[kw.arg] = (conv, v.args[0].value)
            else:
                raise TranslationError("create_from_str: field %s is not built from a match group: %s"
                                       % (kw.arg, ast.unparse(kw.value)))
        return out
    return pats, groups(top_if.body[0]), groups(els[1].body[0])


def _formats(tree):
    cls = find_class(tree, "ConfigId")
    fn = find_func(tree, "cfgid_str", "ConfigId")
    ifs = [n for n in ast.walk(fn) if isinstance(n, ast.If)
           and ast.unparse(n.test) == "self.is_device_settings"]
    if len(ifs) != 1:
        raise TranslationError("cfgid_str: expected one `if self.is_device_settings`")

    def only_fmt(stmts):
        if len(stmts) != 1 or not isinstance(stmts[0], ast.Assign) or len(stmts[0].targets) != 1 \
                or not isinstance(stmts[0].targets[0], ast.Name) \
                or not isinstance(stmts[0].value, ast.Constant) or not isinstance(stmts[0].value.value, str):
            raise TranslationError("cfgid_str: branch is not `fmtstr = <string constant>`")
        return stmts[0].targets[0].id, stmts[0].value.value
    n1, dev = only_fmt(ifs[0].body)
    n2, full = only_fmt(ifs[0].orelse)
    if n1 != n2:
        raise TranslationError("cfgid_str: branches assign different variables")
    fcalls = _calls(fn, lambda c: isinstance(c.func, ast.Attribute) and c.func.attr == "format")
    if len(fcalls) != 1 or not isinstance(fcalls[0].func.value, ast.Name) or fcalls[0].func.value.id != n1 \
            or fcalls[0].args:
        raise TranslationError("cfgid_str: expected exactly one `%s.format(keywords...)`" % n1)
    strs = [n.value for n in ast.walk(fn) if isinstance(n, ast.Constant) and isinstance(n.value, str)]
    if sorted(strs) != sorted([dev, full]):
        raise TranslationError("cfgid_str: unexpected additional string constants %r" % (strs,))
    # __str__: name-only format and the separator before the name
    sfn = find_func(tree, "__str__", "ConfigId")
    fcalls = _calls(sfn, lambda c: isinstance(c.func, ast.Attribute) and c.func.attr == "format")
    if len(fcalls) != 1 or not isinstance(fcalls[0].func.value, ast.Constant) \
            or not isinstance(fcalls[0].func.value.value, str) or fcalls[0].args:
        raise TranslationError("__str__: expected exactly one `<string constant>.format(keywords...)`")
    nameonly = fcalls[0].func.value.value
    others = [n.value for n in ast.walk(sfn) if isinstance(n, ast.Constant) and isinstance(n.value, str)
              and n is not fcalls[0].func.value]
    # remaining constants: the separator `" "` and the empty alternative `""`
    seps = [s for s in others if s != ""]
    if len(seps) != 1 or others.count("") != 1:
        raise TranslationError("__str__: unexpected string constants %r" % (others,))
    del cls
    return dev, full, nameonly, seps[0]


def gen_configid_consts():
    tree = parse(SRC)
    unknown = const_eval(module_assign(tree, "UNKNOWN"), {})
    if not isinstance(unknown, int) or isinstance(unknown, bool):
        raise TranslationError("UNKNOWN is not an int: %r" % (unknown,))
    (p_num, p_name), g_num, g_name = _patterns(tree)
    dev, full, nameonly, sep = _formats(tree)
    def cm(x):      # the source text, made safe for a Coq comment
        return repr(x).replace("*", "<star>").replace('"', "<dq>")
    out = HEADER % (SRC + " (UNKNOWN, re.match patterns, format strings)")
    out += "Open Scope N_scope.\n\n"
    out += "Definition CFGID_UNKNOWN : N := %s.\n" % cN(unknown)
    out += "(* %s *)\nDefinition CFGID_PATTERN_NUMERIC : list N := %s.\n" % (cm(p_num), cstr(p_num))
    out += "(* %s *)\nDefinition CFGID_PATTERN_NAMEONLY : list N := %s.\n" % (cm(p_name), cstr(p_name))
    out += "(* %s *)\nDefinition CFGID_FMT_DEVSETTINGS : list N := %s.\n" % (cm(dev), cstr(dev))
    out += "(* %s *)\nDefinition CFGID_FMT_FULL : list N := %s.\n" % (cm(full), cstr(full))
    out += "(* %s *)\nDefinition CFGID_FMT_NAMEONLY : list N := %s.\n" % (cm(nameonly), cstr(nameonly))
    out += "(* %s *)\nDefinition CFGID_NAME_SEP : list N := %s.\n" % (cm(sep), cstr(sep))

    # which match group feeds which constructor argument, in the order customer, project,
    # device, version, name; 0 = the argument is the constant None.  Conversions are fixed:
    # numbers through int(), the name as the group itself.
    order = ("customer", "project", "device", "version", "name")

    def grp(g, what):
        if sorted(g) != sorted(order):
            raise TranslationError("create_from_str: constructor keywords %r" % (sorted(g),))
        for f in order:
            conv = g[f][0]
            if conv != "none" and conv != ("raw" if f == "name" else "int"):
                raise TranslationError("create_from_str (%s): field %s converted with %s" % (what, f, conv))
        return "[" + "; ".join(cN(g[f][1]) for f in order) + "]"
    out += "(* match group feeding customer, project, device, version, name (0 = None) *)\n"
    out += "Definition CFGID_GROUPS_NUMERIC : list N := %s.\n" % grp(g_num, "numeric")
    out += "Definition CFGID_GROUPS_NAMEONLY : list N := %s.\n" % grp(g_name, "name-only")
    return "ConfigIdConsts.v", out


GENERATORS = [gen_configid_consts]
