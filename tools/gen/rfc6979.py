"""Translator generators for C18 (ECDSA signatures, RFC 6979).

  gen_rfc6979    -> coq/Gen/Rfc6979.v    from ecdsa/rfc6979.py:
       bits2int (complete), bits2octets (complete; the two callees bit_length and
       number_to_string_crop are parameters), and the integer fragments of generate_k
       (rolen expression, candidate acceptance test, retry test).
  gen_ecdsa_frag -> coq/Gen/EcdsaFrag.v  from ecdsa/ecdsa.py:
       the integer fragments of Public_key.verifies (the two range tests, u1, u2, the final
       comparison) and of Private_key.sign (k, ks, kt, the blinding selection test, r, s and
       the two zero tests).

Everything is located by *shape* in the AST and translated with py2v.FuncTr; any
deviation from the expected shape raises TranslationError (fail closed)."""
import ast
import copy

from py2v import parse, find_func, FuncTr, HEADER, TranslationError

RFC = "appnotes/register_crypto_plugin/ecdsa/rfc6979.py"
ECDSA = "appnotes/register_crypto_plugin/ecdsa/ecdsa.py"


def _imports_name(tree, module, name):
    for n in tree.body:
        if isinstance(n, ast.ImportFrom) and n.module == module and n.level in (0, 1):
            for a in n.names:
                if a.name == name and a.asname in (None, name):
                    return True
    return False


def _strip_doc(body):
    body = list(body)
    if body and isinstance(body[0], ast.Expr) and isinstance(body[0].value, ast.Constant) \
            and isinstance(body[0].value.value, str):
        body = body[1:]
    return body


class _Subst(ast.NodeTransformer):
    """replace sub-expressions (matched by their unparse text) by names"""

    def __init__(self, table):
        self.table = table
        self.hits = {k: 0 for k in table}

    def visit(self, node):
        if isinstance(node, ast.expr):
            key = ast.unparse(node)
            if key in self.table:
                self.hits[key] += 1
                return ast.Name(self.table[key], ast.Load())
        return super().visit(node)


def _subst(node, table):
    s = _Subst(table)
    out = s.visit(copy.deepcopy(node))
    return ast.fix_missing_locations(out), s.hits


def _names(node):
    return set(n.id for n in ast.walk(node) if isinstance(n, ast.Name))


def _check_free(node, allowed, what):
    extra = _names(node) - set(allowed)
    if extra:
        raise TranslationError("%s: unexpected free names %s in %s" % (what, sorted(extra), ast.unparse(node)))


def _defn(name, params, ty, body, comment):
    return "(* %s *)\nDefinition %s %s : %s :=\n  %s.\n" % (
        comment.replace("(*", "( *").replace("*)", "* )"), name,
        " ".join("(%s : Z)" % p for p in params), ty, body)


# ---------------------------------------------------------------------------

def gen_rfc6979():
    tree = parse(RFC)
    if not _imports_name(tree, "binascii", "hexlify"):
        raise TranslationError("rfc6979.py: hexlify is not binascii.hexlify")
    if not _imports_name(tree, "util", "bit_length") or not _imports_name(tree, "util", "number_to_string_crop") \
            or not _imports_name(tree, "util", "number_to_string"):
        raise TranslationError("rfc6979.py: bit_length / number_to_string(_crop) not imported from .util")
    out = HEADER % "ecdsa/rfc6979.py (bits2int, bits2octets, integer fragments of generate_k)"
    out += "Open Scope Z_scope.\n\n"

    # ---- bits2int(data, qlen)
    fn = find_func(tree, "bits2int")
    if [a.arg for a in fn.args.args] != ["data", "qlen"] or fn.args.defaults:
        raise TranslationError("bits2int: signature changed")
    body = _strip_doc(fn.body)
    # first statement must evaluate int(hexlify(data), 16) unconditionally
    if not body or ast.unparse(body[0]) != "x = int(hexlify(data), 16)":
        raise TranslationError("bits2int: first statement is not x = int(hexlify(data), 16): " +
                               (ast.unparse(body[0]) if body else "empty"))
    fn2, hits = _subst(fn, {"int(hexlify(data), 16)": "data_int", "len(data)": "data_len"})
    if hits["int(hexlify(data), 16)"] != 1:
        raise TranslationError("bits2int: int(hexlify(data), 16) expected exactly once")
    fn2.body = _strip_doc(fn2.body)
    for st in fn2.body:
        if "data" in _names(st):
            raise TranslationError("bits2int: data used other than through int(hexlify(data),16) / len(data)")
    fn2.args.args = [ast.arg("data_int"), ast.arg("data_len"), ast.arg("qlen")]
    tr = FuncTr("Z")
    text, _ = tr.function(fn2, "bits2int_core", drop=())
    out += "(* bits2int with  data_int = int(hexlify(data), 16)  and  data_len = len(data) *)\n"
    out += text + "\n\n"
    out += ("(* int(hexlify(b\"\"), 16) raises ValueError *)\n"
            "Definition bits2int (data : bytes) (qlen : Z) : result Z :=\n"
            "  match data with\n"
            "  | [] => Err EValue\n"
            "  | _ => Ok (bits2int_core (Z.of_N (from_be data)) (Z.of_N (blen data)) qlen)\n"
            "  end.\n\n")

    # ---- bits2octets(data, order)
    fn = find_func(tree, "bits2octets")
    if [a.arg for a in fn.args.args] != ["data", "order"] or fn.args.defaults:
        raise TranslationError("bits2octets: signature changed")
    body = _strip_doc(fn.body)
    if len(body) < 2 or ast.unparse(body[0]) != "z1 = bits2int(data, bit_length(order))":
        raise TranslationError("bits2octets: first statement changed")
    last = body[-1]
    if not (isinstance(last, ast.Return) and isinstance(last.value, ast.Call)
            and ast.unparse(last.value.func) == "number_to_string_crop" and len(last.value.args) == 2
            and not last.value.keywords and ast.unparse(last.value.args[1]) == "order"):
        raise TranslationError("bits2octets: return statement changed: " + ast.unparse(last))
    mid = body[1:-1]
    tr = FuncTr("Z")
    tail = tr.expr(last.value.args[0])
    _check_free(last.value.args[0], ["z1", "z2", "order"], "bits2octets")

    def block(stmts):
        if not stmts:
            return tail
        s, rest = stmts[0], stmts[1:]
        _check_free(s, ["z1", "z2", "order"], "bits2octets")
        if isinstance(s, ast.Assign) and len(s.targets) == 1 and isinstance(s.targets[0], ast.Name):
            return "let %s := %s in\n  %s" % (s.targets[0].id, tr.expr(s.value), block(rest))
        if isinstance(s, ast.If) and not s.orelse and len(s.body) == 1 and isinstance(s.body[0], ast.Assign) \
                and len(s.body[0].targets) == 1 and isinstance(s.body[0].targets[0], ast.Name):
            v = s.body[0].targets[0].id
            return "let %s := if %s then %s else %s in\n  %s" % (
                v, tr.cond(s.test), tr.expr(s.body[0].value), v, block(rest))
        raise TranslationError("bits2octets: statement " + ast.unparse(s))
    # z2 must be assigned before it is read
    if not mid or not (isinstance(mid[0], ast.Assign) and ast.unparse(mid[0].targets[0]) == "z2"
                       and "z2" not in _names(mid[0].value)):
        raise TranslationError("bits2octets: z2 not initialised by the second statement")
    out += "(* the statements between the first and the last one of bits2octets *)\n"
    out += "Definition bits2octets_mid (z1 order : Z) : Z :=\n  %s.\n\n" % block(mid)
    out += ("(* z1 = bits2int(data, bit_length(order)); ...; return number_to_string_crop(<mid>, order) *)\n"
            "Definition bits2octets (bit_length : Z -> Z) (number_to_string_crop : Z -> Z -> result bytes)\n"
            "    (data : bytes) (order : Z) : result bytes :=\n"
            "  let* z1 := bits2int data (bit_length order) in\n"
            "  number_to_string_crop (bits2octets_mid z1 order) order.\n\n")

    # ---- fragments of generate_k
    fn = find_func(tree, "generate_k")
    want = ["order", "secexp", "hash_func", "data", "retry_gen", "extra_entropy"]
    if [a.arg for a in fn.args.args] != want or [ast.unparse(d) for d in fn.args.defaults] != ["0", "b''"]:
        raise TranslationError("generate_k: signature changed")
    body = _strip_doc(fn.body)
    tr = FuncTr("Z")
    assigns = {}
    for st in body:
        if isinstance(st, ast.Assign) and len(st.targets) == 1 and isinstance(st.targets[0], ast.Name):
            assigns.setdefault(st.targets[0].id, []).append(st.value)
    for nm, wanted in (("qlen", "bit_length(order)"), ("holen", "hash_func().digest_size")):
        if [ast.unparse(v) for v in assigns.get(nm, [])] != [wanted]:
            raise TranslationError("generate_k: %s = %s expected" % (nm, wanted))
    if len(assigns.get("rolen", [])) != 1:
        raise TranslationError("generate_k: rolen assignment")
    _check_free(assigns["rolen"][0], ["qlen"], "generate_k rolen")
    out += _defn("generate_k_rolen", ["qlen"], "Z", tr.expr(assigns["rolen"][0]),
                 "rolen = " + ast.unparse(assigns["rolen"][0]))
    loops = [st for st in body if isinstance(st, ast.While)]
    if len(loops) != 1 or ast.unparse(loops[0].test) != "True" or loops[0].orelse:
        raise TranslationError("generate_k: expected exactly one `while True` loop")
    lb = loops[0].body
    inner = [st for st in lb if isinstance(st, ast.While)]
    if len(inner) != 1 or ast.unparse(inner[0].test) != "len(t) < rolen":
        raise TranslationError("generate_k: inner loop test changed: " +
                               (ast.unparse(inner[0].test) if inner else "missing"))
    secret = [st for st in lb if isinstance(st, ast.Assign) and ast.unparse(st.targets[0]) == "secret"]
    if len(secret) != 1 or ast.unparse(secret[0].value) != "bits2int(t, qlen)":
        raise TranslationError("generate_k: secret = bits2int(t, qlen) expected")
    ifs = [st for st in lb if isinstance(st, ast.If)]
    if len(ifs) != 1 or ifs[0].orelse:
        raise TranslationError("generate_k: expected one acceptance test in the loop")
    acc = ifs[0]
    _check_free(acc.test, ["secret", "order"], "generate_k acceptance test")
    out += _defn("generate_k_accept", ["secret", "order"], "bool", tr.cond(acc.test),
                 "if " + ast.unparse(acc.test))
    # body of the acceptance: if <retry test>: return secret ; retry_gen -= 1
    if len(acc.body) != 2 or not isinstance(acc.body[0], ast.If) or acc.body[0].orelse \
            or [ast.unparse(s) for s in acc.body[0].body] != ["return secret"] \
            or ast.unparse(acc.body[1]) != "retry_gen -= 1":
        raise TranslationError("generate_k: acceptance body changed")
    _check_free(acc.body[0].test, ["retry_gen"], "generate_k retry test")
    out += _defn("generate_k_retry_done", ["retry_gen"], "bool", tr.cond(acc.body[0].test),
                 "if " + ast.unparse(acc.body[0].test) + ": return secret")
    return "Rfc6979.v", out


# ---------------------------------------------------------------------------

def _assign_value(body, name, what):
    vals = [st.value for st in body if isinstance(st, ast.Assign) and len(st.targets) == 1
            and isinstance(st.targets[0], ast.Name) and st.targets[0].id == name]
    if len(vals) != 1:
        raise TranslationError("%s: expected exactly one assignment to %s" % (what, name))
    return vals[0]


def gen_ecdsa_frag():
    tree = parse(ECDSA)
    if not _imports_name(tree, "util", "bit_length"):
        raise TranslationError("ecdsa.py: bit_length not imported from .util")
    out = HEADER % "ecdsa/ecdsa.py (integer fragments of Public_key.verifies and Private_key.sign)"
    out += "Open Scope Z_scope.\n\n"

    # ---- Public_key.verifies(self, hash, signature)
    fn = find_func(tree, "verifies", "Public_key")
    if [a.arg for a in fn.args.args] != ["self", "hash", "signature"]:
        raise TranslationError("verifies: signature changed")
    body = _strip_doc(fn.body)
    for nm, wanted in (("G", "self.generator"), ("n", "G.order()"), ("r", "signature.r"), ("s", "signature.s"),
                       ("c", "numbertheory.inverse_mod(s, n)")):
        if ast.unparse(_assign_value(body, nm, "verifies")) != wanted:
            raise TranslationError("verifies: %s = %s expected" % (nm, wanted))
    # statement order: the two range tests come before anything else that uses r, s
    idx = {}
    for i, st in enumerate(body):
        if isinstance(st, ast.Assign) and isinstance(st.targets[0], ast.Name):
            idx[st.targets[0].id] = i
    all_rejects = [(i, st) for i, st in enumerate(body) if isinstance(st, ast.If) and not st.orelse
                   and [ast.unparse(x) for x in st.body] == ["return False"]]
    # the test for the point at infinity (after the point computation) is handled below
    inf_tests = [(i, st) for (i, st) in all_rejects if ast.unparse(st.test) == "xy == ellipticcurve.INFINITY"]
    rejects = [x for x in all_rejects if x not in inf_tests]
    if len(rejects) != 2:
        raise TranslationError("verifies: expected exactly two `if ...: return False` range tests, found %d" % len(rejects))
    tr = FuncTr("Z")
    for (i, st), nm, var in zip(rejects, ("verifies_reject_r", "verifies_reject_s"), ("r", "s")):
        if not (max(idx["r"], idx["s"], idx["n"]) < i < idx["c"]):
            raise TranslationError("verifies: range test is not between the loads of r, s, n and the inversion")
        _check_free(st.test, [var, "n"], "verifies range test")
        out += _defn(nm, [var, "n"], "bool", tr.cond(st.test), "if %s: return False" % ast.unparse(st.test))
    u1 = _assign_value(body, "u1", "verifies")
    u2 = _assign_value(body, "u2", "verifies")
    _check_free(u1, ["hash", "c", "n"], "verifies u1")
    _check_free(u2, ["r", "c", "n"], "verifies u2")
    out += _defn("verifies_u1", ["hash", "c", "n"], "Z", tr.expr(u1), "u1 = " + ast.unparse(u1))
    out += _defn("verifies_u2", ["r", "c", "n"], "Z", tr.expr(u2), "u2 = " + ast.unparse(u2))
    # the point computation: mul_add(u1, point, u2) or u1 * G + u2 * point
    pts = [st for st in body if isinstance(st, ast.If) and ast.unparse(st.test) == "hasattr(G, 'mul_add')"]
    if len(pts) != 1 or [ast.unparse(x) for x in pts[0].body] != ["xy = G.mul_add(u1, self.point, u2)"] \
            or [ast.unparse(x) for x in pts[0].orelse] != ["xy = u1 * G + u2 * self.point"]:
        raise TranslationError("verifies: point computation changed")
    # u1*G + u2*Q = INFINITY (whose x() is None): `if xy == ellipticcurve.INFINITY: return False`
    if len(inf_tests) != 1:
        raise TranslationError("verifies: expected exactly one `if xy == ellipticcurve.INFINITY: return False` "
                               "between the point computation and xy.x(), found %d" % len(inf_tests))
    if not any(isinstance(nd, ast.Import) and any(a.name == "ellipticcurve" for a in nd.names) or
               isinstance(nd, ast.ImportFrom) and nd.level == 1 and nd.module is None and
               any(a.name == "ellipticcurve" and a.asname is None for a in nd.names) for nd in tree.body):
        raise TranslationError("ecdsa.py: ellipticcurve is not the sibling module")
    inf_ret = inf_tests[0][1].body[0].value
    if not (isinstance(inf_ret, ast.Constant) and isinstance(inf_ret.value, bool)):
        raise TranslationError("verifies: the infinity test does not return a boolean constant")
    out += ("(* if xy == ellipticcurve.INFINITY: return %s *)\n"
            "Definition verifies_infinity_result : bool := %s.\n" % (inf_ret.value, "true" if inf_ret.value else "false"))
    v = _assign_value(body, "v", "verifies")
    v2, hits = _subst(v, {"xy.x()": "x"})
    if hits["xy.x()"] != 1:
        raise TranslationError("verifies: v is not computed from xy.x()")
    _check_free(v2, ["x", "n"], "verifies v")
    out += _defn("verifies_v", ["x", "n"], "Z", tr.expr(v2), "v = " + ast.unparse(v))
    last = body[-1]
    if not isinstance(last, ast.Return) or not isinstance(last.value, ast.Compare):
        raise TranslationError("verifies: final return changed")
    _check_free(last.value, ["v", "r"], "verifies result")
    out += _defn("verifies_result", ["v", "r"], "bool", tr.cond(last.value), ast.unparse(last))
    order = [idx["c"], idx["u1"], idx["u2"], body.index(pts[0]), inf_tests[0][0], idx["v"], len(body) - 1]
    if order != sorted(order) or len(set(order)) != len(order):
        raise TranslationError("verifies: statement order changed")

    # ---- Private_key.sign(self, hash, random_k)
    fn = find_func(tree, "sign", "Private_key")
    if [a.arg for a in fn.args.args] != ["self", "hash", "random_k"]:
        raise TranslationError("sign: signature changed")
    body = _strip_doc(fn.body)
    for nm, wanted in (("G", "self.public_key.generator"), ("n", "G.order()")):
        if ast.unparse(_assign_value(body, nm, "sign")) != wanted:
            raise TranslationError("sign: %s = %s expected" % (nm, wanted))
    tr = FuncTr("Z", call_map={"bit_length": "bit_length"})
    k = _assign_value(body, "k", "sign")
    ks = _assign_value(body, "ks", "sign")
    kt = _assign_value(body, "kt", "sign")
    _check_free(k, ["random_k", "n"], "sign k")
    _check_free(ks, ["k", "n"], "sign ks")
    _check_free(kt, ["ks", "n"], "sign kt")
    out += _defn("sign_k", ["random_k", "n"], "Z", tr.expr(k), "k = " + ast.unparse(k))
    out += _defn("sign_ks", ["k", "n"], "Z", tr.expr(ks), "ks = " + ast.unparse(ks))
    out += _defn("sign_kt", ["ks", "n"], "Z", tr.expr(kt), "kt = " + ast.unparse(kt))
    sel = [st for st in body if isinstance(st, ast.If) and st.orelse
           and [ast.unparse(x) for x in st.body] == ["p1 = kt * G"]
           and [ast.unparse(x) for x in st.orelse] == ["p1 = ks * G"]]
    if len(sel) != 1:
        raise TranslationError("sign: blinding selection `if ...: p1 = kt * G else: p1 = ks * G` not found")
    _check_free(sel[0].test, ["ks", "n", "bit_length"], "sign blinding test")
    out += ("(* if %s: p1 = kt * G else: p1 = ks * G *)\n"
            "Definition sign_use_kt (bit_length : Z -> Z) (ks n : Z) : bool :=\n  %s.\n" % (
                ast.unparse(sel[0].test), tr.cond(sel[0].test)))
    r = _assign_value(body, "r", "sign")
    r2, hits = _subst(r, {"p1.x()": "x"})
    if hits["p1.x()"] != 1:
        raise TranslationError("sign: r is not computed from p1.x()")
    _check_free(r2, ["x", "n"], "sign r")
    out += _defn("sign_r", ["x", "n"], "Z", tr.expr(r2), "r = " + ast.unparse(r))
    s = _assign_value(body, "s", "sign")
    s2, hits = _subst(s, {"numbertheory.inverse_mod(k, n)": "inv_k", "self.secret_multiplier": "d"})
    if hits["numbertheory.inverse_mod(k, n)"] != 1 or hits["self.secret_multiplier"] != 1:
        raise TranslationError("sign: s expression changed: " + ast.unparse(s))
    _check_free(s2, ["inv_k", "hash", "d", "r", "n"], "sign s")
    out += _defn("sign_s", ["inv_k", "hash", "d", "r", "n"], "Z", tr.expr(s2), "s = " + ast.unparse(s))
    zero = [st for st in body if isinstance(st, ast.If) and not st.orelse and len(st.body) == 1
            and isinstance(st.body[0], ast.Raise) and ast.unparse(st.body[0].exc).startswith("RSZeroError(")]
    if len(zero) != 2:
        raise TranslationError("sign: expected two RSZeroError tests")
    for st, var, nm in zip(zero, ("r", "s"), ("sign_r_zero", "sign_s_zero")):
        _check_free(st.test, [var], "sign zero test")
        out += _defn(nm, [var], "bool", tr.cond(st.test), "if %s: raise RSZeroError" % ast.unparse(st.test))
    order = [body.index(st) for st in body if isinstance(st, ast.Assign) and ast.unparse(st.targets[0]) in ("k", "ks", "kt")]
    order += [body.index(sel[0])]
    order += [i for i, st in enumerate(body) if isinstance(st, ast.Assign) and ast.unparse(st.targets[0]) == "r"]
    order += [body.index(zero[0])]
    order += [i for i, st in enumerate(body) if isinstance(st, ast.Assign) and ast.unparse(st.targets[0]) == "s"]
    order += [body.index(zero[1])]
    if order != sorted(order) or len(set(order)) != len(order) or len(order) != 8:
        raise TranslationError("sign: statement order changed")
    last = body[-1]
    if ast.unparse(last) != "return Signature(r, s)":
        raise TranslationError("sign: return changed")
    return "EcdsaFrag.v", out


GENERATORS = [gen_rfc6979, gen_ecdsa_frag]
