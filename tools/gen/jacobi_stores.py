"""C20 (part 2): store-site / read-site pass over class PointJacobi
(ecdsa/ellipticcurve.py) -> coq/Gen/JacobiStores.v.

For every method the pass lists, in source order, every place where the object
can be mutated:

  ("store", attr, rhs, final)     self.attr = rhs        final = last statement of the method
                                                         (or followed only by `return self`)
  ("augstore", attr, op, _)       self.attr op= ...
  ("mutate", attr, how, _)        self.attr.append(..) / self.attr[i] = .. / del self.attr ...
  ("dict", what, "", _)           self.__dict__ ... / setattr(self, ..)
  ("alias-mutate", attr, how, _)  a local bound to self.attr is mutated (x = self.a; x.append(..) / x += ..)
  ("rebind-self", rhs, "", _)     self = <rhs>
  ("call", receiver, method, _)   a call of a PointJacobi method that itself has store sites

and every read of the two fields that are updated after construction
(`__coords`, `__precompute`) with the statement (or test) it occurs in.  For a
store whose right-hand side is a local name, the assignments that bind that name
in the method are appended ("precompute <- []").

Fails closed on class-level statements other than methods."""
import ast

from py2v import parse, find_class, TranslationError

SRC = "appnotes/register_crypto_plugin/ecdsa/ellipticcurve.py"
CLASS = "PointJacobi"
FIELDS = ("__coords", "__precompute")
MUTATORS = {"append", "extend", "insert", "pop", "remove", "clear", "sort", "reverse", "update",
            "setdefault", "add", "discard", "popitem", "__setitem__", "__delitem__", "__iadd__",
            "__setattr__", "__delattr__"}


DICT_READERS = {"copy", "get", "items", "keys", "values", "__contains__"}


def _root_self_attr(node, selfname="self"):
    """self.a / self.a.b / self.a[i] ... -> 'a' ; else None"""
    while isinstance(node, (ast.Attribute, ast.Subscript)):
        if isinstance(node, ast.Attribute) and isinstance(node.value, ast.Name) and node.value.id == selfname:
            return node.attr
        node = node.value
    return None


def _is_docstring(s):
    return isinstance(s, ast.Expr) and isinstance(s.value, ast.Constant) and isinstance(s.value.value, str)


def _methods(cls):
    out = []
    for n in cls.body:
        if _is_docstring(n):
            continue
        if isinstance(n, ast.FunctionDef):
            decos = [ast.unparse(d) for d in n.decorator_list]
            if any(d not in ("classmethod", "staticmethod") for d in decos):
                raise TranslationError("%s.%s: decorator %s" % (cls.name, n.name, decos))
            out.append((n, decos))
        elif isinstance(n, ast.Pass):
            continue
        else:
            raise TranslationError("%s: class-level statement %s" % (cls.name, ast.unparse(n)[:60]))
    return out


def _stmt_text(s):
    if isinstance(s, ast.If):
        return "if " + ast.unparse(s.test)
    if isinstance(s, ast.While):
        return "while " + ast.unparse(s.test)
    if isinstance(s, ast.For):
        return "for %s in %s" % (ast.unparse(s.target), ast.unparse(s.iter))
    if isinstance(s, ast.Assert):
        return "assert " + ast.unparse(s.test)
    return ast.unparse(s)


def _walk_stmts(body):
    """all statements, depth first, in source order"""
    for s in body:
        yield s
        for f in ("body", "orelse", "finalbody"):
            sub = getattr(s, f, None)
            if isinstance(sub, list) and sub and isinstance(sub[0], ast.stmt):
                for x in _walk_stmts(sub):
                    yield x
        if isinstance(s, ast.Try):
            for h in s.handlers:
                for x in _walk_stmts(h.body):
                    yield x


def _own_exprs(s):
    """expression nodes that belong to statement s itself (not to nested statements)"""
    fields = []
    if isinstance(s, (ast.If, ast.While)):
        fields = [s.test]
    elif isinstance(s, ast.For):
        fields = [s.target, s.iter]
    elif isinstance(s, ast.With):
        fields = [i.context_expr for i in s.items] + [i.optional_vars for i in s.items if i.optional_vars]
    elif isinstance(s, (ast.FunctionDef, ast.ClassDef, ast.Try)):
        fields = []
    else:
        fields = [s]
    for f in fields:
        for n in ast.walk(f):
            yield n


def analyse():
    tree = parse(SRC)
    cls = find_class(tree, CLASS)
    methods = _methods(cls)
    # first pass: which methods have direct store sites
    raw = {}
    for fn, decos in methods:
        raw[fn.name] = _sites(fn, decos, set())
    mutating = {m for m, (st, _) in raw.items()
                if any(k[0] not in ("call",) for k in st) and m not in ("__init__",)}
    out_s, out_r = [], []
    for fn, decos in methods:
        st, rd = _sites(fn, decos, mutating)
        out_s.append((fn.name, st))
        out_r.append((fn.name, rd))
    return out_s, out_r


def _sites(fn, decos, mutating):
    if "staticmethod" in decos:
        selfname = None
    else:
        if not fn.args.args:
            raise TranslationError("%s: no self parameter" % fn.name)
        selfname = fn.args.args[0].arg
        if "classmethod" in decos:
            selfname = None
    stores, reads = [], []
    alias = {}
    top = [s for s in fn.body if not _is_docstring(s)]

    def is_final(s):
        if s not in top:
            return False
        rest = top[top.index(s) + 1:]
        return all(isinstance(r, ast.Return) and (r.value is None or ast.unparse(r.value) == selfname) for r in rest)

    def provenance(name):
        binds = []
        for s in _walk_stmts(fn.body):
            if isinstance(s, ast.Assign):
                for t in s.targets:
                    if isinstance(t, ast.Name) and t.id == name:
                        binds.append(ast.unparse(s.value))
            elif isinstance(s, ast.AugAssign) and isinstance(s.target, ast.Name) and s.target.id == name:
                binds.append("aug " + ast.unparse(s))
        return "; ".join(binds)

    def targets_of(t):
        if isinstance(t, (ast.Tuple, ast.List)):
            for e in t.elts:
                for x in targets_of(e):
                    yield x
        elif isinstance(t, ast.Starred):
            for x in targets_of(t.value):
                yield x
        else:
            yield t

    for s in _walk_stmts(fn.body):
        if isinstance(s, (ast.FunctionDef, ast.ClassDef, ast.Lambda)):
            raise TranslationError("%s: nested definition" % fn.name)
        # --- stores
        tg = []
        if isinstance(s, ast.Assign):
            tg = [x for t in s.targets for x in targets_of(t)]
        elif isinstance(s, ast.AnnAssign):
            tg = list(targets_of(s.target))
        elif isinstance(s, (ast.For,)):
            tg = list(targets_of(s.target))
        elif isinstance(s, ast.With):
            tg = [x for i in s.items if i.optional_vars is not None for x in targets_of(i.optional_vars)]
        for t in tg:
            if selfname and isinstance(t, ast.Attribute) and isinstance(t.value, ast.Name) and t.value.id == selfname:
                rhs = ast.unparse(s.value) if isinstance(s, (ast.Assign, ast.AnnAssign)) and s.value is not None else "?"
                if isinstance(s, ast.Assign) and isinstance(s.value, ast.Name) and provenance(s.value.id):
                    rhs += " <- " + provenance(s.value.id)
                stores.append(("store", t.attr, rhs, is_final(s)))
            elif selfname and isinstance(t, ast.Name) and t.id == selfname:
                stores.append(("rebind-self", ast.unparse(s.value) if hasattr(s, "value") else "?", "", False))
            elif selfname and _root_self_attr(t, selfname) is not None:
                stores.append(("mutate", _root_self_attr(t, selfname), "item/attr store " + ast.unparse(t), False))
            elif isinstance(t, (ast.Subscript, ast.Attribute)):
                base = t
                while isinstance(base, (ast.Subscript, ast.Attribute)):
                    base = base.value
                if isinstance(base, ast.Name) and base.id in alias:
                    stores.append(("alias-mutate", alias[base.id], "store " + ast.unparse(t), False))
        if isinstance(s, ast.AugAssign):
            t = s.target
            if selfname and isinstance(t, ast.Attribute) and isinstance(t.value, ast.Name) and t.value.id == selfname:
                stores.append(("augstore", t.attr, type(s.op).__name__, False))
            elif selfname and _root_self_attr(t, selfname) is not None:
                stores.append(("mutate", _root_self_attr(t, selfname), "aug " + ast.unparse(t), False))
            elif isinstance(t, ast.Name) and t.id in alias:
                stores.append(("alias-mutate", alias[t.id], ast.unparse(s), False))
        if isinstance(s, ast.Delete):
            for t in s.targets:
                if selfname and _root_self_attr(t, selfname) is not None:
                    stores.append(("mutate", _root_self_attr(t, selfname), "del " + ast.unparse(t), False))
        # --- calls
        for n in _own_exprs(s):
            if isinstance(n, ast.Call):
                f = n.func
                if isinstance(f, ast.Attribute):
                    if selfname and ast.unparse(f.value) == selfname + ".__dict__" and f.attr in DICT_READERS:
                        pass
                    elif selfname and ast.unparse(f.value) == selfname + ".__dict__":
                        stores.append(("dict", ast.unparse(n), "", False))
                    elif f.attr in MUTATORS and selfname and _root_self_attr(f.value, selfname) is not None:
                        stores.append(("mutate", _root_self_attr(f.value, selfname), ast.unparse(n), False))
                    elif f.attr in MUTATORS and isinstance(f.value, ast.Name) and f.value.id in alias:
                        stores.append(("alias-mutate", alias[f.value.id], ast.unparse(n), False))
                    elif f.attr in mutating and not (isinstance(f.value, ast.Call)):
                        stores.append(("call", ast.unparse(f.value), f.attr, False))
                elif isinstance(f, ast.Name) and f.id in ("setattr", "delattr") and n.args and \
                        selfname and ast.unparse(n.args[0]) == selfname:
                    stores.append(("dict", ast.unparse(n), "", False))
            if selfname and isinstance(n, ast.Attribute) and n.attr == "__dict__" and \
                    isinstance(n.value, ast.Name) and n.value.id == selfname and isinstance(n.ctx, ast.Store):
                stores.append(("dict", "self.__dict__ = ...", "", False))
            # --- reads of the two mutable fields
            if isinstance(n, ast.Attribute) and n.attr in FIELDS and isinstance(n.ctx, ast.Load):
                reads.append((ast.unparse(n.value), n.attr, _stmt_text(s)))
        # --- aliases (after the statement's own effects)
        if isinstance(s, ast.Assign) and len(s.targets) == 1 and isinstance(s.targets[0], ast.Name):
            nm = s.targets[0].id
            v = s.value
            if selfname and isinstance(v, ast.Attribute) and isinstance(v.value, ast.Name) and v.value.id == selfname:
                alias[nm] = v.attr
            else:
                alias.pop(nm, None)
    return stores, reads


def _cs(s):
    if '"' in s or "\\" in s or "\n" in s:
        raise TranslationError("string not representable: %r" % s)
    return '"%s"' % s


def gen_jacobi_stores():
    st, rd = analyse()
    o = "(* GENERATED by tools/gen/jacobi_stores.py from %s (class %s) -- do not edit *)\n" % (SRC, CLASS)
    o += "From Coq Require Import List String Bool.\nImport ListNotations.\nOpen Scope string_scope.\n\n"
    o += ("(* (kind, attribute / receiver, detail, final) -- see tools/gen/jacobi_stores.py *)\n"
          "Definition site : Set := (string * string * string * bool)%type.\n"
          "(* (receiver, field, enclosing statement or test) *)\n"
          "Definition read_site : Set := (string * string * string)%type.\n\n")
    o += "(* every method the pass looked at; methods without any site are not listed below *)\n"
    o += "Definition jacobi_methods : list string :=\n  [%s].\n\n" % "; ".join(_cs(m) for m, _ in st)
    o += "Definition jacobi_stores : list (string * list site) :=\n  [ "
    rows = []
    for m, sites in st:
        if not sites:
            continue
        rows.append("(%s,\n     [%s])" % (_cs(m), ";\n      ".join(
            "(%s, %s, %s, %s)" % (_cs(k), _cs(a), _cs(d), "true" if f else "false") for k, a, d, f in sites)))
    o += ";\n    ".join(rows) + " ].\n\n"
    o += "Definition jacobi_reads : list (string * list read_site) :=\n  [ "
    rows = []
    for m, reads in rd:
        if reads:
            rows.append("(%s,\n     [%s])" % (_cs(m), ";\n      ".join(
                "(%s, %s, %s)" % (_cs(r), _cs(a), _cs(t)) for r, a, t in reads)))
    o += ";\n    ".join(rows) + " ].\n"
    return "JacobiStores.v", o


GENERATORS = [gen_jacobi_stores]
