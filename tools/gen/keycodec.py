"""Translator generator for property C19 (key and point encodings).

  gen_keyoids -> coq/Gen/KeyOids.v
      * the object identifiers used by keys.py / curves.py / util.py:
        oid_ecPublicKey, oid_ecDH, oid_ecMQV (util.py), PRIME_FIELD_OID,
        CHARACTERISTIC_TWO_FIELD_OID (curves.py), the OIDs of Ed25519 / Ed448;
      * one row (name, oid, p, a, b, Gx, Gy, n, h) per short-Weierstrass
        `Curve(...)` object of curves.py, in the order of the module-level list
        `curves` (the order find_curve and Curve.from_der iterate in), with the
        numbers obtained by evaluating the module-level constant expressions of
        ecdsa.py in order.

Fails closed (TranslationError) on any source shape it does not understand.
"""
import ast
import re

from py2v import parse, const_eval, cN, cZ, cstr, clist, HEADER, TranslationError

ECDSA_PY = "appnotes/register_crypto_plugin/ecdsa/ecdsa.py"
CURVES_PY = "appnotes/register_crypto_plugin/ecdsa/curves.py"
UTIL_PY = "appnotes/register_crypto_plugin/ecdsa/util.py"
COMPAT_PY = "appnotes/register_crypto_plugin/ecdsa/_compat.py"


def _check_remove_whitespace():
    """ecdsa.py must take remove_whitespace from _compat, and the definition used on
    Python 3 must be re.sub(r"\\s+", "", text, ...)."""
    et = parse(ECDSA_PY)
    ok = False
    for st in et.body:
        if isinstance(st, ast.ImportFrom) and st.module == "_compat" and st.level == 1:
            ok |= any(a.name == "remove_whitespace" and a.asname is None for a in st.names)
    if not ok:
        raise TranslationError("ecdsa.py does not import remove_whitespace from ._compat")
    ct = parse(COMPAT_PY)
    defs = [n for n in ast.walk(ct) if isinstance(n, ast.FunctionDef) and n.name == "remove_whitespace"]
    if not defs:
        raise TranslationError("remove_whitespace not found in _compat.py")
    for d in defs:
        rets = [n for n in ast.walk(d) if isinstance(n, ast.Return)]
        if len(rets) != 1:
            raise TranslationError("remove_whitespace: unexpected body")
        src = ast.unparse(rets[0].value)
        if not re.match(r"re\.sub\('\\\\s\+', '', text\b", src):
            raise TranslationError("remove_whitespace: unexpected body %s" % src)


def _ev(node, env):
    if isinstance(node, ast.Call) and isinstance(node.func, ast.Name) and not node.keywords:
        if node.func.id == "remove_whitespace" and len(node.args) == 1:
            s = _ev(node.args[0], env)
            if not isinstance(s, str):
                raise TranslationError("remove_whitespace of a non-string")
            return re.sub(r"\s+", "", s)
        if node.func.id == "int" and len(node.args) in (1, 2):
            s = _ev(node.args[0], env)
            base = _ev(node.args[1], env) if len(node.args) == 2 else 10
            if not isinstance(s, str) or base not in (10, 16):
                raise TranslationError("int(%r, %r)" % (s, base))
            if not re.fullmatch(r"[0-9a-fA-F]+" if base == 16 else r"[0-9]+", s):
                raise TranslationError("int(): not a base-%d digit string %r" % (base, s))
            return int(s, base)
    if isinstance(node, ast.UnaryOp) and isinstance(node.op, ast.USub):
        v = _ev(node.operand, env)
        if not isinstance(v, int):
            raise TranslationError("unary minus of a non-integer")
        return -v
    return const_eval(node, env)


def _call_of(node, mod, name):
    return (isinstance(node, ast.Call) and isinstance(node.func, ast.Attribute)
            and node.func.attr == name and isinstance(node.func.value, ast.Name)
            and node.func.value.id == mod)


def _simple_assigns(tree):
    for st in tree.body:
        if isinstance(st, ast.Assign) and len(st.targets) == 1 and isinstance(st.targets[0], ast.Name):
            yield st.targets[0].id, st.value


def _oid(v, what):
    if not (isinstance(v, tuple) and len(v) >= 2 and all(isinstance(x, int) and x >= 0 for x in v)):
        raise TranslationError("%s: not an OID tuple: %r" % (what, v))
    return v


def read_rows():
    _check_remove_whitespace()
    env, fp, gens = {}, {}, {}
    for name, v in _simple_assigns(parse(ECDSA_PY)):
        if _call_of(v, "ellipticcurve", "CurveFp"):
            if v.keywords or len(v.args) != 4:
                raise TranslationError("%s: CurveFp(p, a, b, h) expected" % name)
            vals = [_ev(x, env) for x in v.args]
            if not all(isinstance(x, int) for x in vals):
                raise TranslationError("%s: non-integer curve parameter" % name)
            fp[name] = tuple(vals)
        elif _call_of(v, "ellipticcurve", "PointJacobi"):
            kws = {k.arg: ast.unparse(k.value) for k in v.keywords}
            if len(v.args) != 5 or kws != {"generator": "True"} or not isinstance(v.args[0], ast.Name):
                raise TranslationError("%s: PointJacobi(curve, x, y, 1, n, generator=True) expected" % name)
            if v.args[0].id not in fp:
                raise TranslationError("%s: unknown curve object %s" % (name, v.args[0].id))
            gx, gy, z, n = [_ev(x, env) for x in v.args[1:]]
            if z != 1 or not all(isinstance(x, int) for x in (gx, gy, n)):
                raise TranslationError("%s: generator is not affine / not integer" % name)
            gens[name] = (v.args[0].id, gx, gy, n)
        elif name.startswith("_"):
            try:
                env[name] = _ev(v, env)
            except TranslationError:
                env.pop(name, None)          # any later use is an unbound name: fails closed
    ct = parse(CURVES_PY)
    rows, ed = {}, {}
    order = None
    cenv = {}
    for name, v in _simple_assigns(ct):
        if name in ("PRIME_FIELD_OID", "CHARACTERISTIC_TWO_FIELD_OID"):
            cenv[name] = _oid(_ev(v, {}), name)
        elif isinstance(v, ast.Call) and isinstance(v.func, ast.Name) and v.func.id == "Curve":
            if len(v.args) < 4 or any(k.arg in ("name", "curve", "generator", "oid") for k in v.keywords):
                raise TranslationError("%s: Curve(name, curve, generator, oid, ...) expected" % name)
            cur, gen = v.args[1], v.args[2]
            if not all(isinstance(x, ast.Attribute) and isinstance(x.value, ast.Name) for x in (cur, gen)):
                raise TranslationError("%s: curve/generator expression" % name)
            if _ev(v.args[0], {}) != name:
                raise TranslationError("%s: name argument differs from the variable" % name)
            oid = _oid(_ev(v.args[3], {}), name)
            if cur.value.id == "eddsa" and gen.value.id == "eddsa":
                ed[name] = oid
                continue
            if cur.value.id != "ecdsa" or gen.value.id != "ecdsa":
                raise TranslationError("%s: curve from module %s" % (name, cur.value.id))
            if cur.attr not in fp or gen.attr not in gens:
                raise TranslationError("%s: %s / %s not found in ecdsa.py" % (name, cur.attr, gen.attr))
            cvar, gx, gy, n = gens[gen.attr]
            if cvar != cur.attr:
                raise TranslationError("%s: generator %s is on %s" % (name, gen.attr, cvar))
            p, a, b, h = fp[cur.attr]
            if min(p, b, gx, gy, n, h) < 0:
                raise TranslationError("%s: negative parameter" % name)
            rows[name] = (name, oid, p, a, b, gx, gy, n, h)
        elif name == "curves":
            if not isinstance(v, ast.List) or not all(isinstance(e, ast.Name) for e in v.elts):
                raise TranslationError("curves: list of names expected")
            order = [e.id for e in v.elts]
    if order is None:
        raise TranslationError("module-level list `curves` not found")
    if sorted(order) != sorted(list(rows) + list(ed)):
        raise TranslationError("`curves` does not list exactly the Curve objects of the module")
    if set(ed) != {"Ed25519", "Ed448"} or len(rows) != 17:
        raise TranslationError("expected 17 short-Weierstrass and 2 Edwards curves, found %d and %d"
                               % (len(rows), len(ed)))
    if set(cenv) != {"PRIME_FIELD_OID", "CHARACTERISTIC_TWO_FIELD_OID"}:
        raise TranslationError("field type OIDs not found in curves.py")
    uenv = {}
    for name, v in _simple_assigns(parse(UTIL_PY)):
        if name in ("oid_ecPublicKey", "oid_ecDH", "oid_ecMQV"):
            uenv[name] = _oid(_ev(v, {}), name)
    if set(uenv) != {"oid_ecPublicKey", "oid_ecDH", "oid_ecMQV"}:
        raise TranslationError("oid_ecPublicKey / oid_ecDH / oid_ecMQV not found in util.py")
    return [rows[n] for n in order if n in rows], ed, cenv, uenv


def gen_keyoids():
    rows, ed, cenv, uenv = read_rows()
    out = HEADER % ", ".join([CURVES_PY, ECDSA_PY, UTIL_PY])
    out += "Open Scope N_scope.\n\n"

    def coid(t):
        return clist([cN(x) for x in t], "N")
    for k in ("oid_ecPublicKey", "oid_ecDH", "oid_ecMQV"):
        out += "Definition %s : list N := %s.\n" % (k, coid(uenv[k]))
    for k in ("PRIME_FIELD_OID", "CHARACTERISTIC_TWO_FIELD_OID"):
        out += "Definition %s : list N := %s.\n" % (k, coid(cenv[k]))
    out += "Definition Ed25519_oid : list N := %s.\n" % coid(ed["Ed25519"])
    out += "Definition Ed448_oid : list N := %s.\n\n" % coid(ed["Ed448"])
    out += ("(* one short-Weierstrass Curve object of curves.py *)\n"
            "Record wrow := mkWRow { w_name : list N; w_oid : list N; w_p : N; w_a : Z; w_b : Z;\n"
            "  w_gx : N; w_gy : N; w_n : N; w_h : N }.\n\n")
    for name, oid, p, a, b, gx, gy, n, h in rows:
        out += "Definition w_%s : wrow := mkWRow %s %s\n  %s\n  %s\n  %s\n  %s\n  %s\n  %s\n  %s.\n\n" % (
            name, cstr(name), coid(oid), cN(p), cZ(a), cZ(b), cN(gx), cN(gy), cN(n), cN(h))
    out += "(* in the order of the module-level list `curves` (Edwards curves left out) *)\n"
    out += "Definition wrows : list wrow := %s.\n" % clist(["w_" + r[0] for r in rows])
    return "KeyOids.v", out


GENERATORS = [gen_keyoids]
