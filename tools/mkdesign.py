#!/usr/bin/env python3
"""Regenerate the machine-generated tables of DESIGN.md (between the markers
<!-- BEGIN GENERATED --> and <!-- END GENERATED -->): per-property obligations as found in
coq/Properties/*.v, last evidence numbers, and the seeded-change table from seeded/*/meta.json."""
import glob
import json
import os
import re

V = os.path.dirname(os.path.dirname(os.path.abspath(__file__)))
THM = re.compile(r"^\s*(Theorem|Lemma|Corollary|Example|Fact|Proposition)\s+([A-Za-z0-9_']+)", re.M)


def main():
    out = []
    out.append("### 11.3 Obligations per property (generated from `coq/Properties/*.v` and the last evidence files)\n")
    out.append("| id | theorems in the property file | partial / refuted theorems | last run: obligations / correspondence traces / cases |")
    out.append("|----|------|------|------|")
    for pid in ["C%02d" % i for i in range(1, 21)]:
        p = os.path.join(V, "coq/Properties/%s.v" % pid)
        if not os.path.exists(p):
            continue
        names = [m.group(2) for m in THM.finditer(open(p).read())]
        special = [n for n in names if n.endswith("_partial") or n.endswith("_refuted")]
        ev = os.path.join(V, "evidence/%s.json" % pid)
        evs = ""
        if os.path.exists(ev):
            e = json.load(open(ev))
            c = e["coverage"]
            evs = "%d/%d, %s traces, %s cases (%s)" % (c.get("discharged", 0), c.get("obligations", 0),
                                                      c.get("traces_validated_against_impl"), c.get("evaluations"), e["tier"])
        out.append("| %s | %d: %s | %s | %s |" % (pid, len(names), ", ".join("`%s`" % n for n in names[:60]),
                                               ", ".join("`%s`" % n for n in special) or "none", evs))
    out.append("")
    out.append("### 11.4 Seeded changes and which check catches them (generated from `seeded/*/meta.json`)\n")
    out.append("Each change was written by a fresh sub-agent that saw only the property text and its own scratch worktree of "
               "`/repo` (nothing from `/verif`), keeps the pinned suite's per-test outcomes unchanged, and comes with a demonstration "
               "that fails with the change and passes without it. Each was confirmed with `tools/seedtest.py` (patch applied to a "
               "scratch copy, demo run on both trees, `bin/check` run against the copy through `VERIF_REPO`/`VERIF_SANDBOX`). "
               "\"history\" records the cases where a first version of the check missed the change and what was strengthened.\n")
    out.append("| seeded id | property | change | needs | caught by | history |")
    out.append("|----|----|----|----|----|----|")
    for m in sorted(glob.glob(os.path.join(V, "seeded/*/meta.json"))):
        j = json.load(open(m))
        def cell(x):
            return " ".join(str(x or "").split()).replace("|", "\\|")[:420]
        out.append("| %s | %s | %s | %s | %s | %s |" % (os.path.basename(os.path.dirname(m)), j["property"], cell(j.get("summary")),
                                                     cell(j.get("needs")), cell(j.get("caught_by")), cell(j.get("history"))))
    out.append("")
    out.append("### 11.4b Behaviour-preserving refactorings and how the checks react (generated from `refactorings/*/meta.json`)\n")
    out.append("Re-run one with `tools/refactortest.py refactorings/<id>` (applies the patch to a scratch copy and runs the listed checks).\n")
    out.append("| id | function | rewrite | checks that stay green | checks that report `no-failing-input-found` | note |")
    out.append("|----|----|----|----|----|----|")
    for m in sorted(glob.glob(os.path.join(V, "refactorings/*/meta.json"))):
        j = json.load(open(m))
        def cell(x):
            return " ".join(str(x or "").split()).replace("|", "\\|")[:300]
        out.append("| %s | %s | %s | %s | %s | %s |" % (os.path.basename(os.path.dirname(m)), cell(j.get("function")), cell(j.get("summary")),
                                                     " ".join(j.get("checks_expected_green", [])),
                                                     " ".join(j.get("checks_reporting_no_failing_input_found", [])) or "none",
                                                     cell(j.get("history"))))
    text = "\n".join(out) + "\n"
    p = os.path.join(V, "DESIGN.md")
    s = open(p).read()
    b, e = "<!-- BEGIN GENERATED -->", "<!-- END GENERATED -->"
    if b in s:
        s = s[:s.index(b) + len(b)] + "\n" + text + s[s.index(e):]
    else:
        s += "\n" + b + "\n" + text + e + "\n"
    open(p, "w").write(s)
    print("DESIGN.md tables regenerated: %d seeded changes" % len(glob.glob(os.path.join(V, "seeded/*/meta.json"))))


if __name__ == "__main__":
    main()
