"""C12 - Configuration identifiers match the config and their text form round-trips.

Tie: hand model coq/Model/ConfigId.v; UNKNOWN, the two re.match patterns and the format
strings come from the source through tools/gen/configid.py (Gen/ConfigIdConsts.v) and are
tied to the hand-written matcher/printer by reflexivity lemmas (C12_source_tie).

correspondence: constructor + __str__ + __eq__, create_from_str on canonical /
near-canonical / garbage texts, both factories on configurations with every subset of the
0x0620 naming values and byte widths 0..4 (incl. undecodable UTF-8 names), all compared
with the model *inside Coq*.
search: the property predicate (independent formatter / oracle written from the property
text) on the real implementation: each numeric field range exhaustively with the others at
{0, 1, max}, adversarial names, canonical texts, garbage texts, all subsets of the naming
values.  The inherent ambiguity of the name-only text form (known finding D5) is reported
under the kind "nameonly-roundtrip-ambiguous"; every other failure under its own kind."""
import itertools
import re
import unicodedata

from vlib import qN, qbytes, qlist, qopt, qres, qstr, run_impl

GEN_DEPS = ("ConfigIdConsts.v", "gen_configid_consts", "gen.configid")
MODEL_TARGETS = ["Model/ConfigId.vo"]
IMPORTS = "From Bec2 Require Import Gen.ConfigIdConsts Model.ConfigId."

UNKNOWN = 9999          # the documented 'unknown' code (property text); the source's value is tied in Coq
NAMING = 0x620
MAXV = {"customer": 99999, "project": 9999, "device": 9999, "version": 99}

ID18 = re.compile(r"[0-9]{5}-[0-9]{4}-[0-9]{4}-[0-9]{2}")          # model domain: ASCII digits
ID18_PY = re.compile(r"\d{5}-\d{4}-\d{4}-\d{2}")                    # what CPython's \d accepts


def cid():
    from bec2format.configid import ConfigId
    return ConfigId


def fields(i):
    return (i.customer, i.project, i.device, i.version, i.name)


def has_foreign_digit(s):
    """a decimal digit (category Nd) that is not ASCII: outside the model's is_digit"""
    return any(ord(c) > 127 and unicodedata.category(c) == "Nd" for c in s)


# ---------------------------------------------------------------------------
# Coq literals

def qoN(x):
    return qopt(x, qN)


def qostr(x):
    return qopt(x, qstr)


def qfields(f):
    c, p, d, v, n = f
    return "(MkId %s %s %s %s %s)" % (qoN(c), qoN(p), qoN(d), qoN(v), qostr(n))


def qcid_res(r):
    return qres(r, lambda i: qfields(fields(i)))


def qconf(cfg):
    return qlist(["((%s, %s), %s)" % (qN(k[0]), qN(k[1]), qbytes(v)) for k, v in cfg.items()],
                 "((N * N) * bytes)")


# ---------------------------------------------------------------------------
# generators

NAME_ATOMS = ["foo", "Door 7", "x", " ", "  lead", "trail ", "a (version 07)", "(version 07)", " (version 07)",
              "b (version 7)", "c (version 123)", "d (version 07) (version 08)", "e (Version 07)",
              "12345-1234-1234-12", "12345-1234-1234-12 foo", "12345-1234-1234-12foo", "12345-1234-1234-1",
              "1234-1234-1234-12 x", "12345-1234-1234-12 (version 03)", "00000-0000-0000-00", "09999-0001-0002-03 n",
              "123456-1234-1234-12", "12345_1234-1234-12", "-", "--", "0", "99", "1-2-3-4", "None", "",
              "café", "²³¹", "¼", "ÿ", "tab\there", "cr\rx", "nl\nx", "\nlead", "trail\n",
              "a\n (version 01)", "€ uro", "\U0001F600", "٣٤", "１２３４５-1234-1234-12 x",
              "١٢٣٤٥-١٢٣٤-١٢٣٤-١٢ foo",
              # characters that mean something to str.format / % / templates / regular expressions
              "{", "}", "{}", "{{", "}}", "{{x}}", "{version}", "{name}", "{0}", "a{version}b", "100%", "%s", "%(name)s", "%d",
              "$name", "${x}", "\\1", "\\", "a|b", "(x", "x)", "[x]", "x*", "x+", "x?", "^x$", "{version:02}"]


def rand_name(r):
    k = r.random()
    if k < 0.45:
        return r.choice(NAME_ATOMS)
    alphabet = "0123456789-- ()versionV\n\r\té²x{}%"
    if k < 0.8:
        return "".join(r.choice(alphabet) for _ in range(r.choice([1, 2, 5, 18, 19, 25])))
    # id-like prefix with small perturbations, followed by a tail
    s = "%05d-%04d-%04d-%02d" % (r.randrange(100000), r.randrange(10000), r.randrange(10000), r.randrange(100))
    if r.random() < 0.5:
        i = r.randrange(len(s))
        s = s[:i] + r.choice(["", "x", "-", "7", " ", "٣"]) + s[i + r.choice([0, 1]):]
    return s + r.choice(["", " ", " foo", "foo", " (version 01)", "\n", " a\nb"])


def rand_field(r, f):
    m = MAXV[f]
    return r.choice([0, 1, 9, 10, 99, 100, 999, 1000, 9998, 9999, 10000, m - 1, m, m + 1, 10 * m + 9,
                     r.randrange(0, m + 1), r.randrange(0, m + 1)])


def canon_text(c, p, d, v, name):
    t = "%05d-%04d-%04d-%02d" % (c, p, d, v)
    return t + (" " + name if name else "")


def gen_texts(ctx, n):
    """canonical, near-canonical and garbage texts for create_from_str"""
    r = ctx.rng
    out = [("fixed", t) for t in (
        "", " ", "\n", "12345-1234-1234-12", "12345-1234-1234-12 ", "12345-1234-1234-12  x", "12345-1234-1234-123",
        "12345-1234-1234-12x", "12345-1234-1234-12\n", "12345-1234-1234-12 a\nb", "12345-1234-1234-12 \nb",
        " 12345-1234-1234-12", "1234-1234-1234-12", "123456-1234-1234-12", "12345-1234-1234-1", "12345-1234-1234",
        "12345 1234 1234 12", "09999-0001-0002-03", "09999-0001-0002-03 nm", "00001-9999-9999-00 x",
        "foo (version 07)", " (version 07)", "(version 07)", "foo (version 7)", "foo (version 123)", "foo (version 07",
        "foo (version 07) trailing", "foo (version 07)\nmore", "foo\n (version 07)", "l1\nfoo (version 07)",
        "a (version 01) (version 02)", "a (version 01) (version 2)", "a (version 01)(version 02)", "foo(version 07)",
        "foo  (version 07)", "foo (Version 07)", "foo (version  07)", "foo (version 0a)",
        "12345-1234-1234-12 (version 03)", "12345-1234-1234-1 (version 03)", "x² (version ²³)",
        "café (version 10)", "1234²-1234-1234-12",
        "١٢٣٤٥-1234-1234-12 foo", "foo (version ١٢)")]
    kinds = ["canon-num", "canon-num-name", "canon-name", "near", "near", "garbage"]
    while len(out) < n:
        kind = r.choice(kinds)
        c, p, d, v = (r.choice([0, 1, 9999, 99999, 9998, 10000, r.randrange(100000)]),
                      r.choice([0, 1, 9999, r.randrange(10000)]), r.choice([0, 1, 9999, r.randrange(10000)]),
                      r.choice([0, 1, 99, r.randrange(100)]))
        if kind == "canon-num":
            t = canon_text(c, p, d, v, None)
        elif kind == "canon-num-name":
            t = canon_text(c, p, d, v, rand_name(r))
        elif kind == "canon-name":
            t = "%s (version %02d)" % (rand_name(r), v)
        elif kind == "near":
            t = r.choice([canon_text(c, p, d, v, r.choice([None, "nm", rand_name(r)])),
                          "%s (version %02d)" % (rand_name(r), v)])
            for _ in range(r.choice([1, 1, 2])):
                i = r.randrange(len(t) + 1)
                op = r.choice(["del", "ins", "rep"])
                ch = r.choice("0123456789- ()vx\n²")
                if op == "del":
                    t = t[:i] + t[i + 1:]
                elif op == "ins":
                    t = t[:i] + ch + t[i:]
                else:
                    t = t[:i] + ch + t[i + 1:]
        else:
            t = "".join(r.choice("0123456789-- ()version\néz") for _ in range(r.choice([0, 1, 3, 13, 18, 19, 30])))
        out.append((kind, t))
    return out


W_BYTES = [b"", b"\x00", b"\x07", b"\x63", b"\x64", b"\xff", b"\x00\x00", b"\x00\x01", b"\x27\x0f", b"\x27\x10",
           b"\x03\xe7", b"\xff\xff", b"\x00\x00\x07", b"\x01\x86\x9f", b"\x01\x86\xa0", b"\x00\x27\x0f",
           b"\x00\x00\x00\x00", b"\x00\x00\x27\x0f", b"\x00\x01\x86\x9f", b"\xff\xff\xff\xff"]
NAME_BYTES = [b"", b"foo", b" ", b"Door 7", b"caf\xc3\xa9", b"\xe2\x82\xac", b"\xf0\x9f\x98\x80", b"12345-1234-1234-12 foo",
              b"a (version 07)", b"nl\nx", b"\x00", b"\x7f",
              # undecodable: lone continuation, truncated, overlong, surrogate, > U+10FFFF, invalid lead
              b"\x80", b"caf\xc3", b"\xc3(", b"\xc0\xaf", b"\xc1\xbf", b"\xe0\x80\xaf", b"\xe0\x9f\xbf", b"\xe2\x82",
              b"\xed\xa0\x80", b"\xed\xbf\xbf", b"\xed\x9f\xbf", b"\xee\x80\x80", b"\xef\xbf\xbf", b"\xf0\x8f\xbf\xbf",
              b"\xf0\x90\x80\x80", b"\xf4\x8f\xbf\xbf", b"\xf4\x90\x80\x80", b"\xf5\x80\x80\x80", b"\xf8\x88\x80\x80\x80",
              b"\xff", b"\xfe", b"ok\xe2\x28\xa1", b"\xf0\x9f\x98", b"\xf1\x80\x80\x80", b"\xf3\xbf\xbf\xbf", b"\xe1\x80\x80",
              b"\xec\xbf\xbf", b"\xdf\xbf", b"\xc2\x80", b"\xc2\x7f", b"\xe1\x7f\x80", b"\xf1\x80\x7f\x80", b"\xf1\x80\x80\xc0"]


def rand_value(r, sub, name_subs):
    if sub in name_subs:
        if r.random() < 0.15:
            return b""                       # empty name: falsy, like an absent one
        if r.random() < 0.7:
            return r.choice(NAME_BYTES)
        return bytes(r.choice([0x41, 0x20, 0x31, 0x2d, 0xc3, 0xa9, 0xe2, 0x82, 0xac, 0xf0, 0x9f, 0x80, 0xed, 0xa0, 0xff])
                     for _ in range(r.choice([1, 2, 3, 4])))
    if r.random() < 0.6:
        return r.choice(W_BYTES)
    return bytes(r.randrange(256) for _ in range(r.choice([0, 1, 2, 3, 4])))


def gen_configs(ctx, per_subset, full_width_sweep):
    """every subset of the seven naming values, `per_subset` value assignments each;
    plus (full_width_sweep) for every value every byte width 0..4 with the others fixed"""
    r = ctx.rng
    out = []
    subs = [1, 2, 3, 4, 5, 6, 7]
    for mask in range(128):
        present = [s for s in subs if mask >> (s - 1) & 1]
        for j in range(per_subset):
            cfg = {}
            order = list(present)
            r.shuffle(order)
            for s in order:
                cfg[(NAMING, s)] = rand_value(r, s, (3, 6))
            # unrelated entries that must not be confused with naming values
            if r.random() < 0.3:
                cfg[r.choice([(NAMING, 8), (NAMING, 0), (0x621, 7), (0x601, 1), (0x62, 4)])] = b"\x01\x02"
            out.append(cfg)
    if full_width_sweep:
        base = {(NAMING, 1): b"\x30\x39", (NAMING, 2): b"\x00\x05", (NAMING, 3): b"dev", (NAMING, 4): b"\x03",
                (NAMING, 5): b"\x00\x2a", (NAMING, 6): b"prj", (NAMING, 7): b"\x09"}
        for s in subs:
            for w in range(5):
                for val in (bytes(w), b"\xff" * w, bytes(r.randrange(256) for _ in range(w)),
                            (b"\x27\x0f" if w == 2 else b"\x00" * max(0, w - 2) + b"\x27\x0f"[max(0, 2 - w):])):
                    cfg = dict(base)
                    cfg[(NAMING, s)] = val if s not in (3, 6) else bytes(0x41 + (b % 26) for b in val)
                    out.append(cfg)
    return out


# ---------------------------------------------------------------------------

def correspondence(ctx):
    C = cid()
    r = ctx.rng
    exprs, descr = [], []

    def add(e, d):
        exprs.append(e)
        descr.append(d)

    # 1. constructor, fields, __str__, __eq__
    ctor = []
    specials = [None, 0, 1, 9998, 9999, 10000]
    for c in specials + [99999, 100000]:
        for p in specials:
            for d in specials:
                ctor.append((c, p, d, r.choice([0, 7, 99, 100, None]), r.choice([None, "", "n", rand_name(r)])))
    for _ in range(ctx.budget(300, 5000)):
        ctor.append(tuple(r.choice([None, rand_field(r, f)]) if r.random() < 0.15 else rand_field(r, f)
                          for f in ("customer", "project", "device", "version")) + (r.choice([None, None, "", rand_name(r)]),))
    for a in ctor:
        i = C(*a)
        args = "%s %s %s %s %s" % (qoN(a[0]), qoN(a[1]), qoN(a[2]), qoN(a[3]), qostr(a[4]))
        s = run_impl(str, i)
        ctx.case(("ctor", a), trivial=False)
        ctx.dist["ctor:" + ("numeric" if i.customer is not None else "name-only")] += 1
        add("cid_eqb (mk_cid %s) %s && res_eqb str_eqb (cid_str (mk_cid %s)) %s" % (
            args, qfields(fields(i)), args, qres(s, qstr)), ("ctor+str", a, s))
        # __eq__ against a perturbed twin
        b = list(a)
        k = r.randrange(5)
        b[k] = r.choice([None, 0, 9999, a[k]]) if k < 4 else r.choice([None, "", "n", a[4]])
        j = C(*b)
        eq = (i == j)
        if (i != j) == eq:
            ctx.fail("eq-ne-inconsistent", {"a": list(a), "b": b}, "__eq__ and __ne__ agree")
        add("Bool.eqb (cid_eqb (mk_cid %s) (mk_cid %s %s %s %s %s)) %s" % (
            args, qoN(b[0]), qoN(b[1]), qoN(b[2]), qoN(b[3]), qostr(b[4]), "true" if eq else "false"),
            ("eq", a, b, eq))
    ctx.sample({"op": "ConfigId(1,2,9999,3,'n')", "str": str(C(1, 2, 9999, 3, "n"))})

    # 2. create_from_str
    skipped = 0
    for kind, t in gen_texts(ctx, ctx.budget(900, 12000)):
        res = run_impl(C.create_from_str, t)
        if has_foreign_digit(t):
            skipped += 1
            ctx.dist["text:outside-model(non-ASCII digit)"] += 1
            continue
        ctx.case(("text", t), trivial=(t == ""))
        ctx.dist["text:%s->%s" % (kind, "ok" if res[0] == "ok" else res[1])] += 1
        add("res_eqb cid_eqb (create_from_str %s) %s" % (qstr(t), qcid_res(res)), ("create_from_str", t, repr(res)))
    ctx.sample({"op": "create_from_str", "text": "00001-0002-0000-07 x", "fields": fields(C.create_from_str("00001-0002-0000-07 x"))})

    # 3. factories
    for cfg in gen_configs(ctx, ctx.budget(3, 40), True):
        for nm, f in (("prj", C.create_from_prj_settings), ("dev", C.create_from_dev_settings)):
            res = run_impl(f, dict(cfg))
            ctx.case((nm, tuple(sorted(cfg.items()))), trivial=(len(cfg) == 0))
            ctx.dist["%s->%s" % (nm, "ok" if res[0] == "ok" else res[1])] += 1
            add("res_eqb cid_eqb (create_from_%s_settings %s) %s" % (nm, qconf(cfg), qcid_res(res)),
                ("create_from_%s_settings" % nm, {"%#x,%d" % k: v.hex() for k, v in cfg.items()}, repr(res)))
    ctx.sample({"op": "create_from_prj_settings", "config": {"0x620,7": "07", "0x620,6": "666f6f"},
                "fields": fields(C.create_from_prj_settings({(NAMING, 7): b"\x07", (NAMING, 6): b"foo"}))})

    bad = ctx.coq_eval("c12", IMPORTS, exprs, shard=200)
    if bad is None:
        return
    ctx.traces += len(exprs)
    for i in bad[:10]:
        ctx.broken("correspondence: Model.ConfigId differs from the implementation on %s" % descr[i][0],
                   {"case": [repr(x) for x in descr[i][1:]]})


# ---------------------------------------------------------------------------
# property predicate on the real implementation

def norm(x):
    return None if x == UNKNOWN else x


def spec_text(c, p, d, v, name):
    """text form of an identifier, from the property text (9999 printed for 'unknown')"""
    if c is None:
        return "%s (version %02d)" % (name, v)
    t = "%05d-%04d-%04d-%02d" % (c, UNKNOWN if p is None else p, UNKNOWN if d is None else d, v)
    return t + (" " + name if name else "")


def check_roundtrip(ctx, C, a, kind_numeric="numeric-roundtrip"):
    """a = constructor arguments (customer, project, device, version, name) inside the quantifier
    or name-only form; returns after reporting at most one failure"""
    c, p, d, v, name = a
    want = (norm(c), norm(p), norm(d), v, name)
    data = {"customer": c, "project": p, "device": d, "version": v, "name": name}
    try:
        i = C(*a)
        got_fields = fields(i)
        t = str(i)
    except Exception as e:   # noqa
        ctx.fail(kind_numeric if want[0] is not None else "nameonly-roundtrip", data, "constructor/str raised %r" % e)
        return
    numeric = want[0] is not None
    kind = kind_numeric if numeric else "nameonly-roundtrip"
    if got_fields != want:
        ctx.fail("constructor-fields", data, "fields %r, expected %r" % (got_fields, want))
        return
    if t != spec_text(*want):
        ctx.fail(kind, data, "str gives %r, expected %r" % (t, spec_text(*want)))
        return
    res = run_impl(C.create_from_str, t)
    ok = res[0] == "ok" and fields(res[1]) == want and (res[1] == i) is True and (res[1] != i) is False
    if ok:
        return
    detail = "str %r parsed as %s" % (t, repr(fields(res[1])) if res[0] == "ok" else res[1])
    if not numeric and name is not None and ID18_PY.match(name):
        ctx.fail("nameonly-roundtrip-ambiguous", data, detail)
    else:
        ctx.fail(kind, data, detail)


def name_roundtrips(name, numeric):
    """the names for which the property promises a round trip"""
    if name is None:
        return numeric                    # name-only form without a name is not an identifier
    if "\n" in name:
        return False                      # single-line names only
    if numeric:
        return name != ""                 # empty name = absent name
    return True


def oracle_parse(t):
    """independent reading of the text grammar: ('num', c,p,d,v,name) | ('name', name, v) | None"""
    def dig(s):
        return len(s) > 0 and all(unicodedata.category(ch) == "Nd" for ch in s)
    if len(t) >= 18 and dig(t[0:5]) and t[5] == "-" and dig(t[6:10]) and t[10] == "-" and dig(t[11:15]) \
            and t[15] == "-" and dig(t[16:18]):
        rest = t[18:]
        name = rest[1:].split("\n")[0] if rest[:1] == " " else None
        return ("num", int(t[0:5]), int(t[6:10]), int(t[11:15]), int(t[16:18]), name)
    line = t.split("\n")[0]
    lit = " (version "
    k = len(line)
    while True:
        k = line.rfind(lit, 0, k)
        if k < 0:
            return None
        tail = line[k + len(lit):k + len(lit) + 3]
        if len(tail) == 3 and dig(tail[:2]) and tail[2] == ")":
            return ("name", line[:k], int(tail[:2]))
        k = k + len(lit) - 1
        if k <= 0:
            return None


def oracle_factory(which, cfg):
    """expected outcome from the property text; None when the property says nothing
    (undecodable name bytes)"""
    ver_k, name_k, missing = ((7, 6, "EMissPrj") if which == "prj" else (4, 3, "EMissDev"))
    g = lambda s: cfg.get((NAMING, s))       # noqa
    if g(ver_k) is None:
        return ("err", missing)
    name = None
    if g(name_k) is not None:
        try:
            name = g(name_k).decode("utf-8")
        except UnicodeDecodeError:
            return None
    ver = int.from_bytes(g(ver_k), "big")
    needed = (1, 5) if which == "prj" else (1,)
    if all(g(s) is not None for s in needed):
        cust = int.from_bytes(g(1), "big")
        prj = int.from_bytes(g(5), "big") if which == "prj" else 0
        dev = int.from_bytes(g(2), "big") if g(2) is not None else 0
        return ("ok", (norm(cust), norm(prj), norm(dev), ver, name))
    if not name:
        return ("err", missing)
    if which == "prj":
        return ("ok", (None, None, None, ver, name))
    return ("ok", (None, "any", None, ver, name))      # project of the fallback form is not specified


def search(ctx):
    C = cid()
    r = ctx.rng
    # keep at most 6 failures per kind so that one failure class does not crowd out the others
    per_kind = {}
    raw_fail = ctx.fail

    def fail(kind, data, detail=""):
        per_kind[kind] = per_kind.get(kind, 0) + 1
        if per_kind[kind] <= 6 or kind == "nameonly-roundtrip-ambiguous":
            raw_fail(kind, data, detail)
    ctx.fail = fail
    try:
        _search(ctx, C, r)
    finally:
        ctx.fail = raw_fail
        amb = per_kind.pop("nameonly-roundtrip-ambiguous", 0)
        ctx.dist["search:nameonly-ambiguous(known finding D5)"] += amb
        if any(v > 6 for v in per_kind.values()):
            ctx.notes.append("failures per kind (first 6 of each kept): %r" % (per_kind,))


def _search(ctx, C, r):
    hard = bool(ctx.brokens)
    thorough = (not ctx.quick()) or hard
    corners = {f: [0, 1, MAXV[f]] for f in MAXV}
    order = ("customer", "project", "device", "version")

    # (a) each numeric field range exhaustively, the others at {0, 1, max}
    for fi, f in enumerate(order):
        others = [g for g in order if g != f]
        combos = list(itertools.product(*[corners[g] for g in others]))
        if f == "customer" and not thorough:
            r.shuffle(combos)
            combos = combos[:4] + [(0, 0, 0), (9999, 9999, 99)]
        n = 0
        for combo in combos:
            for x in range(MAXV[f] + 1):
                if f == "customer" and x == UNKNOWN:
                    continue                              # outside the quantifier
                a = dict(zip(others, combo))
                a[f] = x
                name = None if (x + len(combo)) % 3 else "n%d" % (x % 7)
                check_roundtrip(ctx, C, (a["customer"], a["project"], a["device"], a["version"], name))
                n += 1
            if len(ctx.fails) >= 12:
                break
        ctx.evaluations += n
        ctx.dist["search:range-%s" % f] += n
    ctx.nontrivial.update(("range-sweep-%d" % k).encode() for k in range(4))

    # (b) adversarial names, numeric and name-only form
    notes = set()
    for _ in range(ctx.budget(6000, 150000) * (5 if hard else 1)):
        name = rand_name(r) if r.random() < 0.95 else None
        numeric = r.random() < 0.5
        if numeric:
            c = r.choice([0, 1, 9998, 10000, 99999, r.randrange(100000)])
            if c == UNKNOWN:
                c = 9998
            a = (c, r.choice([0, 1, 9999, None, r.randrange(10000)]), r.choice([0, 1, 9999, None, r.randrange(10000)]),
                 r.choice([0, 1, 99, r.randrange(100)]), name)
        else:
            a = (r.choice([None, UNKNOWN]), r.choice([None, UNKNOWN]), r.choice([None, UNKNOWN]),
                 r.choice([0, 1, 99, r.randrange(100)]), name)
        ctx.case(("name", a))
        if not name_roundtrips(name, numeric):
            ctx.dist["search:name-outside-quantifier"] += 1
            continue
        ctx.dist["search:%s-name" % ("numeric" if numeric else "nameonly")] += 1
        check_roundtrip(ctx, C, a)

    # (c) canonical text -> parse -> print gives the same text; (d) unparsable text raises the format error
    for kind, t in gen_texts(ctx, ctx.budget(3000, 60000) * (5 if hard else 1)):
        ctx.case(("stext", t), trivial=(t == ""))
        o = oracle_parse(t)
        res = run_impl(C.create_from_str, t)
        if o is None:
            ctx.dist["search:unparsable"] += 1
            if res != ("err", "ECfgId"):
                ctx.fail("error-type", {"text": t}, "unparsable text gave %r" % (res,))
            continue
        if res[0] != "ok":
            ctx.fail("error-type" if res[1] != "ECfgId" else "text-rejected", {"text": t},
                     "parsable text (%r) gave %s" % (o, res[1]))
            continue
        want = (norm(o[1]), norm(o[2]), norm(o[3]), o[4], o[5]) if o[0] == "num" else (None, None, None, o[2], o[1])
        if fields(res[1]) != want:
            ctx.fail("text-parse", {"text": t}, "parsed as %r, expected %r" % (fields(res[1]), want))
            continue
        # canonical = what the printer can produce: exact widths, no trailing text, 09999 excluded
        canonical = (t == spec_text(*want)) and (o[0] == "name" or o[1] != UNKNOWN)
        if canonical:
            ctx.dist["search:canonical-text"] += 1
            s = run_impl(str, res[1])
            if s != ("ok", t):
                ctx.fail("text-roundtrip", {"text": t}, "printed back as %r" % (s,))

    # (e) identifiers derived from configurations denote exactly the naming values
    seen_fallback = False
    for cfg in gen_configs(ctx, ctx.budget(4, 60) * (5 if hard else 1), True):
        for which, f in (("prj", C.create_from_prj_settings), ("dev", C.create_from_dev_settings)):
            want = oracle_factory(which, cfg)
            ctx.case(("scfg", which, tuple(sorted(cfg.items()))), trivial=(len(cfg) == 0))
            if want is None:
                ctx.dist["search:undecodable-name"] += 1
                continue
            res = run_impl(f, dict(cfg))
            got = ("ok", fields(res[1])) if res[0] == "ok" else res
            if want[0] == "ok" and got[0] == "ok" and want[1][1] == "any":
                want = ("ok", (want[1][0], got[1][1], want[1][2], want[1][3], want[1][4]))
                nm = got[1][4]
                if got[1][1] is not None and not seen_fallback and "\n" not in nm and not ID18_PY.match(nm):
                    i = res[1]
                    back = run_impl(C.create_from_str, str(i))
                    if back[0] == "ok" and back[1] != i:
                        seen_fallback = True
                        notes.add("observation (outside the quantifier, not counted as a violation): the name-only "
                                  "identifier built by create_from_dev_settings keeps project=%r (%r); its text %r "
                                  "parses back as %r" % (got[1][1], fields(i), str(i), fields(back[1])))
            if got != want:
                ctx.fail("from-config", {"factory": which, "config": {"%d" % k[1]: v for k, v in cfg.items() if k[0] == NAMING},
                                         "other_keys": [list(k) for k in cfg if k[0] != NAMING]},
                         "got %r, expected %r" % (got, want))
    ctx.notes.extend(sorted(notes))
    ctx.extra["rule"] = (
        "correspondence (model evaluated in Coq): constructor+__str__+__eq__ on the corner grid {None,0,1,9998,9999,10000}^3 plus "
        "random fields incl. out-of-range and None version; create_from_str on fixed, canonical, near-canonical (1-2 edits) and "
        "garbage texts (texts with non-ASCII decimal digits are outside the model and skipped); both factories on every subset of "
        "the seven 0x0620 values with byte widths 0..4, 9999 encodings and undecodable UTF-8 names. search (real implementation, "
        "independent oracle): every value of each numeric field with the others at {0,1,max}, adversarial names in numeric and "
        "name-only form, canonical-text round trip, error type on unparsable text, factories against the property text. "
        "non-trivial = all but the empty text/empty config; distinct by full input")


# ---------------------------------------------------------------------------

def replay(ctx, data):
    C = cid()
    rc = 0
    for f in data.get("fails", []):
        d = f["data"]
        print(f["kind"], "--", f["detail"])
        if "text" in d:
            t = d["text"]
            res = run_impl(C.create_from_str, t)
            print(" create_from_str(%r) ->" % t, fields(res[1]) if res[0] == "ok" else res[1], "; oracle:", oracle_parse(t))
            if res[0] == "ok":
                print(" str ->", run_impl(str, res[1]))
            o = oracle_parse(t)
            bad = (o is None) != (res == ("err", "ECfgId")) or (res[0] == "ok" and f["kind"] == "text-roundtrip"
                                                                and run_impl(str, res[1]) != ("ok", t))
            if o is not None and res[0] == "ok":
                want = (norm(o[1]), norm(o[2]), norm(o[3]), o[4], o[5]) if o[0] == "num" else (None, None, None, o[2], o[1])
                bad = bad or fields(res[1]) != want
            rc |= bad
        elif "customer" in d or "name" in d and "version" in d:
            a = (d.get("customer"), d.get("project"), d.get("device"), d.get("version"), d.get("name"))
            try:
                i = C(*a)
                t = str(i)
                res = run_impl(C.create_from_str, t)
                print(" ConfigId%r -> fields %r -> str %r -> %s" % (a, fields(i), t, fields(res[1]) if res[0] == "ok" else res[1]))
                rc |= not (res[0] == "ok" and res[1] == i and t == spec_text(norm(a[0]), norm(a[1]), norm(a[2]), a[3], a[4]))
            except Exception as e:  # noqa
                print(" raised %r" % e)
                rc |= 1
        elif "config" in d:
            cfg = {(NAMING, int(k)): bytes.fromhex(v["hex"]) for k, v in d["config"].items()}
            for k in d.get("other_keys", []):
                cfg[tuple(k)] = b"\x01\x02"
            which = d["factory"]
            fn = C.create_from_prj_settings if which == "prj" else C.create_from_dev_settings
            res = run_impl(fn, cfg)
            got = ("ok", fields(res[1])) if res[0] == "ok" else res
            want = oracle_factory(which, cfg)
            print(" create_from_%s_settings(%r) -> %r ; property text says %r" % (which, cfg, got, want))
            if want and want[0] == "ok" and got[0] == "ok" and want[1][1] == "any":
                want = ("ok", (want[1][0], got[1][1]) + want[1][2:])
            rc |= got != want
        else:
            print(" (no replayable input in this record)")
    for b in data.get("broken", []):
        print("broken:", b["what"])
        print("  ", b["detail"][:1500])
    return 1 if rc else 0
