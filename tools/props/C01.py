"""C01 - BF3 write-then-read returns the same file.
Tie: hand model coq/Model/Bf3.v + correspondence (writer and reader, stream and
path I/O, MAC on/off) with the toy cipher registered through register_AES128;
search: the round-trip predicate itself on the real implementation with the real
(pyaes) plug-in."""
from vlib import qN, qbytes, qres, qbool, run_impl
from props import toycipher
from props import bf3common as B

GEN_DEPS = ("Consts.v", "gen_consts", "Pad.v", "gen_pad")
MODEL_TARGETS = ["Model/Bf3.vo", "Model/Bf3Eq.vo", "Model/Cbc.vo", "Model/Aes.vo"]
IMPORTS = B.IMPORTS


def correspondence(ctx):
    r = ctx.rng
    exprs, descr = [], []
    n = ctx.budget(140, 3000) * (4 if ctx.brokens else 1)
    with toycipher.registered():
        for i in range(n):
            cm, comps = B.gen_file(r, enc_prob=0.1)
            if r.random() < 0.05:
                comps.append(B.gen_comp(r, oversize=True))
            key = B.rkey(r)
            f = B.build(cm, comps)
            qf = B.qfile_new(cm, comps)
            ctx.dist["comps=%d" % len(comps)] += 1
            ctx.dist["comments=%d" % len(cm)] += 1
            # writer, stream
            w = B.impl_write(f, key)
            exprs.append("res_eqb str_eqb (write_file toy_enc toy_mac %s %s) %s" % (qf, qbytes(key), qres(w, B.qstr)))
            descr.append(("write_file", cm, comps, key))
            ctx.case(("write", repr(cm), repr(comps), key), trivial=not comps)
            # to_binary at other offsets
            off = r.choice([0, 5, 6, 255, 256, 65535, 65536, 1 << 24, (1 << 32) - 40])
            tb = run_impl(f.to_binary, off, key)
            exprs.append("res_eqb bytes_eqb (to_binary toy_enc toy_mac (f_comps %s) %s %s) %s" % (
                qf, qN(off), qbytes(key), qres(tb, qbytes)))
            descr.append(("to_binary", cm, comps, key, off))
            ctx.case(("to_binary", repr(comps), key, off), trivial=not comps)
            if w[0] != "ok":
                ctx.dist["write->" + w[1]] += 1
                continue
            text = w[1]
            # reader, stream; same key / default / flipped key; MAC on and off
            for check, k2 in ((True, key), (False, key), (r.random() < 0.5, bytes([key[0] ^ 1]) + key[1:])):
                rd = B.impl_read(text, check, k2)
                exprs.append("res_eqb bf3_eqb (read_file toy_dec toy_mac %s %s %s) %s" % (
                    B.qstr(text), qbool(check), qbytes(k2), qres(rd, B.qbf3_obj)))
                descr.append(("read_file", text, check, k2))
                ctx.case(("read", text, check, k2), trivial=not comps)
                ctx.dist["read->" + (rd[1] if rd[0] == "err" else "ok")] += 1
            # path I/O (CRLF translation) on a subset
            if i % 4 == 0:
                wp = B.impl_write_path(f, key)
                exprs.append("res_eqb str_eqb (rmap crlf_out (write_file toy_enc toy_mac %s %s)) %s" % (
                    qf, qbytes(key), qres(wp, B.qstr)))
                descr.append(("write_file(path)", cm, comps, key))
                ctx.case(("writepath", repr(cm), repr(comps), key), trivial=not comps)
                if wp[0] == "ok":
                    rp = B.impl_read_path(wp[1], True, key)
                    exprs.append("res_eqb bf3_eqb (read_file toy_dec toy_mac (universal_in %s) true %s) %s" % (
                        B.qstr(wp[1]), qbytes(key), qres(rp, B.qbf3_obj)))
                    descr.append(("read_file(path)", wp[1], key))
                    ctx.case(("readpath", wp[1], key), trivial=not comps)
            # the same object written again after it was modified (the model is stateless)
            if i % 3 == 0:
                def rewrite():
                    extra = B.gen_comp(r)
                    f.components.append(B.build({}, [extra]).components[0])
                    if f.components and r.random() < 0.5:
                        f.components[0].description[0x55] = b"zz"
                    f.comments["again"] = "1"
                    s2 = __import__("io").StringIO()
                    f.write_file(s2, key)
                    return s2.getvalue()
                w2 = run_impl(rewrite)
                exprs.append("res_eqb str_eqb (write_file toy_enc toy_mac %s %s) %s" % (B.qbf3_obj(f), qbytes(key), qres(w2, B.qstr)))
                descr.append(("write_file(second write after modification)", repr(B.file_view(f))[:600], key))
                ctx.case(("rewrite", repr(B.file_view(f)), key))
            if i == 3:
                ctx.sample({"comments": cm, "components": [[{hex(k): v for k, v in d.items()}, b, a, e] for d, b, a, e in comps],
                            "key": key, "text": text[:200]})
    bad = ctx.coq_eval("c01", IMPORTS, exprs, preamble=B.PRE, shard=120)
    if bad is None:
        return
    ctx.traces += len(exprs)
    for i in bad[:10]:
        ctx.broken("correspondence: Model.Bf3 differs from the implementation on %s" % descr[i][0],
                   repr(descr[i])[:1500])
    correspondence_real_aes(ctx)


AES_COQ = """From Bec2 Require Import Model.Aes.
Definition aes_enc (k : bytes) (iv : option bytes) (d : bytes) := adapter_encrypt aes_E k iv d.
Definition aes_dec (k : bytes) (iv : option bytes) (d : bytes) := adapter_decrypt aes_D k iv d.
Definition aes_mac (k : bytes) (iv : option bytes) (d : bytes) := adapter_mac aes_E k iv d.
"""


def correspondence_real_aes(ctx):
    """the same writer/reader comparison with the REAL plug-in (pyaes) against the model
    instantiated with the pyaes model of C16 (aes_E / aes_D): no toy cipher in between"""
    r = ctx.rng
    exprs, descr = [], []
    for i in range(ctx.budget(25, 400)):
        cm, comps = B.gen_file(r, enc_prob=0.25, max_comps=3)
        comps = [c for c in comps if len(c[1]) <= 300]
        key = B.rkey(r)
        f = B.build(cm, comps)
        w = B.impl_write(f, key)
        qf = B.qfile_new(cm, comps)
        exprs.append("res_eqb str_eqb (write_file aes_enc aes_mac %s %s) %s" % (qf, qbytes(key), qres(w, B.qstr)))
        descr.append(("write_file[real AES]", cm, comps, key))
        ctx.case(("aes-write", repr(cm), repr(comps), key), trivial=not comps)
        if w[0] == "ok":
            k2 = key if r.random() < 0.8 else bytes([key[0] ^ 1]) + key[1:]
            rd = B.impl_read(w[1], True, k2)
            exprs.append("res_eqb bf3_eqb (read_file aes_dec aes_mac %s true %s) %s" % (
                B.qstr(w[1]), qbytes(k2), qres(rd, B.qbf3_obj)))
            descr.append(("read_file[real AES]", w[1], k2))
            ctx.case(("aes-read", w[1], k2), trivial=not comps)
    bad = ctx.coq_eval("c01aes", IMPORTS, exprs, preamble=AES_COQ, shard=10)
    if bad is None:
        return
    ctx.traces += len(exprs)
    ctx.extra["real_aes_correspondence_cases"] = len(exprs)
    for i in bad[:10]:
        ctx.broken("correspondence: Model.Bf3 over the pyaes model differs from the implementation with the real plug-in on %s" % descr[i][0],
                   repr(descr[i])[:1500])


def roundtrip_violation(cm, comps, key, check, via_path):
    """the property predicate on the implementation (real plug-in): returns None or a description"""
    f = B.build(cm, comps)
    w = B.impl_write_path(f, key) if via_path else B.impl_write(f, key)
    if w[0] != "ok":
        if w[1] == "EOverflow":
            return None      # the writer does not accept this object
        return "writer raised " + w[1]
    rd = B.impl_read_path(w[1], check, key) if via_path else B.impl_read(w[1], check, key)
    if rd[0] != "ok":
        return "reader rejected the writer's output: " + rd[1]
    want = B.file_view(f)
    got = B.file_view(rd[1])
    if want != got:
        return "read back differently: want %r got %r" % (want, got)
    return None


def search(ctx):
    r = ctx.rng
    n = ctx.budget(250, 6000) * (4 if ctx.brokens else 1)
    for i in range(n):
        cm, comps = B.gen_file(r, enc_prob=0.0)
        key = B.rkey(r)
        check = r.random() < 0.8
        via_path = (i % 5 == 0)
        ctx.case(("rt", repr(cm), repr(comps), key, check, via_path), trivial=not comps)
        why = roundtrip_violation(cm, comps, key, check, via_path)
        if why:
            ctx.fail("bf3-roundtrip", {"comments": cm, "comps": [[{str(k): v for k, v in d.items()}, b, a, e] for d, b, a, e in comps],
                                       "key": key, "check": check, "path": via_path}, why)
    # histories on one object: write, modify (append / remove / retag / set_config), write again, read back
    import io as _io
    from bec2format.bf3file import Bf3File as _Bf3File
    for i in range(ctx.budget(60, 1500)):
        cm, comps = B.gen_file(r, enc_prob=0.0)
        key = B.rkey(r)
        f = B.build(cm, comps)
        ops = []
        bad = None
        for step in range(r.randrange(2, 5)):
            s_ = _io.StringIO()
            try:
                f.write_file(s_, key)
            except OverflowError:
                break
            rd = run_impl(lambda: _Bf3File.read_file(_io.StringIO(s_.getvalue()), True, key))
            if rd[0] != "ok":
                bad = "after %r the writer's output is rejected by the reader: %s" % (ops, rd[1])
                break
            want, got = B.file_view(f), B.file_view(rd[1])
            want = (want[0], [(d, b if not e else b[:a], a, e) for d, b, a, e in want[1]])
            got = (got[0], [(d, b if not e else b[:a], a, e) for d, b, a, e in got[1]])
            if want != got:
                bad = "after %r the file reads back differently" % (ops,)
                break
            op = r.choice(["append", "remove", "retag", "set_config", "comment"])
            ops.append(op)
            if op == "append":
                f.components.append(B.build({}, [B.gen_comp(r)]).components[0])
            elif op == "remove" and f.components:
                del f.components[r.randrange(len(f.components))]
            elif op == "retag" and f.components:
                f.components[r.randrange(len(f.components))].description[r.choice([0x11, 0xC8])] = bytes(r.randrange(256) for _ in range(r.randrange(0, 9)))
            elif op == "set_config":
                f.set_config({(0x0101, 1): bytes(r.randrange(256) for _ in range(r.randrange(1, 30)))})
            else:
                f.comments["k%d" % step] = "v"
        ctx.case(("history", repr(cm), repr(comps), key, tuple(ops)))
        if bad:
            ctx.fail("bf3-roundtrip-history", {"comments": cm, "ncomps": len(comps), "key": key, "ops": ops}, bad)
    # boundary enumeration: every payload length 1..48 and around multiples of 16, trailing zero runs
    for ln in B.PAYLOAD_LENS:
        for z in (0, 1, 16, min(ln, 17)):
            blob = bytes(r.randrange(1, 256) for _ in range(ln - min(z, ln))) + bytes(min(z, ln))
            for alen in (None, 1, ln):
                comps = [({0xC3: b"\x02"}, blob, alen, False)]
                ctx.case(("rt-b", blob, alen))
                why = roundtrip_violation({}, comps, bytes(16), True, False)
                if why:
                    ctx.fail("bf3-roundtrip", {"comments": {}, "comps": [[{"195": b"\x02"}, blob, alen, False]],
                                               "key": bytes(16), "check": True, "path": False}, why)
    ctx.extra["rule"] = ("files: 0-4 comments (keys without ':'/newline, stripped values incl. ':' and Latin-1), 0-4 components, 0-6 tags "
                         "from {0,1,7F,C1..C9,FF} with value lengths {0,1,2,4,100,209,255}, payload lengths 1..48,63-65,79-81,255-257,1023 "
                         "with trailing zero runs, declared length {None,1,len/2,len-1,len}, keys {zero, random, zero-tailed}; "
                         "correspondence with the toy cipher: write_file (stream, path), to_binary at offsets up to 2^32-40, read_file "
                         "(MAC on/off, right/flipped key, path); search with the real plug-in: read(write f) == f; "
                         "non-trivial = at least one component; distinct by full content")


def replay(ctx, data):
    rc = 0
    for f in data.get("fails", []):
        d = f["data"]
        print(f["kind"], f["detail"][:300])
        try:
            cm = d["comments"]
            comps = [({int(k): bytes.fromhex(v["hex"]) for k, v in c[0].items()}, bytes.fromhex(c[1]["hex"]), c[2], c[3])
                     for c in d["comps"]]
            why = roundtrip_violation(cm, comps, bytes.fromhex(d["key"]["hex"]), d["check"], d["path"])
            print(" replay on /repo:", why)
            rc |= bool(why)
        except Exception as e:   # noqa
            print(" cannot replay:", e)
    for b in data.get("broken", []):
        print("broken:", b["what"])
    return 1 if rc else 0
