"""C03 - Written bytes have exactly the documented BF3/BEC2 container layout.
Proofs: coq/Properties/C03.v (writer model => declarative layout of Model/Layout.v,
uniqueness, checker = predicate, text, CBC-MAC).
Correspondence (toy cipher registered through register_AES128): the PROVED checker
check_layout of Model/Layout.v is run inside Coq on the bytes the implementation wrote
and must return exactly the fields an independent Python parser finds; the TLV header
serialiser/parser of the specification against Bec2File.pack_auth_blocks /
unpack_auth_blocks.
Search (real pyaes plug-in): the real writer's bytes at offsets
{0,5,6,255,256,65535,65536,2^24} are parsed and re-serialised by the independent Python
layout code of tools/props/layoutspec.py with an independent AES-CBC-MAC (raw block
calls into pyaes.aes.AES); fields and bytes must be reproduced exactly; hex text
layout; BEC2 framing of real Bec2File objects."""
import io

from vlib import qN, qbytes, qlist, qres, run_impl
from props import toycipher
from props import bf3common as B
from props import layoutspec as L

GEN_DEPS = ("Consts.v", "gen_consts", "Pad.v", "gen_pad")
MODEL_TARGETS = ["Model/Bf3.vo", "Model/Bf3Eq.vo", "Model/Cbc.vo", "Model/Layout.vo"]
IMPORTS = "From Bec2 Require Import Gen.Consts Model.Cbc Model.Bf3 Model.Bf3Eq Model.Layout."
OFFSETS = [0, 5, 6, 255, 256, 65535, 65536, 1 << 24]


def qtags(tags):
    return qlist(["(%s, %s)" % (qN(i), qbytes(v)) for i, v in tags], "(N * bytes)")


def qfield(f):
    return "(mkFR (mkEF %s %s %s %s %s) %s)" % (qN(f["adr"]), qN(f["total"]), qN(f["actual"]), qbytes(f["pmac"]),
                                                qtags(f["tags"]), qbytes(f["payload"]))


def qfields(fs):
    return qlist([qfield(f) for f in fs], "field_record")


def pad(b):
    return b + bytes(-len(b) % 16)


def expected_fields(comps, key, ciph):
    """what the property says the fields of these components are (address, stored length and
    payload MAC follow from the layout and are produced by ser_body)"""
    out = []
    for desc, blob, alen, enc in comps:
        payload = ciph.cbc_encrypt(key, None, pad(blob)) if enc else blob
        out.append(dict(tags=list(desc.items()), actual=alen or len(blob), payload=payload))
    return out


def judge_body(body, off, key, comps, ciph):
    """the property predicate on one written body; returns (violation or None, parsed fields)"""
    try:
        fs = L.parse_body(body, off, key, ciph)
    except L.LayoutError as e:
        return "written bytes do not have the documented layout: %s" % e, None
    want = expected_fields(comps, key, ciph)
    got = [dict(tags=f["tags"], actual=f["actual"], payload=f["payload"]) for f in fs]
    if got != want:
        return "fields differ from the file content: want %r got %r" % (want, got), fs
    try:
        again = L.ser_body(off, key, want, ciph)
    except L.LayoutError as e:
        return "independent serialiser cannot represent the fields: %s" % e, fs
    if again != body:
        return "independent serialiser gives different bytes: %s vs %s" % (again.hex(), body.hex()), fs
    return None, fs


def comps_of(f):
    """the current content of a (possibly long-lived, edited) Bf3File object"""
    return [(dict(c.description), bytes(c.blob), c.actual_len, bool(c.encrypt_by_session_key)) for c in f.components]


def make_block(t, v):
    from bec2format.bec2file import UnknownAuthBlock, UpdateAuthBlock
    return UpdateAuthBlock(v[:8].ljust(8, b"\1"), len(v) % 256) if t == 2 else UnknownAuthBlock(t, v)


def make_bec(f, blocks, key):
    from bec2format.bec2file import Bec2File
    return Bec2File(f, [make_block(t, v) for t, v in blocks], key)


def write_and_judge(f, bec, key, off, mode, ciph, blocks=()):
    """one write of the object f (through bec for the BEC2 modes) in its CURRENT state, judged against
    that state.  mode: 'binary' | 'text' | 'bec2' | 'bec2text'.  Returns (violation or None, body, fields)"""
    cm = dict(f.comments)
    comps = comps_of(f)
    if mode == "binary":
        w = run_impl(f.to_binary, off, key)
        if w[0] != "ok":
            return (None if w[1] == "EOverflow" else "writer raised " + w[1]), None, None
        why, fs = judge_body(w[1], off, key, comps, ciph)
        return why, w[1], fs
    if mode == "text":
        w = B.impl_write(f, key)
        if w[0] != "ok":
            return (None if w[1] == "EOverflow" else "writer raised " + w[1]), None, None
        try:
            binary = L.parse_text(w[1], list(cm.items()))
        except L.LayoutError as e:
            return "text layout: %s" % e, None, None
        if binary[:5] != b"BF3\0\0":
            return "signature is %r" % binary[:5], None, None
        why, fs = judge_body(binary[5:], 5, key, comps, ciph)
        return why, binary[5:], fs
    # BEC2 framing
    bec.session_key = key
    if mode == "bec2":
        w = run_impl(bec.to_binary)
    else:
        def go():
            s = io.StringIO()
            bec.write_file(s)
            return s.getvalue()
        w = run_impl(go)
    if w[0] != "ok":
        return (None if w[1] == "EOverflow" else "writer raised " + w[1]), None, None
    binary = w[1]
    if mode == "bec2text":
        try:
            binary = L.parse_text(binary, list(cm.items()))
        except L.LayoutError as e:
            return "text layout: %s" % e, None, None
    if binary[:5] != b"BEC2\0":
        return "signature is %r" % binary[:5], None, None
    try:
        got_blocks, hdr_end = L.parse_tlv_header(binary, 5)
    except L.LayoutError as e:
        return "authentication header: %s" % e, None, None
    # dict keyed by tag: one block per tag, in insertion order
    want_tags = list(dict((t, None) for t, _ in blocks))
    if [t for t, _ in got_blocks] != want_tags:
        return "auth block tags %r, expected %r" % ([t for t, _ in got_blocks], want_tags), None, None
    last = dict(blocks)
    for t, v in got_blocks:
        if t != 2 and v != last[t]:
            return "auth block %d has value %s" % (t, v.hex()), None, None
    if L.ser_tlv_header(got_blocks) != binary[5:hdr_end]:
        return "authentication header is not the serialisation of its blocks", None, None
    why, fs = judge_body(binary[hdr_end:], hdr_end, key, comps, ciph)
    return why, binary[hdr_end:], fs


def judge_case(cm, comps, key, off, mode, ciph, blocks=()):
    """a fresh object written once"""
    f = B.build(cm, comps)
    held = comps_of(f)
    given = [(dict(d), bytes(b), a or len(b), bool(e)) for d, b, a, e in comps]
    if held != given:
        # "for every file content": the object must hold the content it was built from (tag list, payload bytes,
        # declared length, and whether the payload is to be encrypted by the writer or stored as given)
        i = [x != y for x, y in zip(held, given)].index(True) if len(held) == len(given) else -1
        return ("the component object does not hold the content it was constructed from (component %d): given %r, holds %r"
                % (i, given[i] if i >= 0 else given, held[i] if i >= 0 else held))[:1500], None, None
    bec = make_bec(f, blocks, key) if mode.startswith("bec2") else None
    if bec is not None and bec.session_key != key:
        return ("the Bec2File object does not hold the session key it was constructed with: given %s, holds %r"
                % (key.hex(), bec.session_key)), None, None
    return write_and_judge(f, bec, key, off, mode, ciph, blocks)


# ---- object histories: one long-lived object, written several times with edits in between ----

def gen_op(r, f, with_bec):
    """a random edit of the live object, as a JSON-able list"""
    n = len(f.components)
    kinds = ["add_tag", "del_tag", "resize_tag", "append_comp", "del_comp", "swap_comps", "set_comment", "del_comment",
             "set_config", "add_tag", "resize_tag", "append_comp"]
    if with_bec:
        kinds.append("add_block")
    for _ in range(20):
        k = r.choice(kinds)
        if k in ("add_tag", "del_tag", "resize_tag") and n:
            ci = r.randrange(n)
            d = f.components[ci].description
            if k == "add_tag":
                free = [t for t in B.TAG_IDS if t not in d and t != 0xC2]
                if free:
                    return [k, ci, r.choice(free), bytes(r.randrange(256) for _ in range(r.choice([0, 1, 2, 5, 30])))]
            else:
                ids = [t for t in d if t != 0xC2]
                if ids:
                    t = r.choice(ids)
                    if k == "del_tag":
                        return [k, ci, t]
                    ln = r.choice([x for x in (0, 1, 2, 3, 7, 40) if x != len(d[t])])
                    return [k, ci, t, bytes(r.randrange(256) for _ in range(ln))]
        if k == "append_comp" and n < 6:
            d, b, a, e = tag02(r, B.gen_comp(r, enc=r.random() < 0.15))
            return [k, {str(t): v for t, v in d.items()}, b, a, e, r.randrange(n + 1)]
        if k == "del_comp" and n:
            return [k, r.randrange(n)]
        if k == "swap_comps" and n > 1:
            i, j = r.sample(range(n), 2)
            return [k, i, j]
        if k == "set_comment":
            return [k, r.choice(["k", "Name", "x y"]), r.choice(["", "v", "a: b", "longer value 123"])]
        if k == "del_comment" and f.comments:
            return [k, r.choice(list(f.comments))]
        if k == "set_config":
            return [k, [[r.choice([0x0101, 0x0202, 0x0620]), r.randrange(1, 6), bytes(r.randrange(256) for _ in range(r.choice([0, 1, 4, 20])))]
                        for _ in range(r.choice([1, 2, 4]))]]
        if k == "add_block":
            t = r.choice([4, 5, 0x7F, 0xFF])
            return [k, t, bytes(r.randrange(256) for _ in range(r.choice([0, 1, 16, 100])))]
    return ["set_comment", "k", "v"]


def _b(x):
    return bytes.fromhex(x["hex"]) if isinstance(x, dict) else x


def apply_op(f, bec, blocks, op):
    from bec2format.bf3file import Bf3Component
    k = op[0]
    if k in ("add_tag", "resize_tag"):
        f.components[op[1]].description[op[2]] = _b(op[3])
    elif k == "del_tag":
        del f.components[op[1]].description[op[2]]
    elif k == "append_comp":
        f.components.insert(op[5], Bf3Component({int(t): _b(v) for t, v in op[1].items()}, _b(op[2]), op[3], op[4]))
    elif k == "del_comp":
        del f.components[op[1]]
    elif k == "swap_comps":
        f.components[op[1]], f.components[op[2]] = f.components[op[2]], f.components[op[1]]
    elif k == "set_comment":
        f.comments[op[1]] = op[2]
    elif k == "del_comment":
        f.comments.pop(op[1], None)
    elif k == "set_config":
        f.set_config({(c[0], c[1]): _b(c[2]) for c in op[1]})
    elif k == "add_block":
        bec.add_auth_block(make_block(op[1], _b(op[2])))
        d = dict(blocks)
        d[op[1]] = _b(op[2])
        blocks[:] = list(d.items())



def tag02(r, comp, prob=0.08):
    """a component handed over to be stored as given (flag False) whose tag list nevertheless says ENC = 02
    (e.g. a payload that was encrypted elsewhere): the writer stores its bytes unchanged (wave-6 miss C03_2)"""
    d, b, a, e = comp
    if not e and r.random() < prob:
        d = dict(d)
        d[0xC2] = b"\x02"
    return (d, b, a, e)


def gen_file_c03(r):
    cm, comps = B.gen_file(r, enc_prob=0.15)
    return cm, [tag02(r, c) for c in comps]


def gen_history(r, modes, offsets):
    """(comments, comps, blocks, steps): steps alternate ['write', mode, off, key] and edit operations"""
    cm, comps = gen_file_c03(r)
    with_bec = any(m.startswith("bec2") for m in modes)
    blocks = gen_blocks(r) if with_bec else []
    f = B.build(cm, comps)                  # scratch object only used to generate applicable edits
    bec = make_bec(f, blocks, bytes(16)) if with_bec else None
    bl = list(dict(blocks).items())
    steps = []
    key = B.rkey(r)
    for w in range(r.choice([2, 3, 3, 4])):
        if r.random() < 0.5:
            key = B.rkey(r)
        mode = r.choice(modes)
        steps.append(["write", mode, r.choice(offsets) if mode == "binary" else 5, key])
        for _ in range(r.choice([1, 1, 2, 3])):
            op = gen_op(r, f, with_bec)
            apply_op(f, bec, bl, op)
            steps.append(op)
    steps.append(["write", r.choice(modes), r.choice(offsets), key])
    return cm, comps, blocks, steps


def run_history(cm, comps, blocks, steps, ciph):
    """replays a history on ONE live object; yields (write number, step, violation, body, fields, off, key) per write"""
    f = B.build(cm, comps)
    with_bec = any(s[0] == "write" and s[1].startswith("bec2") for s in steps) or any(s[0] == "add_block" for s in steps)
    bec = make_bec(f, blocks, bytes(16)) if with_bec else None
    bl = list(dict(blocks).items())
    n = 0
    for st in steps:
        if st[0] == "write":
            n += 1
            mode, off, key = st[1], st[2], _b(st[3])
            why, body, fs = write_and_judge(f, bec, key, off, mode, ciph, bl)
            yield n, st, why, body, fs, (off if mode == "binary" else None), key
        else:
            apply_op(f, bec, bl, st)


def jcomps(comps):
    return [[{str(k): v for k, v in d.items()}, b, a, e] for d, b, a, e in comps]


def gen_blocks(r):
    n = r.choice([0, 1, 1, 2, 3])
    out = []
    for _ in range(n):
        t = r.choice([2, 4, 5, 0x7F, 0xFF, 0])
        ln = r.choice([0, 1, 2, 16, 17, 100, 255])
        if t == 0 and ln == 0:
            ln = 1
        out.append((t, bytes(r.randrange(256) for _ in range(ln))))
    return out


def correspondence(ctx):
    r = ctx.rng
    ciph = L.toy()
    exprs, descr = [], []
    n = ctx.budget(110, 1500) * (4 if ctx.brokens else 1)
    with toycipher.registered():
        for i in range(n):
            cm, comps = gen_file_c03(r)
            key = B.rkey(r)
            off = OFFSETS[i % len(OFFSETS)] if i < 4 * len(OFFSETS) else r.choice(OFFSETS + [r.randrange(1 << 16)])
            why, body, fs = judge_case(cm, comps, key, off, "binary", ciph)
            ctx.case(("w", repr(comps), key, off), trivial=not comps)
            ctx.dist["comps=%d" % len(comps)] += 1
            ctx.dist["off=%s" % (off if off in OFFSETS else "random<2^16")] += 1
            if why:
                ctx.fail("bf3-layout", {"comments": cm, "comps": jcomps(comps), "key": key, "off": off,
                                        "mode": "binary", "cipher": "toy", "blocks": []}, why)
                continue
            if body is None:
                ctx.dist["writer->EOverflow"] += 1
                continue
            # the proved checker, inside Coq, on the implementation's bytes
            exprs.append("res_eqb (list_eqb fr_eqb) (check_layout toy_mac %s %s %s) (Ok %s)" % (
                qN(off), qbytes(key), qbytes(body), qfields(fs)))
            descr.append(("check_layout(to_binary)", comps, key, off, body))
            # and without the MAC clauses it accepts the same fields
            if i % 3 == 0:
                exprs.append("res_eqb (list_eqb fr_eqb) (check_layout_noauth toy_mac %s %s %s) (Ok %s)" % (
                    qN(off), qbytes(bytes(16)), qbytes(body), qfields(fs)))
                descr.append(("check_layout_noauth(to_binary)", comps, key, off, body))
            if i == 2:
                ctx.sample({"components": jcomps(comps), "key": key, "off": off, "bytes": body[:120],
                            "fields": [{k: v for k, v in f.items() if k != "payload"} for f in fs]})
        # object histories: one live object, written 2-5 times with edits in between (binary writes here)
        for i in range(ctx.budget(25, 400) * (4 if ctx.brokens else 1)):
            cm, comps, blocks, steps = gen_history(r, ["binary"], OFFSETS[:7])
            ctx.dist["history:writes=%d" % sum(1 for s in steps if s[0] == "write")] += 1
            for n, st, why, body, fs, off, key in run_history(cm, comps, blocks, steps, ciph):
                ctx.case(("hist", repr(comps), repr(steps), n), trivial=False)
                if why:
                    ctx.fail("bf3-layout", {"comments": cm, "comps": jcomps(comps), "blocks": [], "steps": steps, "mode": "history",
                                            "cipher": "toy", "write": n}, "write %d of one object (%r): %s" % (n, st[1:3], why))
                    break
                if body is not None and n > 1:
                    exprs.append("res_eqb (list_eqb fr_eqb) (check_layout toy_mac %s %s %s) (Ok %s)" % (
                        qN(off), qbytes(key), qbytes(body), qfields(fs)))
                    descr.append(("check_layout(history write %d)" % n, comps, key, off, body))
        # TLV authentication header of the specification against the implementation
        from bec2format.bec2file import Bec2File, UnknownAuthBlock
        from bec2format.bytes_reader import BytesReader
        from bec2format.bf3file import Bf3File
        for i in range(ctx.budget(30, 400)):
            blocks = [(t, v) for t, v in gen_blocks(r) if t != 2]
            blocks = list(dict(blocks).items())          # one block per tag (Bec2File keeps a dict)
            bec = Bec2File(Bf3File(), [UnknownAuthBlock(t, v) for t, v in blocks], bytes(16))
            hdr = bec.pack_auth_blocks()
            tail = bytes(r.randrange(256) for _ in range(r.choice([0, 1, 7])))
            exprs.append("bytes_eqb (ser_tlv_header %s) %s" % (qtags(blocks), qbytes(hdr)))
            descr.append(("ser_tlv_header", blocks, hdr))
            back = run_impl(lambda: [(b.tag, b.binary_value) for b in
                                     Bec2File.unpack_auth_blocks(BytesReader(hdr + tail), [])[0]])
            exprs.append("res_eqb (prod_eqb (list_eqb tag_eqb) bytes_eqb) (parse_tlv_header %d %s) %s" % (
                len(blocks) + 1, qbytes(hdr + tail),
                qres(back, lambda bl: "(%s, %s)" % (qtags(bl), qbytes(tail)))))
            descr.append(("parse_tlv_header", blocks, hdr, tail))
            ctx.case(("tlv", repr(blocks), tail), trivial=not blocks)
    bad = ctx.coq_eval("c03", IMPORTS, exprs, preamble=B.PRE, shard=40)
    if bad is None:
        return
    ctx.traces += len(exprs)
    for i in bad[:10]:
        d = descr[i]
        if d[0].startswith("check_layout"):
            # the proved checker rejects (or reads other fields from) bytes the implementation wrote
            ctx.fail("bf3-layout", {"comments": {}, "comps": jcomps(d[1]), "key": d[2], "off": d[3], "mode": "binary",
                                    "cipher": "toy", "blocks": [], "judge": "coq-check_layout"},
                     "Coq check_layout disagrees with the fields of the implementation's bytes %s" % d[4].hex()[:400])
        else:
            ctx.broken("correspondence: %s of Model/Layout.v differs from the implementation" % d[0], repr(d)[:1500])


def search(ctx):
    r = ctx.rng
    ciph = L.real_aes()
    n = ctx.budget(300, 5000) * (4 if ctx.brokens else 1)

    def run(cm, comps, key, off, mode, blocks=()):
        ctx.case((mode, repr(cm), repr(comps), key, off, repr(blocks)), trivial=not comps)
        ctx.dist["search:" + mode] += 1
        why, _, _ = judge_case(cm, comps, key, off, mode, ciph, blocks)
        if why:
            ctx.fail("bf3-layout", {"comments": cm, "comps": jcomps(comps), "key": key, "off": off, "mode": mode,
                                    "cipher": "aes", "blocks": [[t, v] for t, v in blocks]}, why)
    # boundary enumeration: every offset with 0..4 components and 0..6 tags
    for off in OFFSETS:
        for ncomp in range(0, 5):
            comps = [tag02(r, B.gen_comp(r, enc=(j == 1 and ncomp > 2))) for j in range(ncomp)]
            run({}, comps, B.rkey(r), off, "binary")
        for ntags in (0, 1, 6):
            ids = r.sample(B.TAG_IDS, ntags)
            comps = [({t: bytes(r.randrange(256) for _ in range(r.choice([0, 1, 30]))) for t in ids if t != 0xC2},
                      B.gen_blob(r), None, False)]
            run({}, comps, bytes(16), off, "binary")
    # payload lengths around the block size, declared length variants, text line boundaries
    for ln in [1, 2, 15, 16, 17, 31, 32, 33, 34, 35, 36, 37, 38, 39, 40, 41, 42, 74, 75, 76, 77, 78, 79, 80, 81, 115, 116, 117]:
        blob = bytes(r.randrange(256) for _ in range(ln))
        run({"k": "v"}, [({0xC3: b"\x02"}, blob, r.choice([None, 1, ln]), False)], B.rkey(r), 5, "text")
    run({}, [], bytes(16), 5, "text")
    # sizes that cross a byte boundary of a field: > 255 entries (IV index, directory size > 2^8 / 2^16),
    # a payload > 65535 bytes (stored length, addresses)
    many = [({}, bytes([1 + j % 255]), None, False) for j in range(257 if ctx.quick() else 1500)]
    run({}, many, B.rkey(r), 65535, "binary")
    run({}, [({0xC3: b"\x02"}, bytes(r.randrange(256) for _ in range(70001)), 65537, False),
             ({}, b"tail", None, False)], B.rkey(r), 5, "binary")
    # the SAME component object listed more than once (one firmware blob for several positions): every entry is
    # serialised for the position it stands at
    from bec2format.bf3file import Bf3File as _F, Bf3Component as _C
    for _ in range(ctx.budget(6, 60)):
        fw, main = _C({0xC3: b"\x01", 0xC4: b"\x00\xb6"}, B.gen_blob(r)), _C({0xC3: b"\x02"}, B.gen_blob(r))
        enc = _C({0xC3: b"\x03", 0xC2: b"\x02"}, B.gen_blob(r), None, True)
        order = r.choice([[main, fw, fw], [fw, main, fw], [fw, fw], [enc, fw, enc], [fw, fw, fw, main]])
        fobj = _F({"k": "v"}, order)
        key = B.rkey(r)
        ctx.case(("same-object-twice", len(order), key))
        why, _, _ = write_and_judge(fobj, None, key, r.choice(OFFSETS), r.choice(["binary", "text"]), ciph)
        if why:
            ctx.fail("bf3-layout", {"mode": "same-object-twice", "positions": [id(x) == id(order[-1]) for x in order]}, why)
    # several objects alive at once, built with DEFAULT arguments (no comments / no components given): editing one of
    # them must not show up in what another one writes
    from bec2format.bf3file import Bf3File, Bf3Component
    for _ in range(ctx.budget(6, 60)):
        fa, fb, fc = Bf3File(), Bf3File(), Bf3File(components=[Bf3Component({0xC3: b"\x02"}, b"abc")])
        fa.comments["Creator"] = "object A"
        fa.components.append(Bf3Component({}, b"A-only"))
        if r.random() < 0.5:
            fa.set_config({(0x0620, 0x07): b"\x01", (0x0620, 0x06): b"N"})
            fa.derive_comments_from_config({(0x0620, 0x07): b"\x01", (0x0620, 0x06): b"N"})
        fd = Bf3File()          # created after the edits
        for nm, f, want_cm, want_n in (("B", fb, {}, 0), ("C", fc, {}, 1), ("D", fd, {}, 0)):
            ctx.case(("default-objects", nm))
            key = B.rkey(r)
            held = (dict(f.comments), len(f.components))
            if held != (want_cm, want_n):
                ctx.fail("bf3-layout", {"mode": "default-objects", "object": nm, "holds": repr(held)},
                         "a Bf3File built with default arguments holds %r after ANOTHER object was edited (expected %r)"
                         % (held, (want_cm, want_n)))
                break
            why, _, _ = write_and_judge(f, None, key, 5, "text", ciph)
            if why:
                ctx.fail("bf3-layout", {"mode": "default-objects", "object": nm}, why)
                break
    # object histories: one live Bf3File / Bec2File, written 2-5 times with edits in between
    for i in range(ctx.budget(60, 1200) * (4 if ctx.brokens else 1)):
        modes = (["binary", "text"], ["binary"], ["bec2", "bec2text", "binary", "text"], ["bec2"])[i % 4]
        cm, comps, blocks, steps = gen_history(r, modes, OFFSETS[:7])
        for wn, st, why, body, fs, off, key in run_history(cm, comps, blocks, steps, ciph):
            ctx.case(("hist", repr(comps), repr(steps), wn), trivial=False)
            ctx.dist["search:history:" + st[1]] += 1
            if why:
                ctx.fail("bf3-layout", {"comments": cm, "comps": jcomps(comps), "blocks": [[t, v] for t, v in blocks], "steps": steps,
                                        "mode": "history", "cipher": "aes", "write": wn},
                         "write %d of one object (%r): %s" % (wn, st[1:3], why))
                break
    for i in range(n):
        cm, comps = gen_file_c03(r)
        key = B.rkey(r)
        mode = ("binary", "binary", "text", "bec2", "bec2text")[i % 5]
        off = r.choice(OFFSETS) if mode == "binary" else 5
        blocks = gen_blocks(r) if mode.startswith("bec2") else ()
        run(cm, comps, key, off, mode, blocks)
    ctx.extra["rule"] = ("files as in C01 (0-4 comments, 0-4 components incl. session-key encrypted ones, 0-6 tags, payload lengths "
                         "1..48,63-65,79-81,255-257,1023, declared length None/1/len/2/len-1/len), keys {zero, random, zero-tailed}, "
                         "offsets {0,5,6,255,256,65535,65536,2^24} + random < 2^16; BEC2: 0-3 auth blocks (update block and "
                         "unknown tags, value lengths 0..255). Correspondence (toy cipher): Coq check_layout on the "
                         "implementation's bytes = fields found by the independent Python parser; TLV header serialiser/parser "
                         "= pack_auth_blocks/unpack_auth_blocks. Search (real pyaes plug-in, independent block-wise AES-CBC-MAC): "
                         "independent parse gives the file's fields, independent serialisation gives the same bytes, text is "
                         "'k: v' lines + blank + upper-case hex in 80-column lines. Object histories: one live Bf3File/Bec2File "
                         "written 2-5 times (binary/text/BEC2, offset and key changing) with edits in between (tag added/removed/"
                         "resized, component inserted/removed/swapped, comments, set_config, auth block added), every write judged "
                         "against the object's state at that moment. non-trivial = at least one component / block")


def replay(ctx, data):
    rc = 0
    for f in data.get("fails", []):
        d = f["data"]
        print(f["kind"], f["detail"][:400])
        try:
            if d.get("mode") == "same-object-twice":
                from bec2format.bf3file import Bf3File, Bf3Component
                fw, main = Bf3Component({0xC3: b"\x01"}, b"fw-blob"), Bf3Component({0xC3: b"\x02"}, b"main")
                why, _, _ = write_and_judge(Bf3File({}, [main, fw, fw]), None, bytes(range(16)), 5, "binary", L.real_aes())
                print(" [main, fw, fw] with one fw object:", why or "layout ok")
                rc |= bool(why)
                continue
            if d.get("mode") == "default-objects":
                from bec2format.bf3file import Bf3File, Bf3Component
                fa, fb = Bf3File(), Bf3File()
                fa.comments["Creator"] = "object A"
                fa.components.append(Bf3Component({}, b"A-only"))
                fd = Bf3File()
                held = [(dict(x.comments), len(x.components)) for x in (fb, fd)]
                print(" two objects built with default arguments, after another one was edited, hold:", held)
                rc |= held != [({}, 0), ({}, 0)]
                continue
            comps = [({int(k): bytes.fromhex(v["hex"]) for k, v in c[0].items()}, bytes.fromhex(c[1]["hex"]), c[2], c[3])
                     for c in d["comps"]]
            key = bytes.fromhex(d["key"]["hex"]) if "key" in d else None
            blocks = [(t, bytes.fromhex(v["hex"])) for t, v in d.get("blocks", [])]
            if d.get("mode") == "history":
                def go(ciph):
                    bad = False
                    for n, st, why, body, fs, off, k2 in run_history(d["comments"], comps, blocks, d["steps"], ciph):
                        print(" write %d %r -> %s" % (n, st[1:3], why or "layout ok"))
                        bad |= bool(why)
                    return bad
                if d.get("cipher") == "toy":
                    with toycipher.registered():
                        rc |= go(L.toy())
                else:
                    rc |= go(L.real_aes())
                continue
            if d.get("cipher") == "toy":
                with toycipher.registered():
                    why, body, _ = judge_case(d["comments"], comps, key, d["off"], d["mode"], L.toy(), blocks)
            else:
                why, body, _ = judge_case(d["comments"], comps, key, d["off"], d["mode"], L.real_aes(), blocks)
            print(" replay on /repo: written =", None if body is None else body.hex()[:300])
            print(" verdict:", why)
            rc |= bool(why)
        except Exception as e:   # noqa
            print(" cannot replay:", e)
    for b in data.get("broken", []):
        print("broken:", b["what"])
    return 1 if rc else 0
