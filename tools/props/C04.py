"""C04 - Damaged or truncated files are never silently accepted as different content.
Tie: hand model coq/Model/Bf3.v (C01) + Model/Damage.v; proofs in Proofs/Damage*.v.
correspondence: model == implementation (accept/reject, error class, content) at the damage
  points of generated authentic BF3 files under the toy cipher registered through
  register_AES128, plus a crafted stream (one reader check violated at a time, MACs recomputed
  with the toy MAC) so that every check the theorems rely on is exercised in isolation;
search: the property predicate itself on the real implementation with the real plug-in
  (pyaes): every byte position x {bit flips, 00, FF, +1}, every proper prefix of the binary and
  of the text, appended suffixes, every single-bit change of the key; BF3 and BEC2 files."""
import io

from vlib import qN, qbytes, qres, qbool, run_impl
from props import toycipher
from props import bf3common as B

GEN_DEPS = ("Consts.v", "gen_consts")
MODEL_TARGETS = ["Model/Bf3.vo", "Model/Bf3Eq.vo", "Model/Cbc.vo"]
IMPORTS = B.IMPORTS

SUFFIXES = ["0", "00", "\n", "ZZ", "00" * 16, " ", "\r\n", "0\n", "G"]
SIG = b"BF3\0\0"

PRE = B.PRE + """
Definition splice (t : str) (a : N) (mid : str) (b : N) : str :=
  firstn (N.to_nat a) t ++ mid ++ skipn (N.to_nat b) t.
"""


# ---------------------------------------------------------------------------
# authentic files

def pad16(b):
    return b + bytes(-len(b) % 16)


def content_of(cm, comps):
    """what a correct reader returns for the written object (encrypted blobs come back zero-padded)"""
    out = []
    for d, blob, alen, enc in comps:
        out.append((list(d.items()), pad16(blob) if enc else bytes(blob), alen or len(blob), bool(enc)))
    return (list(cm.items()), out)


def small_comp(r, enc, n=None):
    desc = B.gen_desc(r, 40, enc)
    desc = {t: v[:r.choice([0, 1, 2, 4, 8])] for t, v in list(desc.items())[:3]}
    if enc:
        desc[0xC2] = b"\x02"
    elif desc.get(0xC2) == b"\x02":
        del desc[0xC2]
    n = n if n is not None else r.choice([1, 2, 3, 5, 15, 16, 17, 31, 32, 33, 40, 48])
    blob = B.gen_blob(r, n)
    alen = r.choice([None, None, 1, max(1, n // 2), max(1, n - 1), n])
    return (desc, blob, alen, enc)


def nz(r, n):
    return bytes(r.randrange(1, 256) for _ in range(n))


def boundary_files(r):
    """shapes the property text singles out: empty directory, trailing 0x00 runs (prefixes that only
    drop zeros), last byte with a non-zero high nibble (cut inside the last hex pair), 16-aligned
    payloads, an encrypted component, several components"""
    return [
        ({}, []),
        ({}, [({0xC3: b"\x02"}, nz(r, 5) + bytes(3), None, False)]),
        ({"k": "v"}, [({}, nz(r, 15) + b"\x10", None, False)]),
        ({}, [({0xC1: b"\x01\x02"}, nz(r, 2) + bytes(30), 2, False)]),
        ({"Name": "a: b", "": ""}, [({0xC2: b"\x02", 0xC3: b"\x05"}, nz(r, 19) + b"\0", None, True)]),
        ({"x": "y"}, [({0xC3: b"\x02"}, nz(r, 16), None, False), ({}, nz(r, 7) + b"\0\x0a", 8, False),
                      ({0xC2: b"\x02"}, nz(r, 16), 16, True)]),
    ]


def dup_files(r):
    """the SAME payload stored two and three times (one firmware blob for several hardware ids; identical
    stored payload MACs): plain, encrypted (identical ciphertext under the zero IV), and mixed with a
    different component - every byte of every copy is damaged in every run"""
    p8, p17, e16, e5 = nz(r, 8), nz(r, 15) + b"\0\x30", nz(r, 16), nz(r, 4) + b"\0"
    return [
        ({}, [({0xC4: b"\x00\xb6"}, p8, None, False), ({0xC4: b"\x00\xbe"}, p8, None, False)]),
        ({"Fw": "1100"}, [({0xC1: b"\0", 0xC4: b"\x00\xb6"}, p17, None, False), ({0xC1: b"\0", 0xC4: b"\x00\xbe"}, p17, None, False),
                          ({0xC1: b"\x02"}, nz(r, 5), None, False), ({0xC4: b"\x01"}, p17, 16, False)]),
        ({}, [({0xC2: b"\x02", 0xC4: b"\x01"}, e16, None, True), ({0xC2: b"\x02", 0xC4: b"\x02"}, e16, None, True)]),
        ({}, [({0xC2: b"\x02"}, e5, None, True), ({0xC3: b"\x07"}, nz(r, 3), None, False),
              ({0xC2: b"\x02", 0xC4: b"\x02"}, e5, 4, True), ({0xC4: b"\x03", 0xC2: b"\x02"}, e5, None, True)]),
    ]


ENC_ODD = [b"\x01", b"\x03", b"\xff", b"", b"\x02\x00"]


def enc_tag_files(r):
    """components whose ENC tag (0xC2) is neither absent, 00 nor 02 (01 = firmware key, 03, FF, empty and two-byte
    values): stored as they are, but their payload MAC must be checked like any other.  Each value appears once as
    first, middle and last component; a sixth file mixes 00 / two-byte 01 02 / 02 (really encrypted)."""
    out = []
    for i in range(5):
        vals = [ENC_ODD[(i + j) % 5] for j in range(3)]
        out.append(({}, [({0xC2: v, 0xC4: bytes([j])} if j != 1 else {0xC4: bytes([j]), 0xC2: v}, nz(r, 4 + j), None, False)
                         for j, v in enumerate(vals)]))
    out.append(({"e": "n"}, [({0xC2: b"\x00"}, nz(r, 4), None, False), ({0xC2: b"\x01\x02"}, nz(r, 5), 4, False),
                             ({0xC2: b"\x02"}, nz(r, 6), None, True)]))
    return out


def random_file(r):
    n = r.choice([1, 1, 2, 2, 3])
    comps = [small_comp(r, r.random() < 0.3) for _ in range(n)]
    return B.gen_comments(r), comps


def written(cm, comps, key):
    """(text, binary) of the authentic file, or None if the writer refuses the object"""
    w = B.impl_write(B.build(cm, comps), key)
    if w[0] != "ok":
        return None
    return w[1], binary_of_text(w[1])


def binary_of_text(text):
    """independent of the library: strip the comment block and unhexlify"""
    body = text.split("\n\n", 1)[1] if not text.startswith("\n") else text[1:]
    return bytes.fromhex("".join(body.split()))


# ---------------------------------------------------------------------------
# damage enumeration

def replacements(x):
    return sorted(set([x ^ (1 << i) for i in range(8)] + [0, 0xFF, (x + 1) & 0xFF]) - {x})


def key_flips(key):
    for i in range(8 * len(key)):
        k2 = bytearray(key)
        k2[i // 8] ^= 1 << (i % 8)
        yield i, bytes(k2)


def damages(cm, text, binary, key):
    """every damage point of the property's quantifier: (kind, param, damaged text, key)"""
    for pos in range(len(binary)):
        for y in replacements(binary[pos]):
            yield ("byte", (pos, y), B.text_of_binary(cm, binary[:pos] + bytes([y]) + binary[pos + 1:]), key)
    for n in range(len(binary)):
        yield ("binprefix", n, B.text_of_binary(cm, binary[:n]), key)
    for n in range(len(text)):
        yield ("textprefix", n, text[:n], key)
    for s in SUFFIXES:
        yield ("suffix", s, text + s, key)
    for i, k2 in key_flips(key):
        yield ("key", i, text, k2)


# ---------------------------------------------------------------------------
# large payloads: targeted damage at buffer-size boundaries and at the tail (wave-6 miss C04_1: a MAC
# computed chunk-wise that skips a final one-byte chunk, visible only for stored lengths k*1024+1)

LARGE_LENS = [1023, 1024, 1025, 1039, 1041, 2047, 2048, 2049, 3073, 4095, 4096, 4097, 8193]
CHUNKS = (256, 512, 1000, 1024, 2048, 4096, 8192)


def large_damages(cm, text, binary, key, npay):
    """(kind, param, damaged text, key) for a file whose LAST component is the large one (npay stored bytes)"""
    start = len(binary) - npay
    offs = {0, 1, 15, 16, 17, npay - 1, npay - 2, npay - 16, npay - 17, npay // 2}
    for c in CHUNKS:
        for k in range(1, npay // c + 1):
            offs.update((k * c - 1, k * c, k * c + 1))
    for o in sorted(x for x in offs if 0 <= x < npay):
        pos = start + o
        for y in (binary[pos] ^ 1, binary[pos] ^ 0x80, (binary[pos] + 1) & 0xFF):
            yield ("byte", (pos, y), B.text_of_binary(cm, binary[:pos] + bytes([y]) + binary[pos + 1:]), key)
    for n in (1, 2, 15, 16, 17, 32):
        if n < len(binary):
            yield ("binprefix", len(binary) - n, B.text_of_binary(cm, binary[:len(binary) - n]), key)
    stripped = text.rstrip("\r\n")
    for n in (1, 2, 3, 4):
        yield ("textprefix", len(stripped) - n, stripped[:len(stripped) - n], key)
    for sfx in SUFFIXES[:3]:
        yield ("suffix", sfx, text + sfx, key)


def large_files(ctx):
    r = ctx.rng
    lens = LARGE_LENS if not ctx.quick() or ctx.brokens else \
        [1024, 1025, 2049, 4097] + r.sample([x for x in LARGE_LENS if x not in (1024, 1025, 2049, 4097)], 2)
    for n in lens:
        for enc in (False, True):
            blob = nz(r, n - 1) + bytes([r.choice([0, 0x10, 0xA7])])
            first = [({0xC3: b"\x01"}, nz(r, 5), None, False)] if r.random() < 0.5 else []
            comps = first + [({0xC2: b"\x02"} if enc else {0xC4: b"\x00\xb6"}, blob, None, enc)]
            yield {"L": str(n)}, comps, B.rkey(r), (len(pad16(blob)) if enc else n)



def judge(res, want):
    """the property predicate: an error, or exactly the original content.  Returns None or a reason."""
    if res[0] == "err":
        return None
    got = B.file_view(res[1])
    if got != want:
        return "accepted with different content: want %r got %r" % (want, got)
    return None


# ---------------------------------------------------------------------------
# BEC2 (implementation only)

CRYPTO_KEY = bytes(range(0x30, 0x40))
CUST_KEY = b"CUSTOMER01"


def bec2_encryptors(with_ck):
    from bec2format import SoftwareCustKeyEncryptor
    if with_ck:
        return [SoftwareCustKeyEncryptor(CRYPTO_KEY, CUST_KEY, 0)]
    return [SoftwareCustKeyEncryptor(CRYPTO_KEY)]


def bec2_written(cm, comps, key, with_ck):
    from bec2format import Bec2File
    from bec2format.bec2file import InitCustKeyAuthBlock

    def go():
        s = io.StringIO()
        Bec2File(B.build(cm, comps), [InitCustKeyAuthBlock()], key).write_file(s, bec2_encryptors(with_ck))
        return s.getvalue()
    w = run_impl(go)
    if w[0] != "ok":
        return None
    return w[1], binary_of_text(w[1])


def bec2_read(text, with_ck, crypto_key=None):
    from bec2format import Bec2File, SoftwareCustKeyEncryptor
    encs = bec2_encryptors(with_ck) if crypto_key is None else \
        [SoftwareCustKeyEncryptor(crypto_key, CUST_KEY if with_ck else None, 0 if with_ck else None)]
    return run_impl(lambda: Bec2File.read_file(io.StringIO(text), encs, True))


def bec2_view(f):
    return (bytes(f.session_key), sorted(f.auth_blocks.keys()), B.file_view(f.bf3file))


def bec2_judge(res, want):
    if res[0] == "err":
        return None
    got = bec2_view(res[1])
    if got != want:
        return "accepted with different content: want %r got %r" % (want, got)
    return None


def bec2_damages(cm, text, binary):
    for pos in range(len(binary)):
        for y in replacements(binary[pos]):
            yield ("byte", (pos, y), B.text_of_binary(cm, binary[:pos] + bytes([y]) + binary[pos + 1:]), None)
    for n in range(len(binary)):
        yield ("binprefix", n, B.text_of_binary(cm, binary[:n]), None)
    for n in range(len(text)):
        yield ("textprefix", n, text[:n], None)
    for s in SUFFIXES:
        yield ("suffix", s, text + s, None)
    # "read with a different session key": for BEC2 the session key travels in the file, wrapped by
    # the crypto key of the reader's encryptor - every single-bit change of that key
    for i, k2 in key_flips(CRYPTO_KEY):
        yield ("key", i, text, k2)


# BEC2 files with two and three OPENABLE authentication blocks, read with all decryptors.  The content
# compared includes the authentication blocks and the session key.

CSC = bytes(range(1, 9))
ECC_SECRET = 0x1F2E3D4C5B6A79880796A5B4C3D2E1F00112233445566778899AABBCCDDEEFF


def multi_decryptors():
    from bec2format import SoftwareCustKeyEncryptor, ConfigSecurityCodeEncryptor
    from bec2format.bec2file import EccDecryptor
    import register_crypto_plugin as plug
    priv = plug.PrivateEccKeyProxy(plug.SigningKey.from_secret_exponent(ECC_SECRET, curve=plug.NIST256p))
    return {"cust": SoftwareCustKeyEncryptor(CRYPTO_KEY, CUST_KEY, 0), "upd": ConfigSecurityCodeEncryptor(CSC),
            "ecc": EccDecryptor(1, priv)}


MULTI_SETUPS = [("cust", "upd"), ("upd", "cust"), ("cust", "ecc", "upd")]


def multi_blocks(setup):
    from bec2format.bec2file import InitCustKeyAuthBlock, UpdateAuthBlock, InitEccAuthBlock
    mk = {"cust": InitCustKeyAuthBlock, "upd": lambda: UpdateAuthBlock(CSC, 3), "ecc": lambda: InitEccAuthBlock(1)}
    return [mk[b]() for b in setup]


def multi_written(cm, comps, key, setup):
    from bec2format import Bec2File
    decs = multi_decryptors()

    def go():
        s = io.StringIO()
        Bec2File(B.build(cm, comps), multi_blocks(setup), key).write_file(s, [decs[b] for b in setup])
        return s.getvalue()
    w = run_impl(go)
    if w[0] != "ok":
        return None
    return w[1], binary_of_text(w[1])


def multi_read(text, setup):
    from bec2format import Bec2File
    decs = multi_decryptors()
    return run_impl(lambda: Bec2File.read_file(io.StringIO(text), [decs[b] for b in setup], True))


def multi_view(f):
    """session key, authentication blocks (kind, key selector, security code, version, raw bytes of unknown
    ones, in file order) and the BF3 content"""
    ab = [(tag, type(b).__name__, getattr(b, "key_selector", None), getattr(b, "config_security_code", None),
           getattr(b, "version", None), getattr(b, "binary_value", None)) for tag, b in f.auth_blocks.items()]
    return (bytes(f.session_key), ab, B.file_view(f.bf3file))


def header_regions(binary, setup):
    """position -> region name for the BEC2 header of an authentic file"""
    reg = {i: "signature" for i in range(5)}
    p = 5
    for b in setup:
        ln = binary[p + 1]
        reg[p], reg[p + 1] = "tlv-tag", "tlv-len"
        for i in range(p + 2, p + 2 + ln):
            reg[i] = "value"
        if b == "ecc":
            reg[p + 2] = "ecc-selector"
        p += 2 + ln
    reg[p] = reg[p + 1] = "end-marker"
    return reg, p + 2


# ---------------------------------------------------------------------------
# crafted stream: an independent serialiser over a field list, MACs recomputed

def parse_fields(body):
    size = int.from_bytes(body[:4], "big")
    d, pay = body[4:4 + size], body[4 + size:]
    ents, i = [], 0
    while d[i] != 0:
        ln = d[i]
        e = d[i + 1:i + 1 + ln]
        i += 1 + ln
        dl = e[28]
        ents.append(dict(adr=int.from_bytes(e[0:4], "big"), total=int.from_bytes(e[4:8], "big"),
                         alen=int.from_bytes(e[8:12], "big"), pmac=e[12:28], tags=e[29:29 + dl],
                         emac=e[29 + dl:], iv=len(ents) + 1, extra=b""))
    for e in ents:
        e["payload"], pay = pay[:e["total"]], pay[e["total"]:]
    return ents


def toy_mac(key, iv, data):
    return toycipher.toy_encrypt(key, iv, data)[-16:]


def build_fields(ents, key, sentinel=b"\0", size_delta=0, trailing=b"", off=len(SIG)):
    """serialise a field list; addresses are laid out consistently with the bytes actually
    produced (absolute, contiguous) and then shifted by each entry's 'adr_delta'"""
    def entry(e, adr):
        body = (adr % 2 ** 32).to_bytes(4, "big") + e["total"].to_bytes(4, "big") + e["alen"].to_bytes(4, "big") + \
            e["pmac"] + bytes([e.get("dl", len(e["tags"]))]) + e["tags"]
        ent = body + toy_mac(key, e["iv"].to_bytes(16, "big"), body) + e["extra"]
        return bytes([len(ent)]) + ent
    dlen = sum(len(entry(e, 0)) for e in ents) + len(sentinel)
    adr = off + 4 + dlen
    d = b""
    for e in ents:
        d += entry(e, adr + e.get("adr_delta", 0))
        adr += len(e["payload"])
    d += sentinel
    return (len(d) + size_delta).to_bytes(4, "big") + d + b"".join(e["payload"] for e in ents) + trailing


def crafted(r, binary, key):
    """(label, binary) - each violates (at most) one reader check; everything else is consistent"""
    base = parse_fields(binary[len(SIG):])
    out = []

    def emit(label, ents, **kw):
        out.append((label, SIG + build_fields(ents, key, **kw)))

    def clone():
        return [dict(e) for e in base]
    emit("rebuilt-unchanged", clone())
    assert out[-1][1] == binary, "crafted serialiser disagrees with the writer"
    emit("no-sentinel", clone(), sentinel=b"")
    emit("sentinel-nonzero", clone(), sentinel=b"\x01")
    emit("trailing-byte", clone(), trailing=b"\0")
    emit("dirsize+1", clone(), size_delta=1)
    emit("dirsize-1", clone(), size_delta=-1)
    if not base:
        return out
    j = r.randrange(len(base))
    e = clone()
    e[j]["pmac"] = bytes([e[j]["pmac"][0] ^ 1]) + e[j]["pmac"][1:]
    emit("pmac-wrong-entry-mac-recomputed", e)
    for delta, lab in ((1, "adr+1"), (-1, "adr-1"), (-len(SIG), "adr-relative")):
        e = clone()
        e[j]["adr_delta"] = delta
        emit(lab, e)
    e = clone()
    e[j]["alen"] = e[j]["total"] + 1
    emit("alen>total", e)
    e = clone()
    e[j]["alen"] = max(0, e[j]["alen"] - 1)
    emit("alen-1-remac (accepted by both)", e)
    e = clone()
    e[j]["iv"] += 1
    emit("entry-mac-with-wrong-index", e)
    e = clone()
    tg = e[j]["tags"][:2 + e[j]["tags"][1]] if e[j]["tags"] else b"\x07\x00"
    e[j]["tags"] = (e[j]["tags"] or tg) + tg
    emit("duplicate-tag", e)
    e = clone()
    e[j]["tags"] = e[j]["tags"] + b"\x7e\x05\x01"
    emit("tag-length-overruns-description", e)
    e = clone()
    e[j]["dl"] = len(e[j]["tags"]) + 1
    emit("description-length-overruns-entry", e)
    e = clone()
    e[j]["extra"] = b"\0"
    emit("byte-after-entry-mac", e)
    e = clone()
    e[j]["total"], e[j]["alen"], e[j]["payload"] = 0, 0, b""
    emit("total-len-0-payload-mac-stale", e)
    e = clone()
    e[j]["payload"] = e[j]["payload"][:-1] + bytes([e[j]["payload"][-1] ^ 0x80])
    emit("payload-last-byte", e)
    e = clone()
    e[j]["total"] += 1
    e[j]["payload"] += b"\0"
    emit("total+1-zero-appended-remac (same MAC under zero padding)", e)
    e = clone()
    e[j]["payload"] = e[j]["payload"][:-1]
    emit("payload-one-byte-short", e)
    if len(base) >= 2:
        e = clone()
        e[0], e[1] = e[1], e[0]
        emit("entries-swapped-macs-recomputed", e)
        emit("last-component-dropped", clone()[:-1])
    return out


# ---------------------------------------------------------------------------

def qsplice(base_name, base, t):
    """damaged text t as splice of the text constant [base_name] (compact Coq literal)"""
    a = 0
    m = min(len(base), len(t))
    while a < m and base[a] == t[a]:
        a += 1
    s = 0
    while s < m - a and base[len(base) - 1 - s] == t[len(t) - 1 - s]:
        s += 1
    mid = t[a:len(t) - s]
    assert base[:a] + mid + base[len(base) - s:] == t
    return "(splice %s %s %s %s)" % (base_name, qN(a), B.qstr(mid), qN(len(base) - s))


def gen_files(ctx, n_random):
    r = ctx.rng
    nb = len(boundary_files(r))
    files = boundary_files(r) + dup_files(r) + enc_tag_files(r) + [random_file(r) for _ in range(n_random)]
    out = []
    for i, (cm, comps) in enumerate(files):
        key = B.rkey(r)
        out.append((cm, comps, key, 1 if nb <= i < nb + 4 else 2 if nb + 4 <= i < nb + 10 else 0))
    return out


def correspondence(ctx):
    import time
    t_start = time.time()
    r = ctx.rng
    nfiles = ctx.budget(2, 40) * (3 if ctx.brokens else 1)
    edits_per_file = ctx.budget(400, 100000)
    exprs, descr, defs = [], [], []
    with toycipher.registered():
        for fi, (cm, comps, key, dup) in enumerate(gen_files(ctx, nfiles)):
            wr = written(cm, comps, key)
            if wr is None:
                continue
            text, binary = wr
            if len(binary) > 420:
                continue
            name = "T%d" % fi
            defs.append("Definition %s : str := %s." % (name, B.qstr(text)))
            ctx.dist["toy:comps=%d" % len(comps)] += 1
            pts = list(damages(cm, text, binary, key))
            edits = [p for p in pts if p[0] == "byte"]
            other = [p for p in pts if p[0] != "byte"]
            if dup and ctx.quick():
                # identical payloads: every byte of every stored copy, a sample of the directory, no text prefixes
                npay = sum(len(pad16(b)) if e else len(b) for _, b, _, e in comps)
                pay = [p for p in edits if p[1][0] >= len(binary) - npay]
                rest_e = [p for p in edits if p[1][0] < len(binary) - npay]
                edits = pay + r.sample(rest_e, min(120 if dup == 1 else 60, len(rest_e)))
                other = [p for p in other if p[0] in (("suffix", "key", "binprefix") if dup == 1 else ("suffix", "key"))]
            elif len(edits) > edits_per_file:
                edits = r.sample(edits, edits_per_file)
            if ctx.quick():
                keyp = [p for p in other if p[0] == "key"]
                other = [p for p in other if p[0] != "key"] + r.sample(keyp, 16)
            for kind, param, t2, k2 in edits + other:
                rd = B.impl_read(t2, True, k2)
                exprs.append("res_eqb bf3_eqb (read_file toy_dec toy_mac %s true %s) %s" % (
                    qsplice(name, text, t2), qbytes(k2), qres(rd, B.qbf3_obj)))
                descr.append((kind, param, cm, comps, key, t2, k2, rd[0] if rd[0] == "err" else "accepted"))
                ctx.case(("toy", kind, param, text, k2), trivial=not comps)
                ctx.dist["toy:%s->%s" % (kind, rd[1] if rd[0] == "err" else "ok")] += 1
            for label, b2 in crafted(r, binary, key):
                t2 = B.text_of_binary(cm, b2)
                for check in (True, False):
                    rd = B.impl_read(t2, check, key)
                    exprs.append("res_eqb bf3_eqb (read_file toy_dec toy_mac %s %s %s) %s" % (
                        B.qstr(t2), qbool(check), qbytes(key), qres(rd, B.qbf3_obj)))
                    descr.append(("crafted:" + label, check, cm, comps, key, t2, key, rd[0] if rd[0] == "err" else "accepted"))
                    ctx.case(("crafted", label, check, t2), trivial=not comps)
                    ctx.dist["crafted:%s/%s->%s" % (label.split(" ")[0], "mac" if check else "nomac",
                                                    rd[1] if rd[0] == "err" else "ok")] += 1
            if fi == 2:
                ctx.sample({"comments": cm, "components": repr(comps), "key": key, "text": text[:240]})
    t_impl = time.time()
    bad = ctx.coq_eval("c04", IMPORTS, exprs, preamble=PRE + "\n".join(defs), shard=max(150, len(exprs) // 48 + 1))
    ctx.extra["timing_correspondence_s"] = {"implementation": round(t_impl - t_start, 1), "coq": round(time.time() - t_impl, 1)}
    if bad is None:
        return
    ctx.traces += len(exprs)
    for i in bad[:10]:
        kind, param, cm, comps, key, t2, k2, how = descr[i]
        ctx.broken("correspondence: Model.Bf3 read_file differs from the implementation on a damaged file (%s %r, implementation: %s)" % (
            kind, param, how), repr(descr[i])[:1500])


def fail_record(fmt, cm, comps, key, kind, param, t2, k2, with_ck=None):
    return {"fmt": fmt, "comments": cm, "comps": [[{str(k): v for k, v in d.items()}, b, a, e] for d, b, a, e in comps],
            "key": key, "damage": kind, "param": repr(param), "text": t2, "read_key": k2, "with_ck": with_ck}


def real_plugin():
    """make sure the real plug-in (pyaes adapter) is the registered cipher"""
    import bec2format
    import register_crypto_plugin as plug
    bec2format.register_AES128(plug.AES128Proxy)


def search(ctx):
    import time
    t_search = time.time()
    real_plugin()
    r = ctx.rng
    boost = 4 if ctx.brokens else 1
    nfiles = ctx.budget(2, 110) * boost
    nbec2 = ctx.budget(1, 30) * boost
    files = gen_files(ctx, nfiles)
    errs = ctx.dist
    for cm, comps, key, _dup in files:
        wr = written(cm, comps, key)
        if wr is None:
            continue
        text, binary = wr
        if len(binary) > 420:
            continue
        want = content_of(cm, comps)
        base = B.impl_read(text, True, key)
        ctx.case(("authentic", text, key), trivial=not comps)
        if base[0] != "ok":
            # the writer's own output is rejected: that is C01's subject, not a damage case
            ctx.notes.append("undamaged file rejected by the reader (%s): skipped (C01/C06 territory)" % base[1])
            continue
        if B.file_view(base[1]) != want:
            # "the original content" of C04 is what the authentic file reads as; a difference between
            # that and the object written is C01/C06's subject.  Damage is judged against the baseline.
            ctx.notes.append("undamaged file reads back differently from the object written (C01/C06 territory)")
            want = B.file_view(base[1])
        ctx.dist["bf3:comps=%d" % len(comps)] += 1
        for kind, param, t2, k2 in damages(cm, text, binary, key):
            res = B.impl_read(t2, True, k2)
            ctx.case(("bf3", kind, param, text, k2), trivial=not comps)
            errs["bf3:%s->%s" % (kind, res[1] if res[0] == "err" else "original")] += 1
            why = judge(res, want)
            if why:
                ctx.fail("damage-accepted", fail_record("bf3", cm, comps, key, kind, param, t2, k2), "%s %r: %s" % (kind, param, why))
    # large payloads (lengths around 1 KiB .. 8 KiB buffer sizes): targeted damage
    for cm, comps, key, npay in large_files(ctx):
        wr = written(cm, comps, key)
        if wr is None:
            continue
        text, binary = wr
        base = B.impl_read(text, True, key)
        ctx.case(("authentic-large", text, key), trivial=False)
        if base[0] != "ok":
            ctx.notes.append("undamaged large file rejected by the reader (%s): skipped (C01/C06 territory)" % base[1])
            continue
        want = B.file_view(base[1])
        ctx.dist["bf3-large:len=%s" % cm["L"]] += 1
        for kind, param, t2, k2 in large_damages(cm, text, binary, key, npay):
            res = B.impl_read(t2, True, k2)
            ctx.case(("bf3-large", kind, param, text, k2), trivial=False)
            errs["bf3-large:%s->%s" % (kind, res[1] if res[0] == "err" else "original")] += 1
            why = judge(res, want)
            if why:
                ctx.fail("damage-accepted", fail_record("bf3", cm, comps, key, kind, param, t2, k2), "%s %r: %s" % (kind, param, why[:300]))
    # BEC2: signature + customer-key auth block + the same body at offset len(header)
    ef = enc_tag_files(r)
    bfiles = boundary_files(r)[1:4] + [dup_files(r)[0], dup_files(r)[3], ef[0], ef[3]] + [random_file(r) for _ in range(nbec2)]
    if ctx.quick() and not ctx.brokens:
        bfiles = [bfiles[0], bfiles[3], bfiles[5], bfiles[6]]
    for i, (cm, comps) in enumerate(bfiles):
        key = bytes(r.randrange(256) for _ in range(15)) + bytes([r.choice([0, 1, 255])])
        with_ck = bool(i % 2)
        wr = bec2_written(cm, comps, key, with_ck)
        if wr is None:
            continue
        text, binary = wr
        if len(binary) > 460:
            continue
        want = (key, [1], content_of(cm, comps))
        base = bec2_read(text, with_ck)
        ctx.case(("authentic-bec2", text, key), trivial=not comps)
        if base[0] == "ok" and bec2_view(base[1]) != want:
            ctx.notes.append("undamaged BEC2 file reads back differently from the object written (C02/C06 territory)")
            want = bec2_view(base[1])
        if base[0] != "ok":
            ctx.notes.append("undamaged BEC2 file rejected by the reader (%s): skipped" % base[1])
            continue
        ctx.dist["bec2:comps=%d" % len(comps)] += 1
        for kind, param, t2, ck in bec2_damages(cm, text, binary):
            res = bec2_read(t2, with_ck, ck)
            ctx.case(("bec2", kind, param, text, ck), trivial=not comps)
            errs["bec2:%s->%s" % (kind, res[1] if res[0] == "err" else "original")] += 1
            why = bec2_judge(res, want)
            if why:
                ctx.fail("damage-accepted", fail_record("bec2", cm, comps, key, kind, param, t2, ck, with_ck),
                         "%s %r: %s" % (kind, param, why))
    # BEC2 with two and three openable blocks, all decryptors supplied (every run)
    hdr_obs = [0]
    for setup in MULTI_SETUPS:
        cm, comps = {"Creator": "c04"}, [({0xC3: b"\x02"}, nz(r, 9) + b"\0", None, False)]
        key = bytes(r.randrange(256) for _ in range(16))
        wr = multi_written(cm, comps, key, setup)
        if wr is None:
            ctx.broken("search: cannot write a BEC2 file with blocks %r" % (setup,), "")
            continue
        text, binary = wr
        base = multi_read(text, setup)
        ctx.case(("authentic-bec2-multi", setup, text), trivial=False)
        kinds = {"cust": "InitCustKeyAuthBlock", "upd": "UpdateAuthBlock", "ecc": "InitEccAuthBlock"}
        if base[0] != "ok" or multi_view(base[1])[0] != key or multi_view(base[1])[2] != content_of(cm, comps) or \
                [a[1] for a in multi_view(base[1])[1]] != [kinds[b] for b in setup]:
            ctx.fail("damage-accepted", {"fmt": "bec2-multi", "setup": list(setup), "damage": "none", "text": text, "key": key},
                     "the undamaged multi-block BEC2 file does not read back as written: %r" % (base,))
            continue
        want = multi_view(base[1])
        reg, hdr_end = header_regions(binary, setup)
        ctx.dist["bec2-multi:%s" % "+".join(setup)] += 1
        pts = []
        for pos in range(len(binary)):
            ys = replacements(binary[pos])
            if pos >= hdr_end and ctx.quick() and "ecc" in setup:
                ys = ys[:3]
            for y in ys:
                pts.append(("byte", (pos, y), B.text_of_binary(cm, binary[:pos] + bytes([y]) + binary[pos + 1:])))
        pts += [("binprefix", n, B.text_of_binary(cm, binary[:n])) for n in range(len(binary))]
        pts += [("suffix", sfx, text + sfx) for sfx in SUFFIXES]
        if not ctx.quick() or "ecc" not in setup:
            pts += [("textprefix", n, text[:n]) for n in range(len(text))]
        for kind, param, t2 in pts:
            res = multi_read(t2, setup)
            ctx.case(("bec2-multi", setup, kind, param, text), trivial=False)
            if res[0] == "err":
                errs["bec2-multi:%s->%s" % (kind, res[1])] += 1
                continue
            got = multi_view(res[1])
            if got == want:
                errs["bec2-multi:%s->original" % kind] += 1
                continue
            region = reg.get(param[0], "body") if kind == "byte" else kind
            if (got[0], got[2]) == (want[0], want[2]):
                # same session key, same comments and components; only the list of authentication blocks differs:
                # an observation (the BEC2 header is not authenticated, a block became an unknown pass-through
                # block), not a C04 violation - C04 is about the content
                errs["bec2-multi:%s->original content, auth-block list differs (%s)" % (kind, region)] += 1
                hdr_obs[0] += 1
                continue
            errs["bec2-multi:%s->DIFFERENT" % kind] += 1
            ctx.fail("damage-accepted",
                     {"fmt": "bec2-multi", "setup": list(setup), "region": region, "damage": kind, "param": repr(param),
                      "text": t2, "key": key, "want": repr((want[0], want[2]))},
                     "BEC2 %s, %s %r (%s): accepted with a different session key or different content: want %r got %r" % (
                         "+".join(setup), kind, param, region, (want[0], want[2]), (got[0], got[2])))
    if hdr_obs[0]:
        ctx.notes.append("observation (not a C04 violation): %d damaged multi-block BEC2 headers were accepted with the original session "
                         "key and content but a different authentication-block list (header not authenticated: a block with a damaged "
                         "tag / key-selector byte became an UnknownAuthBlock while another block opened the file)" % hdr_obs[0])
    ctx.extra["timing_search_s"] = round(time.time() - t_search, 1)
    ctx.extra["partial"] = PARTIAL
    ctx.extra["rule"] = (
        "authentic files: 6 boundary shapes (empty directory, trailing 0x00 runs, last byte with non-zero high nibble, 16-aligned and "
        "encrypted payloads, several components) + 4 files holding the SAME payload two and three times (plain, encrypted, mixed with other "
        "components; every byte of every copy damaged in every run) + 6 files with ENC tag values 01, 03, FF, empty, two-byte (each as first, "
        "middle and last component), 00 and 02 + random C01-shaped files with binary <= 420 bytes (1-3 components, "
        "payload lengths {1,2,3,5,15,16,17,31,32,33,40,48} with trailing zero runs, 0-3 tags, declared length variants, 30%% encrypted, "
        "keys {zero, random, zero-tailed}); damage = every byte position x {8 bit flips, 00, FF, +1}, every proper prefix of the binary "
        "(re-printed as text) and of the text (character by character), suffixes %r, every single-bit change of the key (BEC2: of the "
        "crypto key that unwraps the session key); search = predicate 'error or exactly the original content' on the real plug-in for BF3 "
        "and BEC2 (customer-key auth block; plus files with 2 and 3 openable auth blocks cust+upd, upd+cust, cust+ecc+upd read with all "
        "decryptors, judged on session key + comments + components, every header byte damaged); correspondence = model read_file == implementation at the same damage points under the toy "
        "cipher + crafted files violating one reader check at a time with recomputed MACs; non-trivial = file has a component; distinct by "
        "(file, damage point)" % (SUFFIXES,))


PARTIAL = (
    "proved without any cryptographic assumption (for the registered CBC adapter over every invertible block function): bytes appended "
    "(binary and text), the file cut short at every point of binary and text, EVERY single-byte replacement of the binary (every "
    "position, every value; a replaced byte always changes a CBC-MAC tag, size field / entry length bytes / sentinel / signature are "
    "checked structurally). PARTIAL: 'read with a different session key' (and arbitrary multi-byte replacement) is proved as a "
    "REDUCTION (C04_forgery_reduction_partial): acceptance with different content exhibits a successful MAC comparison on a "
    "(key, iv, message, tag) the writer never computed, or a payload-MAC collision inside the authentic file; that MACs under "
    "different keys differ is cryptographic and is neither assumed nor proved - this clause is covered empirically by the sweep "
    "(every single-bit change of the key, real plug-in). BEC2 headers (authentication blocks) are covered by the sweep on the "
    "implementation only; the binary-level theorems hold for every header length. Observation, not a violation: the BEC2 header is not authenticated - "
    "in a file with >= 2 openable blocks a damaged tag / key-selector byte turns one block into an UnknownAuthBlock while the session key "
    "and the content returned are the original ones (counted in the notes).")


def replay(ctx, data):
    rc = 0
    shown = 0
    real_plugin()
    for f in data.get("fails", []):
        d = f["data"]
        print(f["kind"], f["detail"][:400])
        try:
            if d["fmt"] == "bec2-multi":
                setup = tuple(d["setup"])
                res = multi_read(d["text"], setup)
                print(" damaged text:", repr(d["text"])[:400])
                if res[0] == "err":
                    print(" replay on the implementation: error", res[1], "-> predicate holds")
                    continue
                got = multi_view(res[1])
                print(" replay on the implementation: accepted; session key %s; blocks %r" % (got[0].hex(), got[1]))
                print(" session key + content of the undamaged file:", d.get("want"))
                bad = repr((got[0], got[2])) != d.get("want")
                print(" predicate:", "VIOLATED (accepted, not the original content)" if bad else "holds")
                rc |= bad
                continue
            cm = d["comments"]
            comps = [({int(k): bytes.fromhex(v["hex"]) for k, v in c[0].items()}, bytes.fromhex(c[1]["hex"]), c[2], c[3])
                     for c in d["comps"]]
            key = bytes.fromhex(d["key"]["hex"])
            if d["fmt"] == "bf3":
                k2 = bytes.fromhex(d["read_key"]["hex"])
                res = B.impl_read(d["text"], True, k2)
                why = judge(res, content_of(cm, comps))
            else:
                ck = bytes.fromhex(d["read_key"]["hex"]) if d["read_key"] else None
                res = bec2_read(d["text"], d["with_ck"], ck)
                why = bec2_judge(res, (key, [1], content_of(cm, comps)))
            print(" damaged text:", repr(d["text"])[:300])
            print(" replay on the implementation:", "error " + res[1] if res[0] == "err" else "accepted")
            print(" predicate:", why or "holds")
            if d["fmt"] == "bf3" and shown < 5:
                shown += 1
                print(" model:", ctx_show(ctx, d["text"], k2))
            rc |= bool(why)
        except Exception as e:   # noqa
            print(" cannot replay:", repr(e))
    for b in data.get("broken", []):
        print("broken:", b["what"])
    return 1 if rc else 0


def ctx_show(ctx, text, key):
    import vlib
    try:
        return vlib.coq_show(ctx.pid, IMPORTS, "match read_file toy_dec toy_mac %s true %s with Ok _ => 1%%N | Err _ => 0%%N end" % (
            B.qstr(text), qbytes(key)), preamble=PRE)[-200:] + "  (toy cipher; 1 = accepted)"
    except Exception as e:   # noqa
        return "n/a (%r)" % (e,)
