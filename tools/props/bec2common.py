"""Shared generators, Coq printers and implementation runners for the BEC2 layer
(C02, C07, C09, C14).  Encryptors and auth blocks are described by tuples from
which both the implementation objects and the Coq terms are built."""
import hashlib
import io

from vlib import qN, qbytes, qlist, qopt, qres, qbool, run_impl
from props import toycipher, toyecc
from props import bf3common as B

IMPORTS = B.IMPORTS
SHA = {}          # sha256 oracle table, filled while cases are generated


def sha(x):
    SHA[bytes(x)] = hashlib.sha256(x).digest()
    return SHA[bytes(x)]


import contextlib


@contextlib.contextmanager
def sha_recording():
    """record every sha256 the BEC2 layer computes (ECDH secrets, security codes) into the
    oracle table handed to the Coq model"""
    import bec2format.bec2file as m
    orig = m.sha256

    class Rec:
        def __init__(self, data=b""):
            self._h = orig(data)
            self._d = bytes(data)

        def digest(self):
            SHA[self._d] = self._h.digest()
            return SHA[self._d]
    m.sha256 = Rec
    try:
        yield
    finally:
        m.sha256 = orig


def preamble():
    tbl = qlist(["(%s, %s)" % (qbytes(k), qbytes(v)) for k, v in SHA.items()], "(bytes * bytes)")
    return toycipher.TOY_COQ + "Definition sha_tbl : list (bytes * bytes) := %s.\n" % tbl + toyecc.TOYECC_COQ


# ---- descriptions -----------------------------------------------------------
# encryptor: ("cust", key, ck|None, pos|None) | ("ecc", sel, priv|None, pubraw) | ("csc", code)
# block:     ("custkey",) | ("ecc", sel) | ("update", code, ver) | ("unknown", tag, raw)

def mk_encryptor(e, ToyPub, ToyPriv):
    from bec2format.bec2file import SoftwareCustKeyEncryptor, EccEncryptor, EccDecryptor, ConfigSecurityCodeEncryptor
    if e[0] == "cust":
        return SoftwareCustKeyEncryptor(e[1], e[2], e[3])
    if e[0] == "ecc":
        if e[2] is not None:
            return EccDecryptor(e[1], ToyPriv(e[2]))
        return EccEncryptor(e[1], ToyPub(e[3]))
    if e[0] == "csc":
        sha(e[1])
        return ConfigSecurityCodeEncryptor(e[1])
    raise ValueError(e)


def q_encryptor(e):
    if e[0] == "cust":
        ck = None if e[2] is None else (e[2], e[3])
        return "(ECustKey %s %s)" % (qbytes(e[1]), qopt(ck, lambda c: "(%s, %s)" % (qbytes(c[0]), qN(c[1]))))
    if e[0] == "ecc":
        return "(EEcc %s %s %s)" % (qN(e[1]), qbytes(e[3]), qopt(e[2], qbytes))
    if e[0] == "csc":
        sha(e[1])
        return "(ECsc %s)" % qbytes(e[1])
    raise ValueError(e)


def mk_block(b):
    from bec2format.bec2file import InitCustKeyAuthBlock, InitEccAuthBlock, UpdateAuthBlock, UnknownAuthBlock
    if b[0] == "custkey":
        return InitCustKeyAuthBlock()
    if b[0] == "ecc":
        return InitEccAuthBlock(b[1])
    if b[0] == "update":
        sha(b[1])
        return UpdateAuthBlock(b[1], b[2])
    if b[0] == "unknown":
        return UnknownAuthBlock(b[1], b[2])
    raise ValueError(b)


def q_block(b):
    if b[0] == "custkey":
        return "ABCustKey"
    if b[0] == "ecc":
        return "(ABEcc %s)" % qN(b[1])
    if b[0] == "update":
        sha(b[1])
        return "(ABUpdate %s %s)" % (qbytes(b[1]), qN(b[2]))
    if b[0] == "unknown":
        return "(ABUnknown %s %s)" % (qN(b[1]), qbytes(b[2]))
    raise ValueError(b)


def q_block_obj(a):
    """an implementation AuthBlock object"""
    n = type(a).__name__
    if n == "InitCustKeyAuthBlock":
        return "ABCustKey"
    if n == "InitEccAuthBlock":
        return "(ABEcc %s)" % qN(a.key_selector)
    if n == "UpdateAuthBlock":
        sha(a.config_security_code)
        return "(ABUpdate %s %s)" % (qbytes(a.config_security_code), qN(a.version))
    if n == "UnknownAuthBlock":
        return "(ABUnknown %s %s)" % (qN(a.tag), qbytes(a.binary_value))
    raise ValueError(n)


def q_bec2_obj(b):
    blocks = qlist(["(%s, %s)" % (qN(t), q_block_obj(a)) for t, a in b.auth_blocks.items()], "(N * authblock)")
    return "(mkBec2 %s %s %s)" % (B.qbf3_obj(b.bf3file), blocks, qbytes(b.session_key))


def block_view(a):
    n = type(a).__name__
    if n == "InitCustKeyAuthBlock":
        return ("custkey",)
    if n == "InitEccAuthBlock":
        return ("ecc", a.key_selector)
    if n == "UpdateAuthBlock":
        return ("update", bytes(a.config_security_code), a.version)
    return ("unknown", a.tag, bytes(a.binary_value))


# ---- generators -------------------------------------------------------------

def gen_key(r):
    """16-byte session keys: classes of the last byte"""
    k = bytearray(r.randrange(256) for _ in range(16))
    z = r.choice([0, 0, 1, 2, 3, 16])
    if z:
        k[16 - z:] = bytes(z)
    return bytes(k)


def gen_setup(r, allow_unknown=True):
    """returns (blocks, encryptors for writing, decryptors for reading, recipient privs)"""
    kinds = r.sample(["custkey", "ecc", "update"], r.choice([1, 1, 2, 2, 3]))
    blocks, encs, decs = [], [], []
    for kd in kinds:
        if kd == "custkey":
            ckey = bytes(r.randrange(256) for _ in range(16))
            ck = r.choice([None, None, bytes(r.randrange(256) for _ in range(10))])
            pos = None if ck is None else r.choice([0, 6, 16])
            blocks.append(("custkey",))
            encs.append(("cust", ckey, ck, pos))
            decs.append(("cust", ckey, ck, pos))
        elif kd == "ecc":
            sel = r.randrange(4)
            d = toyecc.keygen(1000 + r.randrange(50))
            blocks.append(("ecc", sel))
            if r.random() < 0.8:
                encs.append(("ecc", sel, None, toyecc.pub_of(d)))
                decs.append(("ecc", sel, d, toyecc.pub_of(d)))
            # else: default recipient, nobody can open it
        else:
            code = bytes(r.randrange(256) for _ in range(8))
            ver = r.choice([0, 1, 127, 255, r.randrange(256)])
            blocks.append(("update", code, ver))
            if r.random() < 0.3:
                encs.append(("csc", code))
            decs.append(("csc", code))
    # distractors: further encryptors of the same kinds that do NOT match (other selector, listed
    # before the matching one): select_encryptor must skip them
    if r.random() < 0.5:
        for kd in kinds:
            if kd == "ecc":
                sel0 = [b[1] for b in blocks if b[0] == "ecc"][0]
                for osel in r.sample([x for x in range(4) if x != sel0], r.choice([1, 2, 3])):
                    od = toyecc.keygen(3000 + osel)
                    encs.insert(0, ("ecc", osel, None, toyecc.pub_of(od)))
                    decs.insert(0, ("ecc", osel, od, toyecc.pub_of(od)))
    if allow_unknown and r.random() < 0.2:
        blocks.append(("unknown", r.choice([4, 9, 0x7F, 0xFF]), bytes(r.randrange(256) for _ in range(r.randrange(0, 20)))))
    r.shuffle(blocks)
    return blocks, encs, decs


def impl_bec2_write(comments, comps, blocks, key, encs, ToyPub, ToyPriv):
    from bec2format.bec2file import Bec2File

    def go():
        b = Bec2File(B.build(comments, comps), [mk_block(x) for x in blocks], key)
        s = io.StringIO()
        b.write_file(s, [mk_encryptor(e, ToyPub, ToyPriv) for e in encs])
        return s.getvalue()
    return run_impl(go)


def impl_bec2_read(text, decs, check, ToyPub, ToyPriv):
    from bec2format.bec2file import Bec2File
    return run_impl(lambda: Bec2File.read_file(io.StringIO(text), [mk_encryptor(e, ToyPub, ToyPriv) for e in decs], check))
