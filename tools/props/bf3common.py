"""Shared generators, Coq printers and implementation runners for the BF3/BEC2
container layer (C01..C07, C14)."""
import io
import os
import tempfile

from vlib import qN, qbytes, qlist, qopt, qres, qbool, run_impl
from props import toycipher

IMPORTS = "From Bec2 Require Import Gen.Consts Model.Cbc Model.Bf3 Model.Bf3Eq."
PRE = toycipher.TOY_COQ

TAG_IDS = [0, 1, 0x7F, 0xC1, 0xC2, 0xC3, 0xC4, 0xC5, 0xC6, 0xC7, 0xC8, 0xC9, 0xFF]
PAYLOAD_LENS = list(range(1, 49)) + [63, 64, 65, 79, 80, 81, 255, 256, 257, 1023]


def qstr(s):
    if all(ord(c) < 256 for c in s):
        if not s:
            return "(@nil N)"
        return "(L1 %d 0x%s)" % (len(s), s.encode("latin-1").hex())
    return qlist([qN(ord(c)) for c in s], "N")


def qdesc(d):
    return qlist(["(%s, %s)" % (qN(k), qbytes(v)) for k, v in d.items()], "(N * bytes)")


def qcomp_new(c):
    """a component as the caller constructs it: Bf3Component(desc, blob, actual_len, enc)"""
    desc, blob, alen, enc = c
    return "(mk_comp %s %s %s %s)" % (qdesc(desc), qbytes(blob), qopt(alen, qN), qbool(enc))


def qcomp_obj(comp):
    """an implementation Bf3Component object (fields as they are)"""
    return "(mkComp %s %s %s %s)" % (qdesc(comp.description), qbytes(comp.blob), qN(comp.actual_len),
                                     qbool(bool(comp.encrypt_by_session_key)))


def qcomments(cm):
    return qlist(["(%s, %s)" % (qstr(k), qstr(v)) for k, v in cm.items()], "(str * str)")


def qbf3_obj(f):
    return "(mkBf3 %s %s)" % (qcomments(f.comments), qlist([qcomp_obj(c) for c in f.components], "comp"))


def rkey(r):
    return r.choice([bytes(16), bytes(r.randrange(256) for _ in range(16)),
                     bytes(r.randrange(256) for _ in range(15)) + b"\0",
                     bytes(r.randrange(256) for _ in range(13)) + b"\0\0\0"])


def gen_blob(r, n=None):
    n = n if n is not None else r.choice(PAYLOAD_LENS)
    b = bytearray(r.randrange(256) for _ in range(n))
    z = r.choice([0, 0, 0, 1, 2, 15, 16, 17])
    z = min(z, n)
    if z:
        b[n - z:] = bytes(z)
    return bytes(b)


def gen_desc(r, max_total=210, enc=False):
    ntags = r.choice([0, 1, 1, 2, 3, 6])
    ids = r.sample([t for t in TAG_IDS if t != 0xC2], min(ntags, len(TAG_IDS) - 1))
    d = {}
    total = 0
    for t in ids:
        ln = r.choice([0, 1, 1, 2, 4, 100, 127, 128, 129, 180, 203, 255])
        if total + 2 + ln > max_total - 5:     # 5: room for the ENC tag added below
            ln = r.choice([0, 1, 2])
            if total + 2 + ln > max_total - 5:
                break
        total += 2 + ln
        d[t] = bytes(r.randrange(256) for _ in range(ln))
    if enc:
        d[0xC2] = b"\x02"
        if r.random() < 0.5:   # vary insertion position
            d = dict(sorted(d.items(), key=lambda kv: r.random()))
    elif r.random() < 0.15:
        # ENC tag present but not the one-byte SESSIONKEY value (incl. values that are 2 as integers)
        d[0xC2] = r.choice([b"\x00", b"\x01", b"", b"\x02\x00", b"\x00\x02", b"\x00\x00\x02", b"\x02\x02"])
    size = sum(2 + len(v) for v in d.values())
    if max_total == 210 and size < 210 and r.random() < 0.12:
        # fill the tag list up to the largest size a directory entry can hold (45 + 210 = 255)
        ks = [t for t in d if t != 0xC2 and len(d[t]) + (210 - size) <= 255]
        if ks:
            t = r.choice(ks)
            d[t] = d[t] + bytes(r.randrange(256) for _ in range(210 - size))
    return d


def gen_comp(r, enc=False, oversize=False):
    blob = gen_blob(r)
    alen = r.choice([None, None, 1, max(1, len(blob) // 2), max(1, len(blob) - 1), len(blob)])
    desc = gen_desc(r, 300 if oversize else 210, enc)
    return (desc, blob, alen, enc)


ALPHA = "abcXYZ019 _-./()äÿ#=;!\"'"


def gen_comments(r):
    n = r.choice([0, 0, 1, 2, 4])
    cm = {}
    for _ in range(n):
        k = "".join(r.choice(ALPHA) for _ in range(r.randrange(0, 8)))
        v = "".join(r.choice(ALPHA + ":") for _ in range(r.randrange(0, 12))).strip()
        cm[k] = v
    return cm


def gen_file(r, enc_prob=0.0, max_comps=4):
    n = r.choice([0, 1, 1, 2, 3, max_comps])
    comps = [gen_comp(r, enc=(r.random() < enc_prob)) for _ in range(n)]
    return gen_comments(r), comps


def build(comments, comps):
    from bec2format.bf3file import Bf3File, Bf3Component
    return Bf3File(dict(comments), [Bf3Component(dict(d), b, a, e) for d, b, a, e in comps])


def qfile_new(comments, comps):
    return "(mkBf3 %s %s)" % (qcomments(comments), qlist([qcomp_new(c) for c in comps], "comp"))


def impl_write(f, key):
    def go():
        s = io.StringIO()
        f.write_file(s, key)
        return s.getvalue()
    return run_impl(go)


def impl_write_path(f, key):
    """write through a file path (newline='\\r\\n') and return the raw file content"""
    def go():
        fd, path = tempfile.mkstemp(prefix="verif_bf3_", dir="/var/tmp")
        os.close(fd)
        try:
            f.write_file(path, key)
            with open(path, "rb") as fh:
                return fh.read().decode()
        finally:
            os.remove(path)
    return run_impl(go)


def impl_read(text, check, key):
    from bec2format.bf3file import Bf3File
    return run_impl(lambda: Bf3File.read_file(io.StringIO(text), check, key))


def impl_read_path(raw_text, check, key):
    from bec2format.bf3file import Bf3File

    def go():
        fd, path = tempfile.mkstemp(prefix="verif_bf3_", dir="/var/tmp")
        os.close(fd)
        try:
            with open(path, "wb") as fh:
                fh.write(raw_text.encode())
            return Bf3File.read_file(path, check, key)
        finally:
            os.remove(path)
    return run_impl(go)


def file_view(f):
    """canonical python view of a Bf3File object"""
    return (list(f.comments.items()),
            [(list(c.description.items()), bytes(c.blob), c.actual_len, bool(c.encrypt_by_session_key))
             for c in f.components])


def text_of_binary(comments, binary):
    """what write_bf3_format would print (independent re-implementation for crafted binaries)"""
    out = "".join("%s: %s\n" % kv for kv in comments.items()) + "\n"
    for pos in range(0, len(binary) + 39, 40):
        out += binary[pos:pos + 40].hex().upper() + "\n"
    return out
