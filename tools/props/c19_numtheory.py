"""C19, number-theory part: numbertheory.jacobi / polynomial_* / square_root_mod_prime and compressed
points decoded through the model's own square root (coq/Model/NumTheory.v, sqrt_mod_model).

correspondence_nt(ctx): the model against the implementation, compared inside Coq:
  * jacobi and square_root_mod_prime for EVERY prime p < 300 and every a in [0, p) (one Coq list
    comparison per prime; a disagreement is narrowed down to the single argument), arguments
    outside [0, p), even / small / composite moduli (JacobiError, the two SquareRootErrors, the
    `assert d == p - 1`, RuntimeError("No b found.")), random odd composite n for jacobi;
  * polynomial_reduce_mod / polynomial_multiply_mod / polynomial_exp_mod on random polynomials
    and the malformed shapes (non-monic, one coefficient, empty, exponent >= p);
  * square_root_mod_prime on the 17 curve primes for random residues and non-residues;
  * AbstractPoint.from_bytes / VerifyingKey.from_string of compressed strings through
    point_from_bytes / vk_from_string instantiated with sqrt_mod_model: every x on small curves
    covering all four branches of the square root, and on the shipped curves both parities of y
    and abscissae without a point (MalformedPointError).
search_nt(ctx, S): the property predicate on the implementation alone: every affine point of small
  curves (p % 8 in {1, 3, 5, 7}, points with y = 0 included) and random points of the shipped curves
  survive to_bytes("compressed") -> from_bytes, in both parities; an abscissa without a point is
  rejected with MalformedPointError.
"""
import time

import vlib
from vlib import qlist, qopt

NT_IMPORTS = "From Bec2 Require Import Gen.KeyOids Model.Der Model.KeyCodec Model.NumTheory."
NT_PREAMBLE = """
Fixpoint zrange (n : nat) (lo : Z) : list Z := match n with O => [] | S k => lo :: zrange k (lo + 1)%Z end.
Definition RZ := res_eqb Z.eqb.
Definition RL := res_eqb (list_eqb Z.eqb).
Definition RZs := list_eqb (res_eqb Z.eqb).
Definition edv0 (w : bool) (e : bytes) : result vkey := Ok (VkEd w e).
Definition ok_true (c : curve) (x y : N) : bool := true.
Definition ok_false (c : curve) (x y : N) : bool := false.
Definition RP := res_eqb (prod_eqb N.eqb N.eqb).
"""

SMALL_PRIMES = [p for p in range(2, 300) if all(p % d for d in range(2, int(p ** 0.5) + 1))]


def qN(n):
    return vlib.qN(n) if n < (1 << 32) else "0x%x%%N" % n


def qZ(n):
    if abs(n) < (1 << 32):
        return vlib.qZ(n)
    return "(0x%x)%%Z" % n if n >= 0 else "(Z.opp 0x%x%%Z)" % -n


def qZl(l):
    return qlist([qZ(int(x)) for x in l], "Z")


def canon_nt(e, base_canon):
    """numbertheory's own exceptions (Model/NumTheory.v: ESquareRoot, EJacobi, ERuntime)"""
    n = type(e).__name__
    if n == "SquareRootError":
        return "EBare"
    if n == "JacobiError":
        return "EKey"
    if type(e) is RuntimeError:
        return "ENotImpl"
    return base_canon(e)


def run_nt(base_canon, f, *a):
    try:
        return ("ok", f(*a))
    except Exception as e:       # noqa
        return ("err", canon_nt(e, base_canon))


def in_enum(r):
    return r[0] == "ok" or not r[1].startswith("EOther_")


def qrz(r):
    return "(Ok %s)" % qZ(int(r[1])) if r[0] == "ok" else "(Err %s)" % r[1]


def qrl(r):
    return "(Ok %s)" % qZl(r[1]) if r[0] == "ok" else "(Err %s)" % r[1]


def is_residue(a, p):
    a %= p
    return a == 0 or p == 2 or pow(a, (p - 1) // 2, p) == 1


def small_curves(I):
    """(p, a, b): small prime fields hitting every branch of square_root_mod_prime
    (p % 4 == 3, p % 8 == 5, p % 8 == 1), non-singular, several with points of order 2 (y = 0)"""
    out = []
    for p in (7, 11, 13, 17, 19, 29, 37, 41, 73, 97, 101, 229, 233, 239, 241, 251):
        for a, b in ((1, 0), (0, 7), (p - 3, 5), (2, 3)):
            if (4 * a ** 3 + 27 * b ** 2) % p:
                out.append((p, a % p, b % p))
    return out


# ---------------------------------------------------------------------------------------------------

class Batch:
    """cases with a cost estimate; heavy ones get a coqc process of their own"""

    def __init__(self):
        self.items = []      # (expr, what, data, impl result, refine, cost)

    def add(self, what, expr, data, res=None, refine=None, cost=0.01):
        self.items.append((expr, what, data, res, refine, cost))


def correspondence_nt(ctx, base_canon, impl, q_curve, qb, Recorder):
    I = impl()
    nt = I.nt
    r = ctx.rng
    t0 = time.time()
    B = Batch()
    run = lambda f, *a: run_nt(base_canon, f, *a)     # noqa

    # 1. jacobi / square_root_mod_prime: every prime < 300, every a in [0, p)
    for p in SMALL_PRIMES:
        if p >= 3:
            exp = [run(nt.jacobi, a, p) for a in range(p)]
            B.add("jacobi/all a mod prime", "RZs (map (fun a => jacobi a %s) (zrange %d 0%%Z)) %s" % (
                qZ(p), p, qlist([qrz(e) for e in exp], "(result Z)")), ("jacobi", p), None,
                [("jacobi", "RZ (jacobi %s %s) %s" % (qZ(a), qZ(p), qrz(exp[a])), (a, p), exp[a]) for a in range(p)], 0.02)
        exp = [run(nt.square_root_mod_prime, a, p) for a in range(p)]
        B.add("sqrt/all a mod prime", "RZs (map (fun a => square_root_mod_prime a %s) (zrange %d 0%%Z)) %s" % (
            qZ(p), p, qlist([qrz(e) for e in exp], "(result Z)")), ("sqrt", p), None,
            [("square_root_mod_prime", "RZ (square_root_mod_prime %s %s) %s" % (qZ(a), qZ(p), qrz(exp[a])), (a, p), exp[a])
             for a in range(p)], 0.05)
    # 1b. outside the domain: a < 0, a >= p, p < 2, composite p (every a), even / small n for jacobi
    for p in (0, 1, 2, 3, 5, 13, 17, 29):
        for a in (-1, -p, p, p + 1, p + 5):
            e = run(nt.square_root_mod_prime, a, p)
            if in_enum(e):
                B.add("sqrt/out of range", "RZ (square_root_mod_prime %s %s) %s" % (qZ(a), qZ(p), qrz(e)), (a, p), e)
    for p in [n for n in range(4, ctx.budget(64, 130)) if n not in SMALL_PRIMES]:
        for a in range(p):
            e = run(nt.square_root_mod_prime, a, p)
            if in_enum(e):
                B.add("sqrt/composite modulus", "RZ (square_root_mod_prime %s %s) %s" % (qZ(a), qZ(p), qrz(e)), (a, p), e)
    for n in list(range(-3, 12)) + [14, 16, 100, 2 ** 64]:
        for a in (0, 1, 2, 5, -7, n + 1):
            e = run(nt.jacobi, a, n)
            if in_enum(e):
                B.add("jacobi/small or even n", "RZ (jacobi %s %s) %s" % (qZ(a), qZ(n), qrz(e)), (a, n), e)
    for _ in range(ctx.budget(150, 1500)):
        bits = r.choice([8, 16, 31, 32, 33, 64, 128, 255, 521])
        n = r.getrandbits(bits) | 1
        a = r.choice([r.getrandbits(bits), r.getrandbits(bits + 7), -r.getrandbits(bits), r.randrange(20), n * r.randrange(4)])
        e = run(nt.jacobi, a, n)
        if in_enum(e):
            B.add("jacobi/random odd n", "RZ (jacobi %s %s) %s" % (qZ(a), qZ(n), qrz(e)), (a, n), e)
    # 2. polynomials
    moduli = [2, 3, 5, 7, 13, 97, 251, 2 ** 31 - 1, 2 ** 127 - 1, int(I.W[2].curve.p())]
    for _ in range(ctx.budget(120, 1200)):
        p = r.choice(moduli)
        coef = lambda: r.choice([0, 1, p - 1, r.randrange(p), r.randrange(p), -r.randrange(p), r.randrange(3 * p)])   # noqa
        deg = r.choice([1, 2, 2, 2, 3])
        polymod = [coef() for _ in range(deg)] + [r.choice([1, 1, 1, 1, 1, 1, 0, 2])]
        if r.random() < 0.08:
            polymod = r.choice([[], [1], [5], polymod[:-1]])
        poly = [coef() for _ in range(r.choice([0, 1, 2, 3, 4, 5, 6]))]
        e = run(lambda: nt.polynomial_reduce_mod(list(poly), polymod, p))
        if in_enum(e):
            B.add("polynomial_reduce_mod", "RL (polynomial_reduce_mod %s %s %s) %s" % (qZl(poly), qZl(polymod), qZ(p), qrl(e)),
                  (poly, polymod, p), e)
        m1 = [coef() for _ in range(r.choice([0, 1, 2, 2, 3]))]
        m2 = [coef() for _ in range(r.choice([0, 1, 2, 2, 3]))]
        e = run(nt.polynomial_multiply_mod, m1, m2, polymod, p)
        if in_enum(e):
            B.add("polynomial_multiply_mod", "RL (polynomial_multiply_mod %s %s %s %s) %s" % (
                qZl(m1), qZl(m2), qZl(polymod), qZ(p), qrl(e)), (m1, m2, polymod, p), e)
        ex = r.choice([0, 1, 2, 3, 4, 7, 8, (p + 1) // 2, r.randrange(p), r.randrange(p), p - 1, p, p + 3, -1, -2])
        if p.bit_length() > 64 and r.random() < (0.9 if ctx.quick() else 0.6):
            ex = r.choice([0, 1, 2, 3, 5, 8, 65537, r.getrandbits(24), p, p + 3, -1, -2])   # long exponents are slow in the model
        base = [coef() for _ in range(r.choice([1, 2, 2, 2, 3]))]
        if len(polymod) == 3 and polymod[-1] == 1 and r.random() < 0.5:
            base = [0, 1]
        e = run(nt.polynomial_exp_mod, tuple(base), ex, tuple(polymod), p)
        if in_enum(e):
            B.add("polynomial_exp_mod", "RL (polynomial_exp_mod %s %s %s %s) %s" % (
                qZl(base), qZ(ex), qZl(polymod), qZ(p), qrl(e)), (base, ex, polymod, p), e,
                cost=0.01 + max(0, ex.bit_length()) * 2 * 0.015 * (p.bit_length() / 224.0) ** 2)
    # 3. the curve primes: residues and non-residues
    for c in I.W:
        p = int(c.curve.p())
        bits = p.bit_length()
        generic = p % 4 != 3 and p % 8 != 5
        res_cost = (bits / 521.0) ** 3 * (60.0 if generic else 7.0) + 0.05
        n_res = ctx.budget(1, 4) if (bits > 300 or generic) else ctx.budget(2, 6)
        done_r = done_n = 0
        cands = [r.randrange(2, p - 1) for _ in range(40)] + [0, 1, p - 1]
        for a in cands:
            qr = is_residue(a, p)
            if qr and done_r >= n_res and 1 < a < p - 1:
                continue
            if a == p - 1 and qr and ctx.quick():
                continue
            if not qr and done_n >= ctx.budget(2, 8):
                continue
            e = run(nt.square_root_mod_prime, a, p)
            done_r += qr
            done_n += not qr
            B.add("sqrt/curve prime/%s" % ("residue" if qr else "non-residue"),
                  "RZ (square_root_mod_prime %s %s) %s" % (qZ(a), qZ(p), qrz(e)), (c.name, a), e,
                  cost=res_cost if (qr and a > 1) else 0.05)
            ej = run(nt.jacobi, a, p)
            B.add("jacobi/curve prime", "RZ (jacobi %s %s) %s" % (qZ(a), qZ(p), qrz(ej)), (c.name, a), ej, cost=0.03)
    # 4. compressed strings through the instantiated model
    E = I.ec
    sc = small_curves(I)
    if ctx.quick():
        sc = [t for i, t in enumerate(sc) if i % 4 == ctx.seed % 4 or t[0] in (13, 17, 229, 233)]
    for (p, a, b) in sc:
        cv = E.CurveFp(p, a, b)
        qc = "(mkCurve %s %s %s 0%%N 0%%N 0%%N None None)" % (qN(p), qZ(a), qZ(b))
        exprs, exp = [], []
        for tag in (2, 3):
            for x in list(range(min(256, p + 4))) + [255]:
                data = bytes([tag, x])
                e = run(lambda: E.AbstractPoint().from_bytes(cv, data, True, ["compressed"]))
                if not in_enum(e):
                    continue
                want = "(Ok (%s, %s))" % (qN(int(e[1][0])), qN(int(e[1][1]))) if e[0] == "ok" else "(Err %s)" % e[1]
                exprs.append(("from_bytes/compressed/small curve",
                              "RP (point_from_bytes sqrt_mod_model %s %s true (mkEncs false false true false)) %s" % (qc, qb(data), want),
                              ((p, a, b), data), e))
        B.add("from_bytes/compressed/small curve/all x", "forallb (fun b : bool => b) %s" % qlist([x[1] for x in exprs], "bool"),
              (p, a, b), None, exprs, 0.002 * len(exprs))
    K = I.keys
    for c in I.W:
        p = int(c.curve.p())
        bits = p.bit_length()
        generic = p % 4 != 3 and p % 8 != 5
        cost = (bits / 521.0) ** 3 * (60.0 if generic else 7.0) + 0.1
        pt = (c.generator * r.randrange(1, int(c.order))).to_affine()
        x, y = int(pt.x()), int(pt.y())
        l = (p.bit_length() + 7) // 8
        variants = [("valid", bytes([2 + (y & 1)]) + x.to_bytes(l, "big"), cost)]
        if bits <= 300 or not ctx.quick():
            variants.append(("other parity", bytes([3 - (y & 1)]) + x.to_bytes(l, "big"), cost))
        xn = next(v for v in (r.randrange(p) for _ in range(200))
                  if not is_residue(v * v * v + int(c.curve.a()) * v + int(c.curve.b()), p))
        variants.append(("no point", bytes([2 + r.randrange(2)]) + xn.to_bytes(l, "big"), 0.1))
        variants.append(("bad tag", bytes([r.choice([0, 1, 5, 8, 0x82])]) + x.to_bytes(l, "big"), 0.05))
        for what, s, cst in variants:
            with Recorder() as rec:
                e = run(lambda: K.VerifyingKey.from_string(s, c, validate_point=True, valid_encodings=["compressed"]))
            if rec.unmodelled or not in_enum(e):
                continue
            okf = "ok_true"
            if c.curve.cofactor() != 1:
                # n * P == INFINITY is an external function of the model: take the implementation's answer
                okf = "ok_false" if any(m[6] is False and m[5] == int(c.order) and m[7][0] == "ok" for m in rec.mul) else "ok_true"
            want = "(Ok (VkW %s %s %s))" % (q_curve(c), qN(int(e[1].pubkey.point.x())), qN(int(e[1].pubkey.point.y()))) \
                if e[0] == "ok" else "(Err %s)" % e[1]
            B.add("vk_from_string/compressed/model sqrt/%s" % what,
                  "res_eqb vkey_same (vk_from_string sqrt_mod_model %s edv0 (CW %s) %s true (mkEncs false false true false)) %s" % (
                      okf, q_curve(c), qb(s), want), (c.name, s), e, cost=cst)
    ctx.extra["nt_correspondence_impl_s"] = round(time.time() - t0, 1)

    # evaluation: one wave of coqc processes; the cases are dealt to NPROC bins of equal length,
    # most expensive first, so that the long exponentiations run in parallel
    nb = max(1, min(vlib.NPROC, len(B.items) // 20))
    order = sorted(range(len(B.items)), key=lambda i: -B.items[i][5])
    bins = [[] for _ in range(nb)]
    load = [0.0] * nb
    size = -(-len(order) // nb)
    for i in order:
        k = min((j for j in range(nb) if len(bins[j]) < size), key=lambda j: load[j])
        bins[k].append(i)
        load[k] += B.items[i][5]
    flat = []
    for b in bins:
        flat += b + [None] * (size - len(b))
    ctx.extra["nt_estimated_cpu_s"] = round(sum(load), 1)
    bad = ctx.coq_eval("c19nt", NT_IMPORTS, ["true" if i is None else B.items[i][0] for i in flat],
                       preamble=NT_PREAMBLE, shard=size, timeout=1500)
    if bad is None:
        return
    bad_items = [B.items[flat[i]] for i in bad if flat[i] is not None]
    for expr, what, data, res, refine, cost in B.items:
        n = len(refine) if refine else 1
        ctx.traces += n
        ctx.dist["nt:" + what] += n
        if refine:
            for sub in refine:
                ctx.case((sub[0], sub[2]))
        else:
            ctx.case((what, data), trivial=(data in ((0, 0),)))
    # narrow the batched disagreements down to single arguments
    singles = []
    for expr, what, data, res, refine, cost in bad_items:
        if refine:
            sub_bad = ctx.coq_eval("c19ntr", NT_IMPORTS, [s[1] for s in refine], preamble=NT_PREAMBLE, shard=200)
            if sub_bad is None:
                return
            singles += [refine[i] for i in sub_bad] or [(what, expr, data, res)]
        else:
            singles.append((what, expr, data, res))
    ctx.extra["nt_correspondence_total_s"] = round(time.time() - t0, 1)
    for what, expr, data, res in singles[:12]:
        ctx.broken("correspondence: Model.NumTheory differs from the implementation on %s" % what,
                   {"case": repr(data)[:600], "impl": repr(res)[:300], "expr": expr[:1500]})


# ---------------------------------------------------------------------------------------------------

def search_nt(ctx, S):
    """compressed round trip and rejection, on the implementation alone"""
    I, r = S.I, S.r
    E = I.ec
    Malformed = I.errors.MalformedPointError

    def one(cv, name, params, x, y, p):
        l = (p.bit_length() + 7) // 8
        pt = E.PointJacobi(cv, x, y, 1)
        enc = pt.to_bytes("compressed")
        want = bytes([2 + (y & 1)]) + x.to_bytes(l, "big")
        info = {"decoder": "AbstractPoint.from_bytes", "curve": name, "small_curve": params, "input": enc,
                "point": [str(x), str(y)], "how": "compressed point"}
        ctx.case(("compressed", name, x, y))
        S.count("compressed-point:%s" % ("small" if params else "shipped"))
        if enc != want:
            S.fail("encoding-bytes:compressed-point", dict(info, got=enc, expected=want), "to_bytes('compressed') differs from 02/03 || x")
        try:
            got = E.AbstractPoint().from_bytes(cv, enc, True, ["compressed"])
        except Exception as e:      # noqa
            S.fail("roundtrip-raises:compressed-point", dict(info, exception=type(e).__name__),
                   "decoding the compressed encoding of the point (%d, %d) raised %s: %s" % (x, y, type(e).__name__, str(e)[:80]))
            return
        if (int(got[0]), int(got[1])) != (x, y):
            S.fail("roundtrip-differs:compressed-point", dict(info, decoded=[str(int(got[0])), str(int(got[1]))]),
                   "the compressed encoding of (%d, %d) decodes to (%d, %d)" % (x, y, int(got[0]), int(got[1])))

    def no_point(cv, name, params, x, p):
        l = (p.bit_length() + 7) // 8
        for tag in (2, 3):
            enc = bytes([tag]) + x.to_bytes(l, "big")
            info = {"decoder": "AbstractPoint.from_bytes", "curve": name, "small_curve": params, "input": enc,
                    "how": "abscissa without a point on the curve"}
            ctx.case(("no-point", name, x, tag))
            S.count("compressed-no-point:%s" % ("small" if params else "shipped"))
            try:
                got = E.AbstractPoint().from_bytes(cv, enc, True, ["compressed"])
            except Malformed:
                continue
            except Exception as e:   # noqa
                S.fail("undocumented-error:%s:AbstractPoint.from_bytes" % type(e).__name__, dict(info, exception=type(e).__name__),
                       "x = %d has no point on the curve; expected MalformedPointError, got %s" % (x, type(e).__name__))
                continue
            S.fail("no-point-accepted:AbstractPoint.from_bytes", dict(info, decoded=[str(int(got[0])), str(int(got[1]))]),
                   "x = %d has no point on the curve, yet the string decodes to (%d, %d)" % (x, int(got[0]), int(got[1])))

    # every affine point of the small curves
    for (p, a, b) in small_curves(I):
        cv = E.CurveFp(p, a, b)
        name = "y^2=x^3+%dx+%d mod %d" % (a, b, p)
        roots = {}
        for y in range(p):
            roots.setdefault(y * y % p, []).append(y)
        for x in range(p):
            al = (x * x * x + a * x + b) % p
            if al in roots:
                for y in roots[al]:
                    one(cv, name, [p, a, b], x, y, p)
            else:
                no_point(cv, name, [p, a, b], x, p)
    # the shipped curves: random points in both parities, abscissae without a point; the point of
    # order 2 of a curve with an even cofactor (y = 0)
    for c in I.W:
        p, a, b = int(c.curve.p()), int(c.curve.a()), int(c.curve.b())
        n_pts = ctx.budget(3, 12) if not ctx.brokens else 40
        for _ in range(n_pts):
            # a random point from a random residue abscissa, by an independent square root where cheap
            pt = (c.generator * r.randrange(1, int(c.order))).to_affine()
            x, y = int(pt.x()), int(pt.y())
            one(c.curve, c.name, None, x, y, p)
            one(c.curve, c.name, None, x, p - y, p)
        done = 0
        while done < n_pts:
            x = r.randrange(p)
            if not is_residue(x * x * x + a * x + b, p):
                no_point(c.curve, c.name, None, x, p)
                done += 1
        h = c.curve.cofactor()
        if h and h % 2 == 0:
            for _ in range(20):
                x = r.randrange(p)
                al = (x * x * x + a * x + b) % p
                if al == 0 or not is_residue(al, p) or p % 4 != 3:
                    continue
                y = pow(al, (p + 1) // 4, p)
                t = E.PointJacobi(c.curve, x, y, 1) * (int(c.order) * (h // 2))
                if t == E.INFINITY:
                    continue
                t = t.to_affine()
                if int(t.y()) == 0:
                    ctx.dist["point of order 2 found on %s" % c.name] += 1
                    one(c.curve, c.name, None, int(t.x()), 0, p)
                    break


def replay_nt(I, f):
    """returns None when the record is not one of ours, else 0/1"""
    d = f["data"]
    if d.get("decoder") != "AbstractPoint.from_bytes":
        return None
    E = I.ec
    inp = d.get("input")
    b = bytes.fromhex(inp["hex"]) if isinstance(inp, dict) else inp
    if d.get("small_curve"):
        p, a, bb = d["small_curve"]
        cv = E.CurveFp(p, a, bb)
    else:
        cv = [c for c in I.W if c.name == d.get("curve")][0].curve
    print(" decoder: AbstractPoint().from_bytes(curve, data, True, ['compressed'])  curve:", d.get("curve"))
    print(" input:", b.hex(), " how:", d.get("how"))
    if d.get("point"):
        print(" encoded point:", d["point"])
    try:
        got = E.AbstractPoint().from_bytes(cv, b, True, ["compressed"])
        got = [str(int(got[0])), str(int(got[1]))]
        print(" implementation -> decoded point", got)
        bad = f["kind"].startswith("no-point-accepted") or (d.get("point") is not None and got != d["point"])
    except Exception as e:   # noqa
        print(" implementation -> %s: %s" % (type(e).__name__, str(e)[:200]))
        bad = f["kind"].startswith(("roundtrip", "undocumented-error"))
    print(" reproduces:", bad)
    return 1 if bad else 0
