"""C20 helper: run the REAL ecdsa._rwlock.RWLock under a deterministic scheduler and
explore its complete state space.

Each logical thread is a Python thread that is advanced one traced source line of
_rwlock.py at a time (sys.settrace in the thread + two binary semaphores for the
hand-over).  `threading.Lock` is replaced, for the RWLock under test only, by an
instrumented non-blocking lock: acquiring a held lock reports "blocked" to the
scheduler instead of blocking the OS thread, so the blocked set is observable.

Nothing here knows the model: states are identified by (lock bits, counters,
per-thread stack of (function, line) positions, phase)."""
import _thread
import sys
import threading
import time

HANDOVER_TIMEOUT = 20.0


class HarnessError(Exception):
    pass


class _Abort(BaseException):
    pass


class _Ctl(object):
    """base of the controlled stand-ins for threading primitives.  A thread that
    cannot proceed reports ("blocked", primitive, still_blocked) to the scheduler
    and is only resumed when still_blocked() is false."""

    def __init__(self, run):
        self.run = run

    def _me(self):
        return self.run.tid_of.get(_thread.get_ident())

    def _wait_while(self, cond, blocking=True):
        while cond():
            if not blocking:
                return False
            self.run._blocked_on(self, cond)
        return True

    def __enter__(self):
        self.acquire()
        return self

    def __exit__(self, *a):
        self.release()


class InstrLock(_Ctl):
    """threading.Lock: binary semaphore without owner"""
    kind = "Lock"

    def __init__(self, run):
        _Ctl.__init__(self, run)
        self.held = False

    def acquire(self, blocking=True, timeout=-1):
        if not self._wait_while(lambda: self.held, blocking):
            return False
        self.held = True
        return True

    def release(self):
        if not self.held:
            raise RuntimeError("release unlocked lock")
        self.held = False

    def locked(self):
        return self.held

    def state(self):
        return self.held


class CtlRLock(_Ctl):
    """threading.RLock: owner + recursion count; only the owner may release"""
    kind = "RLock"

    def __init__(self, run):
        _Ctl.__init__(self, run)
        self.owner = None
        self.count = 0

    @property
    def held(self):
        return self.count > 0

    def acquire(self, blocking=True, timeout=-1):
        me = self._me()
        if self.count and self.owner == me:
            self.count += 1
            return True
        if not self._wait_while(lambda: self.count > 0, blocking):
            return False
        self.owner, self.count = me, 1
        return True

    def release(self):
        if self.count == 0 or self.owner != self._me():
            raise RuntimeError("cannot release un-acquired lock")
        self.count -= 1
        if self.count == 0:
            self.owner = None

    def locked(self):
        return self.count > 0

    def _is_owned(self):
        return self.count > 0 and self.owner == self._me()

    def state(self):
        return ("RLock", self.owner, self.count)


class CtlSemaphore(_Ctl):
    kind = "Semaphore"

    def __init__(self, run, value=1, bound=None):
        _Ctl.__init__(self, run)
        if value < 0:
            raise ValueError("semaphore initial value must be >= 0")
        self.value = value
        self.bound = bound

    @property
    def held(self):
        return self.value == 0

    def acquire(self, blocking=True, timeout=None):
        if not self._wait_while(lambda: self.value == 0, blocking):
            return False
        self.value -= 1
        return True

    def release(self, n=1):
        if self.bound is not None and self.value + n > self.bound:
            raise ValueError("Semaphore released too many times")
        self.value += n

    def state(self):
        return ("Semaphore", self.value)


class CtlEvent(_Ctl):
    kind = "Event"

    def __init__(self, run):
        _Ctl.__init__(self, run)
        self.flag = False
    held = False

    def is_set(self):
        return self.flag

    def set(self):
        self.flag = True

    def clear(self):
        self.flag = False

    def wait(self, timeout=None):
        self._wait_while(lambda: not self.flag)
        return True

    def state(self):
        return ("Event", self.flag)


class CtlCondition(_Ctl):
    kind = "Condition"

    def __init__(self, run, lock=None):
        _Ctl.__init__(self, run)
        self.lock = lock if lock is not None else CtlRLock(run)
        self.waiters = []          # tickets of waiting threads
        self.woken = set()
        self.acquire = self.lock.acquire
        self.release = self.lock.release
    held = False

    def __enter__(self):
        self.lock.acquire()
        return self

    def __exit__(self, *a):
        self.lock.release()

    def wait(self, timeout=None):
        me = self._me()
        saved = None
        if isinstance(self.lock, CtlRLock):
            if not self.lock._is_owned():
                raise RuntimeError("cannot wait on un-acquired lock")
            saved = self.lock.count
            self.lock.count, self.lock.owner = 0, None
        else:
            self.lock.release()
        self.waiters.append(me)
        self._wait_while(lambda: me not in self.woken)
        self.woken.discard(me)
        if saved is not None:
            self.lock._wait_while(lambda: self.lock.count > 0)
            self.lock.owner, self.lock.count = me, saved
        else:
            self.lock.acquire()
        return True

    def wait_for(self, predicate, timeout=None):
        r = predicate()
        while not r:
            self.wait()
            r = predicate()
        return r

    def notify(self, n=1):
        for _ in range(n):
            if self.waiters:
                self.woken.add(self.waiters.pop(0))

    def notify_all(self):
        self.notify(len(self.waiters))

    def state(self):
        return ("Condition", tuple(self.waiters), tuple(sorted(self.woken, key=repr)))


class _Shim(object):
    """replacement for the name `threading` inside _rwlock during construction:
    every primitive the class instantiates becomes its controlled equivalent"""

    def __init__(self, run):
        self._run = run

    def Lock(self):
        return InstrLock(self._run)

    def RLock(self):
        return CtlRLock(self._run)

    def Semaphore(self, value=1):
        return CtlSemaphore(self._run, value)

    def BoundedSemaphore(self, value=1):
        return CtlSemaphore(self._run, value, bound=value)

    def Event(self):
        return CtlEvent(self._run)

    def Condition(self, lock=None):
        return CtlCondition(self._run, lock)

    def __getattr__(self, name):
        return getattr(threading, name)


def rwmod():
    from register_crypto_plugin.ecdsa import _rwlock
    return _rwlock


_REAL_LOCK = type(_thread.allocate_lock())
_REAL_RLOCK = type(threading.RLock())


def _convert(v, run):
    """controlled equivalent of a real primitive (one created outside the shim, e.g.
    at class-definition time), or None"""
    if isinstance(v, _REAL_LOCK):
        n = InstrLock(run)
        n.held = v.locked()
        return n
    if isinstance(v, _REAL_RLOCK):
        return CtlRLock(run)
    if isinstance(v, threading.BoundedSemaphore):
        return CtlSemaphore(run, v._value, bound=v._initial_value)
    if isinstance(v, threading.Semaphore):
        return CtlSemaphore(run, v._value)
    if isinstance(v, threading.Event):
        e = CtlEvent(run)
        e.flag = v.is_set()
        return e
    if isinstance(v, threading.Condition):
        return CtlCondition(run)
    return None


def _attrs(obj):
    """(holder, name, value) for the instance attributes of obj and then the data
    attributes of its class(es): a lock or counter defined at class level is shared
    by all instances and must be seen as ONE object"""
    seen = set()
    for k, v in list(getattr(obj, "__dict__", {}).items()):
        seen.add(k)
        yield obj, k, v
    for cls in type(obj).__mro__:
        if cls is object:
            continue
        for k, v in list(cls.__dict__.items()):
            if k in seen or (k.startswith("__") and k.endswith("__")) or callable(v) \
                    or isinstance(v, (staticmethod, classmethod, property)):
                continue
            seen.add(k)
            yield cls, k, v


def discover(rw, run):
    """(locks, counters) of one RWLock instance, found by walking the object at run
    time.  Locks are identified by object identity (a lock reachable under several
    names is one lock); a real threading.Lock (e.g. created at class-definition time,
    outside the shim) is replaced in place by an instrumented lock for this run.
    locks: [(path, InstrLock)], counters: [(path, (object, attribute name))]"""
    locks, ctrs = [], []
    by_id = {}

    def lock_at(holder, name, v, path):
        if isinstance(v, _Ctl) and v.run is run:
            if id(v) not in by_id:
                by_id[id(v)] = v
                locks.append((path, v))
            return
        # a real primitive, or the controlled one of an earlier run left on a class
        if isinstance(v, _Ctl):
            new = type(v)(run) if not isinstance(v, CtlSemaphore) else CtlSemaphore(run, v.bound or 1, v.bound)
        else:
            new = _convert(v, run)
        setattr(holder, name, new)
        by_id[id(new)] = new
        locks.append((path, new))

    def is_lock(v):
        return isinstance(v, _Ctl) or _convert(v, None) is not None

    mod = type(rw).__module__
    for holder, k, v in _attrs(rw):
        if is_lock(v):
            lock_at(holder, k, v, (k,))
        elif isinstance(v, int) and not isinstance(v, bool):
            ctrs.append(((k,), (rw, k)))
        elif hasattr(v, "__dict__") and type(v).__module__ == mod:
            for holder2, k2, v2 in _attrs(v):
                if is_lock(v2):
                    lock_at(holder2, k2, v2, (k, k2))
                elif isinstance(v2, int) and not isinstance(v2, bool):
                    ctrs.append(((k, k2), (v, k2)))
    return locks, ctrs


class _Worker(object):
    """a persistent OS thread that plays one logical thread of successive runs"""

    def __init__(self, ctl):
        self.ctl = ctl
        self.go = _thread.allocate_lock()
        self.go.acquire()
        self.job = None            # (run, tid)
        self.thread = threading.Thread(target=self._loop, daemon=True)
        self.thread.start()

    def _loop(self):
        while True:
            self.go.acquire()
            job, self.job = self.job, None
            if job is None:
                continue
            run, tid = job
            run._body(tid, self)
            self.ctl.release()     # finished, died or aborted: hand control back


class _Pool(object):
    def __init__(self):
        self.ctl = _thread.allocate_lock()
        self.ctl.acquire()
        self.workers = []

    def get(self, n):
        while len(self.workers) < n:
            self.workers.append(_Worker(self.ctl))
        return self.workers[:n]


_POOL = None


def reset_pool():
    """forget the worker threads (after a failure inside a run their hand-over state is
    unknown; they are daemon threads and stay parked)"""
    global _POOL
    _POOL = None


def pool():
    global _POOL
    if _POOL is None:
        _POOL = _Pool()
    return _POOL


class Run(object):
    """one execution: a fresh RWLock and len(roles) logical threads, each paused
    before the first line of its acquire method."""

    def __init__(self, roles, loop):
        mod = rwmod()
        self.file = mod.__file__
        if self.file.endswith(".pyc"):
            self.file = self.file[:-1]
        self.roles = list(roles)
        self.loop = loop
        self.n = len(roles)
        saved = mod.threading
        mod.threading = _Shim(self)
        try:
            self.rw = mod.RWLock()
        finally:
            mod.threading = saved
        self.locks, self.ctrs = discover(self.rw, self)
        p = pool()
        self.ctl = p.ctl
        self.workers = p.get(self.n)
        self.go = [w.go for w in self.workers]
        self.status = [None] * self.n      # ("pos", stack) | ("blocked", lock) | ("done",) | ("exc", text)
        self.pos = [None] * self.n
        self.phase = ["idle"] * self.n     # "idle" | "cs" (returned from acquire, release not started) | "rel"
        self.aborting = False
        self.alive = [False] * self.n
        self.tid_of = {}
        for tid in range(self.n):
            self.workers[tid].job = (self, tid)
            self.alive[tid] = True
            self.go[tid].release()
            self._wait_ctl()

    # ---- inside the logical threads
    def _pause(self, tid):
        self.ctl.release()
        self.go[tid].acquire()
        if self.aborting:
            raise _Abort()
        if self.phase[tid] == "cs":
            self.phase[tid] = "rel"        # the release method starts executing

    def _stack(self, frame):
        st = []
        f = frame
        while f is not None and f.f_code.co_filename == self.file:
            st.append((f.f_code.co_name, f.f_lineno))
            f = f.f_back
        return tuple(reversed(st))

    def _tracer(self, tid):
        def local(frame, event, arg):
            if event == "line":
                self.pos[tid] = self._stack(frame)
                self.status[tid] = ("pos", self.pos[tid])
                self._pause(tid)
            return local

        def glob(frame, event, arg):
            if event == "call" and frame.f_code.co_filename == self.file:
                return local
            return None
        return glob

    def _blocked_on(self, lock, still_blocked):
        tid = self.tid_of[_thread.get_ident()]
        self.status[tid] = ("blocked", lock, still_blocked)
        self._pause(tid)

    def _body(self, tid, worker):
        self.tid_of[_thread.get_ident()] = tid
        rw = self.rw
        if self.roles[tid] == "R":
            acq, rel = rw.reader_acquire, rw.reader_release
        else:
            acq, rel = rw.writer_acquire, rw.writer_release
        sys.settrace(self._tracer(tid))
        try:
            while True:
                acq()
                self.phase[tid] = "cs"
                rel()
                self.phase[tid] = "idle"
                if not self.loop:
                    break
            self.status[tid] = ("done",)
            self.pos[tid] = "done"
        except _Abort:
            self.status[tid] = ("aborted",)
        except BaseException as e:   # noqa
            self.status[tid] = ("exc", "%s: %s" % (type(e).__name__, e))
            self.pos[tid] = "exc"
        finally:
            sys.settrace(None)
            self.alive[tid] = False

    # ---- scheduler side
    def _wait_ctl(self):
        if not self.ctl.acquire(timeout=HANDOVER_TIMEOUT):
            raise HarnessError("logical thread did not hand control back")

    def step(self, tid):
        """advance thread tid by one source line.  Returns the new status; a
        ("blocked", lock) status means the line (an acquire) could not execute and
        nothing changed."""
        st = self.status[tid]
        if st[0] in ("done", "exc", "aborted"):
            return st
        if st[0] == "blocked" and st[2]():
            return st
        self.go[tid].release()
        self._wait_ctl()
        return self.status[tid]

    def key(self):
        return (tuple(l.state() for _, l in self.locks),
                tuple(getattr(o, a) for _, (o, a) in self.ctrs),
                tuple(self.pos), tuple(self.phase))

    def abort(self):
        self.aborting = True
        for tid in range(self.n):
            if self.alive[tid]:
                self.go[tid].release()
                self._wait_ctl()


class Graph(object):
    """the explored state graph of one configuration"""

    def __init__(self, roles, loop):
        self.roles, self.loop = list(roles), loop
        self.states = {}      # key -> index
        self.keys = []        # index -> key
        self.path = []        # index -> schedule (tuple of thread ids) that first reached it
        self.trans = {}       # (index, tid) -> index | "blocked" | "done" | ("exc", text)
        self.lock_paths = None
        self.lock_kinds = None
        self.ctr_paths = None
        self.steps = 0
        self.replays = 0
        self.nondet = []
        self.truncated = None     # reason when the exploration was cut off
        self.pending = set()      # states with untried threads (only when truncated)

    def add(self, key, path):
        i = self.states.get(key)
        if i is None:
            i = len(self.keys)
            self.states[key] = i
            self.keys.append(key)
            self.path.append(tuple(path))
        return i

    def shortest_paths(self):
        """BFS over the explored transitions: a shortest schedule to every state"""
        best = {0: ()}
        order = [0]
        for s in order:
            for tid in range(len(self.roles)):
                t = self.trans.get((s, tid))
                if isinstance(t, int) and t not in best:
                    best[t] = best[s] + (tid,)
                    order.append(t)
        return best


def _navigate(g, cur, todo, n):
    """shortest path (list of (tid, state)) in the explored graph from cur to a state in todo"""
    prev = {cur: None}
    order = [cur]
    for s in order:
        if s in todo and todo[s]:
            path = []
            while prev[s] is not None:
                p, tid = prev[s]
                path.append((tid, s))
                s = p
            return list(reversed(path))
        for tid in range(n):
            t = g.trans.get((s, tid))
            if isinstance(t, int) and t not in prev:
                prev[t] = (s, tid)
                order.append(t)
    return None


def explore(roles, loop, max_states=25000, deadline=None):
    g = Graph(roles, loop)
    n = len(roles)
    run = Run(roles, loop)
    g.lock_paths = [p for p, _ in run.locks]
    g.lock_kinds = [l.kind for _, l in run.locks]
    g.ctr_paths = [p for p, _ in run.ctrs]
    cur = g.add(run.key(), ())
    todo = {0: set(range(n))}      # state -> thread ids not yet tried
    try:
        while True:
            if deadline is not None and time.time() > deadline:
                g.truncated = "time budget exhausted after %d states" % len(g.keys)
                g.pending = set(s for s, p in todo.items() if p)
                break
            pend = todo.get(cur)
            if not pend:
                todo.pop(cur, None)
                if not todo:
                    break
                # walk along known transitions to the nearest state with untried
                # threads; start a fresh run only when none is reachable that way
                nav = _navigate(g, cur, todo, n)
                if nav is not None:
                    ok = True
                    for tid, want in nav:
                        run.step(tid)
                        g.steps += 1
                        if run.key() != g.keys[want]:
                            g.nondet.append((g.path[cur] + (tid,), g.keys[want], run.key()))
                            ok = False
                            break
                        cur = want
                    if ok:
                        continue
                nxt = min(todo, key=lambda s: len(g.path[s]))
                run.abort()
                run = Run(roles, loop)
                g.replays += 1
                for tid in g.path[nxt]:
                    run.step(tid)
                    g.steps += 1
                if run.key() != g.keys[nxt]:
                    g.nondet.append((g.path[nxt], g.keys[nxt], run.key()))
                    raise HarnessError("replay of a schedule reached a different state (nondeterminism)")
                cur = nxt
                continue
            tid = min(pend)
            pend.discard(tid)
            before = run.key()
            st = run.step(tid)
            g.steps += 1
            if st[0] == "blocked":
                g.trans[(cur, tid)] = "blocked"
                if run.key() != before:
                    g.nondet.append((g.path[cur] + (tid,), before, run.key()))
                continue
            if st[0] == "done" and before[2][tid] == "done":
                g.trans[(cur, tid)] = "done"
                continue
            if st[0] in ("exc", "aborted") and before[2][tid] == "exc":
                g.trans[(cur, tid)] = "done"
                continue
            new = g.add(run.key(), g.path[cur] + (tid,))
            g.trans[(cur, tid)] = new
            if st[0] == "exc":
                g.trans[(cur, tid, "exc")] = st[1]
            if new == len(g.keys) - 1 and not any((new, t) in g.trans for t in range(n)) and new not in todo:
                todo[new] = set(range(n))
            if len(g.keys) > max_states:
                g.truncated = "more than %d states (unbounded counters?)" % max_states
                g.pending = set(s for s, p in todo.items() if p)
                break
            cur = new
    except BaseException:
        try:
            run.abort()
        except BaseException:
            pass
        reset_pool()
        raise
    else:
        try:
            run.abort()
        except Exception:
            reset_pool()
    return g


# ---- the property predicate on an explored graph --------------------------------

def analyse(g):
    """Returns a list of (kind, state index, detail) violations and a summary dict."""
    n = len(g.roles)
    out = []
    share = 0
    nstates = len(g.keys)
    succ = {s: [] for s in range(nstates)}
    for (k, v) in g.trans.items():
        if len(k) == 2 and isinstance(v, int):
            succ[k[0]].append(v)
    for s, key in enumerate(g.keys):
        locks, ctrs, pos, phase = key
        holders = [t for t in range(n) if phase[t] == "cs"]
        wh = [t for t in holders if g.roles[t] == "W"]
        if wh and len(holders) > 1:
            out.append(("mutual-exclusion", s, "holders=%s" % ["%s%d" % (g.roles[t], t) for t in holders]))
        if len([t for t in holders if g.roles[t] == "R"]) >= 2:
            share += 1
        for t in range(n):
            e = g.trans.get((s, t, "exc"))
            if e:
                out.append(("lock-exception", s, "thread %s%d: %s" % (g.roles[t], t, e)))
        alive = [t for t in range(n) if pos[t] not in ("done", "exc")]
        if alive and not succ[s] and s not in g.pending:
            out.append(("deadlock", s, "blocked=%s" % ["%s%d" % (g.roles[t], t) for t in alive]))
    # backward reachability
    pred = {s: [] for s in range(nstates)}
    for s, l in succ.items():
        for t in l:
            pred[t].append(s)

    def can_reach(target):
        seen = set(target)
        work = list(target)
        while work:
            x = work.pop()
            for p in pred[x]:
                if p not in seen:
                    seen.add(p)
                    work.append(p)
        return seen
    if g.truncated:
        pass
    elif g.loop:
        for t in range(n):
            ok = can_reach([s for s, k in enumerate(g.keys) if k[3][t] == "cs"])
            for s in range(nstates):
                if s not in ok and g.keys[s][2][t] != "exc":
                    out.append(("starved-forever", s, "thread %s%d can no longer reach its critical section" % (g.roles[t], t)))
                    break
    else:
        ok = can_reach([s for s, k in enumerate(g.keys) if all(p == "done" for p in k[2])])
        for s in range(nstates):
            if s not in ok:
                out.append(("cannot-finish", s, "the all-finished state is no longer reachable"))
                break
    nr = len([r for r in g.roles if r == "R"])
    if nr >= 2 and share == 0 and not g.truncated:
        out.append(("readers-cannot-share", 0, "no reachable state with two readers in the critical section"))
    summary = {"states": nstates, "transitions": sum(len(v) for v in succ.values()),
               "sharing_states": share, "steps": g.steps, "replays": g.replays}
    if g.truncated:
        summary["truncated"] = g.truncated
    return out, summary
