"""C05 - The reader accepts a binary exactly when it is well-formed and authentic.
Proofs: coq/Properties/C05.v (reader model accepts <-> declarative layout of
Model/Layout.v; returned content = what the fields say).
Inputs: valid files (written by the implementation and by the field-list-driven emitter of
tools/props/layoutspec.py) and structured edits of the field list that break ONE rule at a
time (all pairs in the thorough tier), with both MACs of every entry recomputed under the
cipher in use over exactly the bytes a reader would authenticate.
Correspondence (toy cipher through register_AES128): model reader = implementation reader
on every such binary (result incl. error class), and the proved Coq checker check_layout =
the independent Python validator.
Search (real pyaes plug-in; MACs by an independent block-wise AES-CBC-MAC): the real reader
accepts exactly the binaries the independent Python validator accepts and returns the
content of their fields."""
import io

from vlib import qN, qbytes, qlist, qres, qbool, run_impl
from props import toycipher
from props import bf3common as B
from props import layoutspec as L
from props.C03 import qfields, pad

GEN_DEPS = ("Consts.v", "gen_consts")
MODEL_TARGETS = ["Model/Bf3.vo", "Model/Bf3Eq.vo", "Model/Cbc.vo", "Model/Layout.vo"]
IMPORTS = "From Bec2 Require Import Base.Reader Gen.Consts Model.Cbc Model.Bf3 Model.Bf3Eq Model.Layout."
OFFS = [0, 5, 6, 23, 255, 256, 65535, 65536]


def raw_of(comps, key, ciph):
    ents = []
    for desc, blob, alen, enc in comps:
        payload = ciph.cbc_encrypt(key, None, pad(blob)) if enc else blob
        ents.append(L.RawEntry(list(desc.items()), alen or len(blob), payload))
    return L.RawFile(ents)


# ---- structured edits: each returns an edited copy, or None when it does not apply -------

def _pick(raw, r):
    return r.randrange(len(raw.entries)) if raw.entries else None


def _with_entry(f):
    def g(raw, r):
        raw = raw.copy()
        i = _pick(raw, r)
        if i is None:
            return None
        return raw if f(raw, raw.entries[i], i, r) is not False else None
    g.__name__ = f.__name__
    return g


@_with_entry
def adr_plus_1(raw, e, i, r):
    e.adr_delta = 1


@_with_entry
def adr_minus_1(raw, e, i, r):
    e.adr_delta = -1


def adr_relative_to_payload_area(raw, r):
    raw = raw.copy()
    raw.relative = "area"
    return raw if raw.entries else None


def adr_relative_to_body(raw, r):
    raw = raw.copy()
    raw.relative = "body"
    return raw if raw.entries else None


@_with_entry
def total_actual_swapped(raw, e, i, r):
    e.total, e.actual = e.actual, len(e.payload)


@_with_entry
def total_plus_1(raw, e, i, r):
    e.total = len(e.payload) + 1


@_with_entry
def total_minus_1(raw, e, i, r):
    e.total = len(e.payload) - 1
    e.actual = min(e.actual, max(e.total, 1))


@_with_entry
def actual_above_total(raw, e, i, r):
    e.actual = len(e.payload) + 1


@_with_entry
def actual_lowered(raw, e, i, r):
    if e.actual < 2:
        return False
    e.actual -= 1


@_with_entry
def duplicate_tag(raw, e, i, r):
    if e.tags:
        t = r.choice(e.tags)
        e.tags.insert(r.randrange(len(e.tags) + 1), (t[0], r.choice([t[1], b"", b"\x01"])))
    else:
        e.tags = [(1, b""), (1, b"a")]


@_with_entry
def tag_length_overruns_description(raw, e, i, r):
    if not e.tags:
        e.tags = [(7, b"ab")]
    d = bytearray(L.ser_tags(e.tags))
    lastlen = len(e.tags[-1][1])
    d[len(d) - lastlen - 1] = (lastlen + r.choice([1, 2, 100])) % 256
    if d[len(d) - lastlen - 1] <= lastlen:
        return False
    e.desc = bytes(d)


@_with_entry
def tag_cut_inside_header(raw, e, i, r):
    e.desc = L.ser_tags(e.tags) + b"\x09"           # an id without its length byte


@_with_entry
def description_length_overruns_entry(raw, e, i, r):
    d = L.ser_tags(e.tags)
    e.desc_len = len(d) + r.choice([1, 16, 17])
    if e.desc_len > 255:
        return False


@_with_entry
def description_length_short(raw, e, i, r):
    d = L.ser_tags(e.tags)
    if not d:
        return False
    e.desc_len = len(d) - 1


@_with_entry
def entry_length_plus_1(raw, e, i, r):
    e.entry_len_delta = 1


@_with_entry
def entry_length_minus_1(raw, e, i, r):
    e.entry_len_delta = -1


@_with_entry
def entry_with_spare_byte(raw, e, i, r):
    e.junk = bytes([r.randrange(256)])


def directory_size_plus_1(raw, r):
    raw = raw.copy()
    raw.dirsize_delta = 1
    return raw


def directory_size_minus_1(raw, r):
    raw = raw.copy()
    raw.dirsize_delta = -1
    return raw


def sentinel_missing(raw, r):
    raw = raw.copy()
    raw.sentinel = b""
    return raw


def sentinel_nonzero(raw, r):
    raw = raw.copy()
    raw.sentinel = bytes([r.choice([1, 0x2D, 0xFF])])
    return raw


def byte_after_sentinel(raw, r):
    raw = raw.copy()
    raw.sentinel = b"\0" + bytes([r.randrange(256)])
    return raw


def _swap(raw, r):
    n = len(raw.entries)
    if n < 2:
        return None
    i = r.randrange(n - 1)
    j = r.randrange(i + 1, n)
    if (raw.entries[i].tags, raw.entries[i].payload, raw.entries[i].actual) == \
            (raw.entries[j].tags, raw.entries[j].payload, raw.entries[j].actual):
        return None
    return i, j


def entries_reordered_iv_recomputed(raw, r):
    """directory entries swapped, payload area untouched; every entry still points at its own payload"""
    raw = raw.copy()
    ij = _swap(raw, r)
    if ij is None:
        return None
    i, j = ij
    order = list(range(len(raw.entries)))
    order[i], order[j] = order[j], order[i]
    raw.entries[i], raw.entries[j] = raw.entries[j], raw.entries[i]
    raw.payload_order = order
    return raw


def entries_reordered_iv_kept(raw, r):
    raw = raw.copy()
    for n, e in enumerate(raw.entries):
        e.iv_index = n + 1
    return entries_reordered_iv_recomputed(raw, r)


def entries_and_payloads_reordered_iv_kept(raw, r):
    """a consistent file in the other order, but the entry MACs still chained from the old indices"""
    raw = raw.copy()
    for n, e in enumerate(raw.entries):
        e.iv_index = n + 1
    ij = _swap(raw, r)
    if ij is None:
        return None
    i, j = ij
    raw.entries[i], raw.entries[j] = raw.entries[j], raw.entries[i]
    return raw


def entries_and_payloads_reordered(raw, r):
    """a consistent file in the other order (valid)"""
    raw = raw.copy()
    ij = _swap(raw, r)
    if ij is None:
        return None
    i, j = ij
    raw.entries[i], raw.entries[j] = raw.entries[j], raw.entries[i]
    return raw


def iv_zero_based(raw, r):
    raw = raw.copy()
    for n, e in enumerate(raw.entries):
        e.iv_index = n
    return raw if raw.entries else None


@_with_entry
def iv_index_plus_1(raw, e, i, r):
    e.iv_index = i + 2


def iv_absent(raw, r):
    """entry MACs computed with the zero IV"""
    raw = raw.copy()
    for e in raw.entries:
        e.iv_index = 0
    return raw if raw.entries else None


def trailing_bytes(raw, r):
    raw = raw.copy()
    raw.trailing = bytes(r.randrange(256) for _ in range(r.choice([1, 1, 2, 16])))
    return raw


def trailing_zero(raw, r):
    raw = raw.copy()
    raw.trailing = b"\0"
    return raw


def macs_under_other_key(raw, r):
    raw = raw.copy()
    raw.mac_key = "flip"
    return raw if raw.entries else None


@_with_entry
def payload_mac_damaged(raw, e, i, r):
    e.flip_pmac = (r.randrange(16), 1 << r.randrange(8))


@_with_entry
def entry_mac_damaged(raw, e, i, r):
    e.flip_emac = (r.choice([0, 7, 8, 15, r.randrange(16)]), 1 << r.randrange(8))


@_with_entry
def enc_tag_on_unaligned_payload(raw, e, i, r):
    if any(t == 0xC2 for t, _ in e.tags) or len(e.payload) % 16 == 0:
        return False
    e.tags.append((0xC2, b"\x02"))


@_with_entry
def enc_tag_on_aligned_plain_payload(raw, e, i, r):
    if any(t == 0xC2 for t, _ in e.tags):
        return False
    e.payload = (e.payload + bytes(16))[:max(16, len(e.payload) // 16 * 16)]
    e.actual = min(e.actual, len(e.payload))
    e.tags.append((0xC2, b"\x02"))


@_with_entry
def payload_byte_changed_macs_recomputed(raw, e, i, r):
    """another valid file"""
    p = bytearray(e.payload)
    k = r.randrange(len(p))
    p[k] ^= 1 << r.randrange(8)
    e.payload = bytes(p)


EDITS = [adr_plus_1, adr_minus_1, adr_relative_to_payload_area, adr_relative_to_body, total_actual_swapped,
         total_plus_1, total_minus_1, actual_above_total, actual_lowered, duplicate_tag,
         tag_length_overruns_description, tag_cut_inside_header, description_length_overruns_entry,
         description_length_short, entry_length_plus_1, entry_length_minus_1, entry_with_spare_byte,
         directory_size_plus_1, directory_size_minus_1, sentinel_missing, sentinel_nonzero, byte_after_sentinel,
         entries_reordered_iv_recomputed, entries_reordered_iv_kept, entries_and_payloads_reordered_iv_kept,
         entries_and_payloads_reordered, iv_zero_based, iv_index_plus_1, iv_absent, trailing_bytes, trailing_zero,
         macs_under_other_key, payload_mac_damaged, entry_mac_damaged, enc_tag_on_unaligned_payload,
         enc_tag_on_aligned_plain_payload, payload_byte_changed_macs_recomputed]


def emit(raw, off, key, ciph):
    if raw.mac_key == "flip":
        raw = raw.copy()
        raw.mac_key = bytes([key[0] ^ 0x80]) + key[1:]
    body = L.emit(raw, off, key, ciph)
    return body


# ---- running the implementation ----------------------------------------------------------

def impl_from_binary(body, off, check, key):
    from bec2format.bf3file import Bf3File
    from bec2format.bytes_reader import BytesReader

    def go():
        rdr = BytesReader(bytes(off) + body, "test")
        rdr.read(off)
        return Bf3File.from_binary(rdr, None, check, key)
    return run_impl(go)


def view_impl(f):
    return [(list(c.description.items()), bytes(c.blob), c.actual_len, bool(c.encrypt_by_session_key))
            for c in f.components]


def judge(body, off, key, check, ciph, got):
    """the property predicate on one reader run; got = run_impl result; returns violation or None"""
    fs, rule = L.reader_accepts(body, off, key, ciph, auth=check)
    if fs is None:
        if got[0] == "ok":
            return "accepted a binary that breaks the rule '%s': returned %r" % (rule, view_impl(got[1]))[:1500]
        return None
    if got[0] != "ok":
        return "rejected (%s) a well-formed%s binary" % (got[1], " and authentic" if check else "")
    if any(f["actual"] == 0 for f in fs):
        return None          # outside the property's quantifier (declared length >= 1)
    want = L.content_of(fs, key, ciph)
    if view_impl(got[1]) != want:
        return "returned content differs from the fields: want %r got %r" % (want, view_impl(got[1]))
    return None


def gen_cases(ctx, r, ciph, n_files, pairs, tag):
    """yields (label, body, off, key, check, rule) ; every edit once per base file, then pairs"""
    for fi in range(n_files):
        cm, comps = B.gen_file(r, enc_prob=0.2)
        if not comps and r.random() < 0.7:
            comps = [B.gen_comp(r)]
        # keep the payloads short in most files (the structure is what is edited)
        if r.random() < 0.7:
            cut = [(d, b[:r.choice([1, 5, 16, 17, 40])], a, e) for d, b, a, e in comps]
            comps = [(d, b, None if a is None else min(a, len(b)), e) for d, b, a, e in cut]
        key = B.rkey(r)
        off = OFFS[fi % len(OFFS)]
        base = raw_of(comps, key, ciph)
        ctx.dist[tag + ":comps=%d" % len(comps)] += 1
        # unedited: as written by the implementation, and by the emitter
        w = run_impl(B.build(cm, comps).to_binary, off, key)
        mine = emit(base, off, key, ciph)
        if w[0] == "ok":
            yield ("written-by-implementation", w[1], off, key, True, comps)
            yield ("written-by-implementation", w[1], off, key, False, comps)
        yield ("valid-emitted", mine, off, key, True, comps)
        for ed in EDITS:
            raw = ed(base, r)
            if raw is None:
                continue
            body = emit(raw, off, key, ciph)
            yield (ed.__name__, body, off, key, True, comps)
            if r.random() < 0.35 or ed.__name__ in ("entry_with_spare_byte", "macs_under_other_key", "byte_after_sentinel",
                                                      "trailing_bytes", "adr_plus_1", "total_actual_swapped"):
                yield (ed.__name__, body, off, key, False, comps)
        for _ in range(pairs):
            e1, e2 = r.sample(EDITS, 2)
            raw = e1(base, r)
            raw = raw and e2(raw, r)
            if raw is None:
                continue
            body = emit(raw, off, key, ciph)
            yield (e1.__name__ + "+" + e2.__name__, body, off, key, r.random() < 0.8, comps)


def stale_tampers(body, off, key, ciph, r):
    """byte-level changes of a VALID body that leave every stored MAC field as it is
    (payload changed under a stale payload MAC, entry fields changed under a stale entry MAC)"""
    fs = L.parse_body(body, off, key, ciph)
    dirsize = int.from_bytes(body[:4], "big")
    out = []

    def flip(pos, mask=None):
        b = bytearray(body)
        b[pos] ^= mask or (1 << r.randrange(8))
        return bytes(b)
    # payload positions
    p = 4 + dirsize
    spans = []
    for f in fs:
        spans.append((p, len(f["payload"])))
        p += len(f["payload"])
    for i, (st, ln) in enumerate(spans):
        for name, pos in (("first", st), ("last", st + ln - 1), ("random", st + r.randrange(ln))):
            out.append(("payload-%s-byte-changed,macs-unchanged" % name, flip(pos)))
    for i in range(len(spans)):
        for j in range(i + 1, len(spans)):
            m = min(spans[i][1], spans[j][1])
            a, c = body[spans[i][0]:spans[i][0] + m], body[spans[j][0]:spans[j][0] + m]
            if a != c:
                b = bytearray(body)
                b[spans[i][0]:spans[i][0] + m], b[spans[j][0]:spans[j][0] + m] = c, a
                out.append(("payload-bytes-swapped-between-components,macs-unchanged", bytes(b)))
    # entry positions: length byte, then adr(4) total(4) actual(4) pmac(16) desclen(1) desc emac(16)
    q = 4
    for f in fs:
        ln = body[q]
        e = q + 1
        out.append(("entry-actual-changed,entry-mac-unchanged", flip(e + 11, 1)))
        out.append(("entry-payload-mac-field-changed,entry-mac-unchanged", flip(e + 12 + r.randrange(16))))
        if ln > 45:
            out.append(("entry-description-changed,entry-mac-unchanged", flip(e + 29 + r.randrange(ln - 45))))
        out.append(("entry-mac-field-changed", flip(e + ln - 16 + r.randrange(16))))
        q = e + ln
    return out


def ordered_cases(ctx, r, ciph, n_files, tag):
    """order-sensitive sequences, all reads in this one process: the valid file FIRST, then its
    variants with stale MAC fields, then the valid file again; and the reverse order (variants first,
    also read once with the MAC check off, then the valid file).  The sixth element is the history
    of the sequence so far [(body, check)], kept for the replay."""
    for fi in range(n_files):
        cm, comps = B.gen_file(r, enc_prob=0.2)
        while not comps:
            cm, comps = B.gen_file(r, enc_prob=0.2)
        if fi % 2:
            comps = [(d, b[:r.choice([2, 16, 17, 40])], None if a is None else min(a, len(b[:2])), e) for d, b, a, e in comps]
        key = B.rkey(r)
        off = r.choice(OFFS[:6])
        w = run_impl(B.build(cm, comps).to_binary, off, key)
        valid = emit(raw_of(comps, key, ciph), off, key, ciph)
        if L.reader_accepts(valid, off, key, ciph)[0] is None:
            continue
        tampers = stale_tampers(valid, off, key, ciph, r)
        ctx.dist[tag + ":ordered-sequences"] += 1
        hist = []

        def step(label, body, check):
            item = ("ordered:" + label, body, off, key, check, list(hist))
            hist.append((body, check))
            return item
        if fi % 2 == 0:
            yield step("valid-first", valid, True)
            if w[0] == "ok":
                yield step("valid-written-by-implementation", w[1], True)
            for name, body in tampers:
                yield step("after-valid:" + name, body, True)
            yield step("valid-again", valid, True)
        else:
            for name, body in tampers[:6]:
                yield step("before-valid,check-off:" + name, body, False)
            for name, body in tampers:
                yield step("before-valid:" + name, body, True)
            yield step("valid-after-tampered", valid, True)
            for name, body in tampers[:4]:
                yield step("after-valid:" + name, body, True)


def ordered_text_cases(r, ciph, n):
    """the same through read_file (text API): valid text, text with a changed last payload digit, valid text"""
    for _ in range(n):
        cm, comps = B.gen_file(r, enc_prob=0.0)
        if not comps:
            continue
        key = B.rkey(r)
        body = emit(raw_of(comps, key, ciph), 5, key, ciph)
        bad = body[:-1] + bytes([body[-1] ^ (1 << r.randrange(8))])
        for label, b in (("valid-first", body), ("after-valid:last-payload-byte-changed,macs-unchanged", bad), ("valid-again", body)):
            yield cm, label, b, key, body


def all_pairs(ctx, r, ciph):
    """every ordered pair of edits on one 3-component base file (thorough tier)"""
    comps = [({0xC3: b"\x02", 1: b"ab"}, b"\x01\x02\x03", 2, False), ({0xC2: b"\x02"}, bytes(range(1, 20)), None, True),
             ({}, bytes(range(40, 57)), 9, False)]
    key = bytes(range(16))
    base = raw_of(comps, key, ciph)
    for e1 in EDITS:
        for e2 in EDITS:
            if e1 is e2:
                continue
            raw = e1(base, r)
            raw = raw and e2(raw, r)
            if raw is None:
                continue
            yield (e1.__name__ + "+" + e2.__name__, emit(raw, 5, key, ciph), 5, key, True, comps)


def signature_cases(r, ciph, n):
    for _ in range(n):
        cm, comps = B.gen_file(r, enc_prob=0.1)
        key = B.rkey(r)
        body = emit(raw_of(comps, key, ciph), 5, key, ciph)
        for sig in (b"BF3\0\0", b"BF3\0\1", b"bF3\0\0", b"BF3\0", b"BEC2\0", b"BF3\0\0\0"):
            yield cm, sig, body, key


def qcomps_obj(f):
    return qlist([B.qcomp_obj(c) for c in f.components], "comp")


def correspondence(ctx):
    r = ctx.rng
    ciph = L.toy()
    exprs, descr = [], []
    nfiles = ctx.budget(12, 160) * (3 if ctx.brokens else 1)
    with toycipher.registered():
        cases = list(gen_cases(ctx, r, ciph, nfiles, ctx.budget(3, 10), "corr"))
        cases += list(ordered_cases(ctx, r, ciph, ctx.budget(6, 60), "corr"))
        for label, body, off, key, check, comps in cases:
            got = impl_from_binary(body, off, check, key)      # all in this process, in this order
            ctx.case(("corr", label, body, off, key, check), trivial=False)
            ctx.dist["corr:" + ("accept" if got[0] == "ok" else "reject:" + got[1])] += 1
            why = judge(body, off, key, check, ciph, got)
            if why:
                ctx.fail("reader-accept", {"body": body, "off": off, "key": key, "check": check, "cipher": "toy", "edit": label,
                                           "history": comps if label.startswith("ordered:") else []}, why)
            exprs.append("res_eqb (list_eqb comp_eqb) (from_binary toy_dec toy_mac (mkR %s %s) %s %s) %s" % (
                qbytes(body), qN(off), qbool(check), qbytes(key), qres(got, qcomps_obj)))
            descr.append(("from_binary", label, body, off, key, check, got[0] if got[0] == "err" else "ok"))
            # the proved checker of the specification = the Python validator used by the search
            try:
                fs = L.parse_body(body, off, key, ciph, auth=check)
                exprs.append("res_eqb (list_eqb fr_eqb) (check_layout_gen toy_mac %s %s %s %s) (Ok %s)" % (
                    qbool(check), qN(off), qbytes(key), qbytes(body), qfields(fs)))
            except L.LayoutError:
                exprs.append("negb (is_ok (check_layout_gen toy_mac %s %s %s %s))" % (
                    qbool(check), qN(off), qbytes(key), qbytes(body)))
            descr.append(("check_layout", label, body, off, key, check))
        # file level: signature
        for cm, sig, body, key in signature_cases(r, ciph, ctx.budget(3, 40)):
            text = B.text_of_binary(cm, sig + body)
            got = B.impl_read(text, True, key)
            ctx.case(("sig", text, key))
            ok = sig == b"BF3\0\0" and L.reader_accepts(body, 5, key, ciph)[0] is not None
            if (got[0] == "ok") != ok:
                ctx.fail("reader-accept", {"text": text, "key": key, "check": True, "cipher": "toy", "edit": "signature", "expect_ok": ok},
                         "signature %r: reader %s" % (sig, got[0]))
            exprs.append("res_eqb bf3_eqb (read_file toy_dec toy_mac %s true %s) %s" % (
                B.qstr(text), qbytes(key), qres(got, B.qbf3_obj)))
            descr.append(("read_file", "signature", text, key))
        for cm, label, body, key, good in ordered_text_cases(r, ciph, ctx.budget(3, 30)):
            text = B.text_of_binary(cm, b"BF3\0\0" + body)
            got = B.impl_read(text, True, key)
            ctx.case(("ordered-text", label, text, key))
            ok = L.reader_accepts(body, 5, key, ciph)[0] is not None
            if (got[0] == "ok") != ok:
                ctx.fail("reader-accept", {"text": text, "key": key, "check": True, "cipher": "toy", "edit": "ordered-text:" + label,
                                           "expect_ok": ok, "history_text": B.text_of_binary(cm, b"BF3\0\0" + good)},
                         "read_file (%s): reader %s" % (label, got[0]))
            exprs.append("res_eqb bf3_eqb (read_file toy_dec toy_mac %s true %s) %s" % (
                B.qstr(text), qbytes(key), qres(got, B.qbf3_obj)))
            descr.append(("read_file", "ordered:" + label, text, key))
        if cases:
            ctx.sample({"edit": cases[len(cases) // 2][0], "body": cases[len(cases) // 2][1][:150], "off": cases[len(cases) // 2][2]})
    bad = ctx.coq_eval("c05", IMPORTS, exprs, preamble=B.PRE, shard=60)
    if bad is None:
        return
    ctx.traces += len(exprs)
    for i in bad[:10]:
        d = descr[i]
        if d[0] == "check_layout":
            ctx.broken("harness: Coq check_layout and the Python layout validator disagree (edit %s)" % d[1], repr(d)[:2500])
        else:
            ctx.broken("correspondence: Model.Bf3 reader differs from the implementation on %s (edit %s)" % (d[0], d[1]),
                       repr(d)[:2500])


def search(ctx):
    r = ctx.rng
    ciph = L.real_aes()
    nfiles = ctx.budget(40, 400) * (4 if ctx.brokens else 1)
    stats = {}

    def run(label, body, off, key, check, hist=()):
        got = impl_from_binary(body, off, check, key)
        ctx.case(("search", label, body, off, key, check))
        fs, rule = L.reader_accepts(body, off, key, ciph, auth=check)
        st = stats.setdefault("(ordered)" if label.startswith("ordered:") else label if "+" not in label else "(pair)", [0, 0])
        st[0 if fs is None else 1] += 1
        why = judge(body, off, key, check, ciph, got)
        if why:
            ctx.fail("reader-accept", {"body": body, "off": off, "key": key, "check": check, "cipher": "aes", "edit": label,
                                       "history": list(hist)}, why)
    for label, body, off, key, check, comps in gen_cases(ctx, r, ciph, nfiles, ctx.budget(4, 12), "search"):
        run(label, body, off, key, check)
    # order-sensitive sequences in this one process (a reader must not remember earlier verdicts)
    for label, body, off, key, check, hist in ordered_cases(ctx, r, ciph, ctx.budget(14, 200) * (4 if ctx.brokens else 1), "search"):
        run(label, body, off, key, check, hist)
    for cm, label, body, key, good in ordered_text_cases(r, ciph, ctx.budget(6, 80)):
        text = B.text_of_binary(cm, b"BF3\0\0" + body)
        got = B.impl_read(text, True, key)
        ctx.case(("ordered-text", label, text, key))
        ok = L.reader_accepts(body, 5, key, ciph)[0] is not None
        if (got[0] == "ok") != ok:
            ctx.fail("reader-accept", {"text": text, "key": key, "check": True, "cipher": "aes", "edit": "ordered-text:" + label,
                                       "expect_ok": ok, "history_text": B.text_of_binary(cm, b"BF3\0\0" + good)},
                     "read_file (%s): reader %s" % (label, got[0]))
    # more than 255 entries (entry index beyond one byte), and a payload beyond 65535 bytes
    key = B.rkey(r)
    many = raw_of([({}, bytes([1 + j % 255]), None, False) for j in range(257)], key, ciph)
    run("valid-emitted-257-entries", emit(many, 5, key, ciph), 5, key, True)
    wrong = many.copy()
    wrong.entries[256].iv_index = 1
    run("iv_index_mod_256", emit(wrong, 5, key, ciph), 5, key, True)
    wrong = many.copy()
    wrong.entries[256].adr_delta = -256
    run("adr_minus_256", emit(wrong, 5, key, ciph), 5, key, True)
    long_ = raw_of([({1: b"a"}, bytes(r.randrange(256) for _ in range(65537)), 65536, False), ({}, b"tail", None, False)], key, ciph)
    run("valid-emitted-long-payload", emit(long_, 65535, key, ciph), 65535, key, True)
    wrong = long_.copy()
    wrong.entries[1].adr_delta = -65536
    run("adr_minus_65536", emit(wrong, 65535, key, ciph), 65535, key, True)
    if not ctx.quick() or ctx.brokens:
        for label, body, off, key, check, comps in all_pairs(ctx, r, ciph):
            run(label, body, off, key, check)
    for cm, sig, body, key in signature_cases(r, ciph, ctx.budget(4, 60)):
        text = B.text_of_binary(cm, sig + body)
        got = B.impl_read(text, True, key)
        ctx.case(("sig", text, key))
        ok = sig == b"BF3\0\0" and L.reader_accepts(body, 5, key, ciph)[0] is not None
        if (got[0] == "ok") != ok:
            ctx.fail("reader-accept", {"text": text, "key": key, "check": True, "cipher": "aes", "edit": "signature", "expect_ok": ok},
                     "signature %r: reader %s" % (sig, got[0]))
    ctx.extra["edits_invalid_valid"] = {k: v for k, v in sorted(stats.items())}
    ctx.extra["rule"] = ("base files as in C01 (0-4 components incl. session-key encrypted, 0-6 tags, declared length >= 1), "
                         "offsets {0,5,6,23,255,256,65535,65536}, keys {zero, random, zero-tailed}; %d structured edits of the "
                         "field list, one at a time and in pairs (all ordered pairs in the thorough tier), MACs recomputed; "
                         "MAC check on and off; signature variants through read_file. Judged by the independent Python validator "
                         "(layoutspec.reader_accepts: layout + 'ENC=02 payload is block aligned') and content_of. "
                         "distinct by (edit, bytes, offset, key, check)" % len(EDITS))


def replay(ctx, data):
    rc = 0
    for f in data.get("fails", []):
        d = f["data"]
        print(f["kind"], d.get("edit"), f["detail"][:500])
        try:
            key = bytes.fromhex(d["key"]["hex"])
            toy = d.get("cipher") == "toy"
            ciph = L.toy() if toy else L.real_aes()

            def go():
                if "text" in d:
                    if d.get("history_text"):
                        print(" (earlier read in the same process: %s)" % B.impl_read(d["history_text"], True, key)[0])
                    got = B.impl_read(d["text"], d["check"], key)
                    print(" replay on /repo: read_file ->", got[0], got[1] if got[0] == "err" else view_impl(got[1]))
                    return (got[0] == "ok") != d.get("expect_ok", got[0] != "ok")
                body = bytes.fromhex(d["body"]["hex"])
                for hb, hc in d.get("history", []):      # earlier reads of the same process, in order
                    h = impl_from_binary(bytes.fromhex(hb["hex"]), d["off"], hc, key)
                    print(" (earlier read in the same process: %s)" % h[0])
                got = impl_from_binary(body, d["off"], d["check"], key)
                print(" replay on /repo: from_binary ->", got[0], got[1] if got[0] == "err" else view_impl(got[1]))
                print(" validator:", L.reader_accepts(body, d["off"], key, ciph, auth=d["check"])[1] or "well-formed")
                return bool(judge(body, d["off"], key, d["check"], ciph, got))
            if toy:
                with toycipher.registered():
                    rc |= go()
            else:
                rc |= go()
        except Exception as e:   # noqa
            print(" cannot replay:", e)
    for b in data.get("broken", []):
        print("broken:", b["what"])
    return 1 if rc else 0
