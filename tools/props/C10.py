"""C10 - Configurations encode to bounded TLV blocks that decode to the same operations.
Tie: hand model coq/Model/ConfTlv.v (conf_dict_to_list, conf_dict_to_tlv, set_config;
MAX_TLVBLOCK_SIZE and the BF3 tag constants from the translator) + correspondence;
search: the output of the REAL implementation is decoded by an independent Python
decoder written from the grammar of the property
    blob = (len block)* 00 ; block = item* ;
    item = 02 kk kk | 01 kk kk (vv FF | vv ll content)* (FF | end-of-block)
and compared with the dictionary's operations (sizes, emptiness, order, exact content,
extra blocks, tags)."""
import ast

from vlib import qN, qbytes, qlist, qopt, qres, qbool, run_impl, coq_show

GEN_DEPS = ("Consts.v", "gen_consts")
MODEL_TARGETS = ["Model/ConfTlv.vo"]
IMPORTS = "From Bec2 Require Import Gen.Consts Model.ConfTlv."

LIMIT = 117          # from the property text, deliberately not read from the source
KEYS = (0, 1, 0x0620, 0xFFFF)
VIDS = (0, 1, 0xFE)
CLENS = (0, 1, 110, 111, 112, 254)


# ---------------------------------------------------------------------------
# specification side (written from the property text; never looks at the implementation)

class Bad(Exception):
    pass


def dec_block(b):
    """block = item*"""
    ops, i, n = [], 0, len(b)
    while i < n:
        if i + 3 > n:
            raise Bad("item header cut off at %d" % i)
        tag, key = b[i], (b[i + 1] << 8) | b[i + 2]
        i += 3
        if tag == 0x02:
            ops.append(("delkey", key))
        elif tag == 0x01:
            while True:
                if i == n:                       # end of block closes the value list
                    break
                v = b[i]
                i += 1
                if v == 0xFF:
                    break
                if i == n:
                    raise Bad("value id without length at %d" % i)
                ln = b[i]
                i += 1
                if ln == 0xFF:
                    ops.append(("delval", key, v))
                else:
                    if i + ln > n:
                        raise Bad("content cut off at %d" % i)
                    ops.append(("set", key, v, bytes(b[i:i + ln])))
                    i += ln
        else:
            raise Bad("unknown item tag %#x at %d" % (tag, i - 3))
    return ops


def split_blob(blob):
    """blob = (len block)* 00, nothing after the 00"""
    blocks, i = [], 0
    while True:
        if i >= len(blob):
            raise Bad("terminator missing")
        ln = blob[i]
        i += 1
        if ln == 0:
            break
        if i + ln > len(blob):
            raise Bad("block cut off")
        blocks.append(bytes(blob[i:i + ln]))
        i += ln
    if i != len(blob):
        raise Bad("%d bytes after the terminator" % (len(blob) - i))
    return blocks


def expected_ops(d):
    """all deletions in sorted order, then all value assignments in sorted order"""
    dels, sets = [], []
    for (k, v), c in d.items():
        if v is None:
            dels.append(((k, -1), ("delkey", k)))
        elif c is None:
            dels.append(((k, v), ("delval", k, v)))
        else:
            sets.append(((k, v), ("set", k, v, bytes(c))))
    dels.sort(key=lambda t: t[0])
    sets.sort(key=lambda t: t[0])
    return [t[1] for t in dels] + [t[1] for t in sets]


def entry_size(kv, c):
    if kv[1] is None:
        return 3
    return 6 if c is None else 6 + len(c)


def fits(d):
    return all(entry_size(kv, c) <= LIMIT for kv, c in d.items())


def in_quantifier(d):
    delkeys = {k for (k, v) in d if v is None}
    for (k, v), c in d.items():
        if not (0 <= k <= 0xFFFF):
            return False
        if v is not None:
            if not (0 <= v <= 0xFE) or k in delkeys:
                return False
            if c is not None and len(c) > 254:
                return False
    return True


def check_blocks(d, blocks):
    """the property predicate on a list of TLV blocks; None when it holds"""
    for i, b in enumerate(blocks):
        if len(b) == 0:
            return "block %d is empty" % i
    if fits(d):
        for i, b in enumerate(blocks):
            if len(b) > LIMIT:
                return "block %d has %d bytes although every entry fits" % (i, len(b))
    try:
        got = [o for b in blocks for o in dec_block(b)]
    except Bad as e:
        return "blocks do not follow the grammar: %s" % e
    want = expected_ops(d)
    if got != want:
        j = next((j for j in range(min(len(got), len(want))) if got[j] != want[j]), min(len(got), len(want)))
        return "decoded operations differ at #%d: got %s want %s (counts %d/%d)" % (
            j, repr(got[j:j + 1])[:120], repr(want[j:j + 1])[:120], len(got), len(want))
    return None


CFG_TAGS = {0xC3: b"\x03", 0xC2: b"\x02", 0xC1: b"\x03", 0xC5: b"\x01"}   # TYPE, ENC, FMT, REBOOT


def check_component(d, extra, comp):
    blob = comp.blob
    try:
        blocks = split_blob(blob)
    except Bad as e:
        return "blob framing: %s" % e
    ne = len(extra)
    if ne > len(blocks) or (ne and blocks[len(blocks) - ne:] != [bytes(x) for x in extra]):
        return "extra blocks are not at the end unchanged"
    why = check_blocks(d, blocks[:len(blocks) - ne])
    if why:
        return why
    if dict(comp.description) != CFG_TAGS:
        return "tags %r" % (comp.description,)
    if comp.actual_len != len(blob):
        return "actual_len %r != %d" % (comp.actual_len, len(blob))
    if comp.encrypt_by_session_key is not True:
        return "not encrypted by the session key"
    return None


# ---------------------------------------------------------------------------
# generators

def rcontent(r, n):
    style = r.random()
    if style < 0.5:
        return bytes(r.randrange(256) for _ in range(n))
    if style < 0.8:                               # bytes that look like grammar symbols
        return bytes(r.choice((0xFF, 0x00, 0x01, 0x02, 0xFE, n & 0xFF)) for _ in range(n))
    return bytes([r.choice((0xFF, 0x00, 0x01, 0x02))]) * n


def rlen(r):
    return r.choice([0, 0, 1, 1, 2, 3, 5, 8, 20, 50, 100, 109, 110, 111, 112, 113, 120, 200, 249, 250, 254,
                     r.randrange(0, 255), r.randrange(0, 40), r.randrange(0, 40)])


def gen_dict(r, max_entries=40, oversize=True, force_n=False):
    """a dictionary inside the quantifier, in random insertion order"""
    n = r.choice([0, 1, 1, 2, 2, 3, 4, 5, 6, 8, 12, 20, r.randrange(0, max_entries + 1)])
    if force_n:
        n = max_entries
    pool = r.choice([KEYS, KEYS, (7,), (1, 2, 3), tuple(r.randrange(0x10000) for _ in range(5)),
                     tuple(range(0x0600, 0x0640))])
    small = r.random() < 0.6
    d = {}
    delkeys, valkeys = set(), set()
    for _ in range(n):
        k = r.choice(pool) if r.random() < 0.85 else r.randrange(0x10000)
        kind = r.choice(["set", "set", "set", "delval", "delkey"])
        if kind == "delkey":
            if k in valkeys:
                continue
            delkeys.add(k)
            d[(k, None)] = r.choice([None, None, b"", b"\x01\xff"])
            continue
        if k in delkeys:
            continue
        valkeys.add(k)
        v = r.choice(VIDS) if r.random() < 0.5 else r.randrange(0xFF)
        if kind == "delval":
            d[(k, v)] = None
        else:
            ln = r.randrange(0, 12) if small and r.random() < 0.8 else rlen(r)
            if not oversize:
                ln = min(ln, LIMIT - 6)
            d[(k, v)] = rcontent(r, ln)
    return d


def group_len(entries):
    """(len(block so far), len(pending postface)) when `entries` (in final order) share one block:
    written from the grammar, used only to aim content lengths at the limit"""
    cur, post, last = 0, 0, None
    for (k, v), c in entries:
        if v is None:
            pre, data, p = ("K", k), 0, 0
        else:
            pre, data, p = ("V", k), (2 if c is None else 2 + len(c)), 1
        if pre == last:
            cur += data
        else:
            cur += post + 3 + data
            last, post = pre, p
    return cur, post


def landing_dicts(r):
    """sequences of 1..6 entries; the entry at every position is sized so that the block it
    would complete has 116 / 117 / 118 bytes; distinct keys, one key, deletes in front"""
    for n in range(1, 7):
        for pos in range(n):
            for mode in ("distinct", "samekey", "mixed", "pairs", "samekey-tight", "pairs-tight"):
                for target in (LIMIT - 1, LIMIT, LIMIT + 1):
                    tight = mode.endswith("-tight")     # aim the size the block really gets when the preface is shared
                    mode = mode.split("-")[0]
                    entries = []
                    nd = r.randrange(0, pos + 1) if mode == "mixed" else 0
                    base = r.choice(KEYS[:3])
                    for i in range(n):
                        if mode == "samekey":
                            k = base
                        elif mode == "pairs":
                            k = base + i // 2
                        else:
                            k = base + i
                        if i < nd:
                            kv = (k, None) if r.random() < 0.5 else (k, r.choice(VIDS))
                            entries.append((kv, None))
                        else:
                            entries.append(((k, i), rcontent(r, r.randrange(0, 4))))
                    # deletes sort before sets, keys ascend: `entries` is already the final order
                    cur, post = group_len(entries[:pos])
                    (k, v), c = entries[pos]
                    if v is not None and c is not None:
                        ln = target - cur - post - 6     # cur + post + 3 + 2 + ln + 1 == target
                        if tight and pos and entries[pos - 1][0][0] == k and entries[pos - 1][0][1] is not None:
                            ln = target - cur - 3        # cur + 2 + ln + 1 == target
                        if 0 <= ln <= 254:
                            entries[pos] = ((k, v), rcontent(r, ln))
                    order = list(range(n))
                    if r.random() < 0.5:
                        r.shuffle(order)
                    yield {entries[i][0]: entries[i][1] for i in order}, "land:%s%s" % (mode, "-tight" if tight else "")


def oversize_dicts(r):
    for n in range(1, 6):
        for pos in sorted({0, n // 2, n - 1}):
            for ln in (112, 113, 200, 249, 250, 254):
                for mode in ("distinct", "samekey"):
                    d = {}
                    for i in range(n):
                        k = 5 if mode == "samekey" else 5 + i
                        d[(k, i)] = rcontent(r, ln if i == pos else r.randrange(0, 30))
                    yield d, "oversize:%s" % ("first" if pos == 0 else "last" if pos == n - 1 else "middle")


def grid_entries():
    out = []
    for k in KEYS:
        out.append(((k, None), None))
        for v in VIDS:
            out.append(((k, v), None))
            for ln in CLENS:
                out.append(((k, v), ln))
    return out


def grid_dicts(r, npairs, ntriples):
    g = grid_entries()

    def mk(sel):
        d = {}
        for kv, c in sel:
            d[kv] = rcontent(r, c) if isinstance(c, int) else c
        return d
    for e in g:
        yield mk([e]), "grid:1"
    pairs = [(a, b) for a in g for b in g if a[0] != b[0]]
    if npairs < len(pairs):
        pairs = r.sample(pairs, npairs)
    for a, b in pairs:
        d = mk([a, b])
        if in_quantifier(d):
            yield d, "grid:2"
    for _ in range(ntriples):
        d = mk(r.sample(g, r.choice([3, 3, 4, 6])))
        if in_quantifier(d):
            yield d, "grid:n"


def sweep_dicts(r, all_keys):
    """every content length 0..254 (alone, after an entry of the same key, after another key),
    every value id 0..0xFE, and keys sweeping the high and the low byte (all 65536 when all_keys)"""
    for ln in range(255):
        k, v = r.choice(KEYS), r.choice(VIDS)
        yield {(k, v): rcontent(r, ln)}, "sweep:len"
        yield {(5, 1): rcontent(r, r.randrange(3)), (5, 2): rcontent(r, ln)}, "sweep:len"
        yield {(6, 2): rcontent(r, ln), (5, 1): None, (4, None): None}, "sweep:len"
    for v in range(0xFF):
        k = r.choice(KEYS)
        yield {(k, v): None}, "sweep:vid"
        yield {(k, v): rcontent(r, r.randrange(4))}, "sweep:vid"
        yield {(k, v): None, (k, (v + 1) % 0xFF): rcontent(r, 2), (k + 1 & 0xFFFF, v): b"\xff"}, "sweep:vid"
    if all_keys:
        keys = range(0x10000)
    else:
        keys = sorted({(h << 8) | l for h in range(256) for l in (0, 1, 0x7F, 0x80, 0xFF)} |
                      {(h << 8) | l for h in (0, 6, 0x7F, 0x80, 0xFF) for l in range(256)})
    for k in keys:
        if k & 1:
            yield {(k, None): None, (k ^ 1, 1): None}, "sweep:key"
        else:
            yield {(k, 0xFE): b"\x01", (k ^ 1, None): None}, "sweep:key"


FORMS = ("list", "tuple", "generator", "iter", "map", "deque", "oneshot")


class Extra(list):
    """the caller's extra blocks plus the kind of Iterable[bytes] they are handed over as"""
    form = "list"


def with_form(blocks, form):
    e = Extra(blocks)
    e.form = form
    return e


class OneShot:
    """an iterable that can be walked once only (like a file or a socket reader)"""

    def __init__(self, items):
        self._it = iter(list(items))

    def __iter__(self):
        return self._it


def as_iterable(items, form):
    """every kind of argument the Iterable[...] signatures allow"""
    import collections
    items = list(items)
    if form == "tuple":
        return tuple(items)
    if form == "generator":
        return (x for x in items)
    if form == "iter":
        return iter(items)
    if form == "map":
        return map(lambda x: x, items)
    if form == "deque":
        return collections.deque(items)
    if form == "oneshot":
        return OneShot(items)
    return items


def gen_extra(r):
    return with_form(_gen_extra(r), r.choice(FORMS))


def _gen_extra(r):
    style = r.random()
    if style < 0.5:
        return []
    return [bytes(r.randrange(256) for _ in range(r.choice([1, 1, 2, 10, 117, 118, 255, r.randrange(1, 256)])))
            for _ in range(r.choice([1, 1, 2, 3]))]


def gen_prior(r):
    """components already in the file: (description items, blob, actual_len, flag)"""
    out = []
    for _ in range(r.choice([0, 0, 1, 1, 2, 3])):
        style = r.choice(["config", "config", "main", "notype", "longtype"])
        desc = []
        if r.random() < 0.5:
            desc.append((0xC1, bytes([r.randrange(4)])))
        if style == "config":
            desc.append((0xC3, b"\x03"))
        elif style == "main":
            desc.append((0xC3, bytes([r.choice([0, 1, 2])])))
        elif style == "longtype":
            desc.append((0xC3, b"\x03\x00"))
        if r.random() < 0.5:
            desc.append((0xC4, bytes(r.randrange(256) for _ in range(2))))
        blob = bytes(r.randrange(256) for _ in range(r.choice([0, 1, 5, 17])))
        out.append((desc, blob, r.choice([None, len(blob) + 1, 7]), r.random() < 0.5))
    return out


# ---------------------------------------------------------------------------
# running the implementation

def impl_tlv(d):
    from bec2format.bf3file import conf_dict_to_tlv
    return run_impl(lambda: [bytes(b) for b in conf_dict_to_tlv(dict(d))])


def impl_list(d):
    from bec2format.bf3file import conf_dict_to_list
    return run_impl(lambda: list(conf_dict_to_list(dict(d))))


def impl_set_config(prior, d, extra):
    from bec2format.bf3file import Bf3File, Bf3Component
    form = getattr(extra, "form", "list")
    # Bf3File(components: Iterable[Bf3Component]) and set_config(additional_tvl_blocks: Iterable[bytes])
    f = Bf3File({}, as_iterable([Bf3Component(dict(desc), blob, alen, encrypt_by_session_key=flag)
                                 for desc, blob, alen, flag in prior], form))
    prior_seen = [(list(c.description.items()), c.blob, c.actual_len, c.encrypt_by_session_key)
                  for c in f.components]
    r = run_impl(f.set_config, dict(d), as_iterable(extra, form))
    if r[0] == "err":
        return r, prior_seen, f
    return ("ok", [(list(c.description.items()), bytes(c.blob), c.actual_len, c.encrypt_by_session_key)
                   for c in f.components]), prior_seen, f


# ---------------------------------------------------------------------------
# Coq literals

def qdict(d):
    return qlist(["((%s, %s), %s)" % (qN(k), qopt(v, qN), qopt(c, qbytes)) for (k, v), c in d.items()], "centry")


def qtriples(l):
    return qlist(["(%s, %s, %s)" % (qN(k), qopt(v, qN), qopt(c, qbytes)) for k, v, c in l], "triple")


def qcomp(c):
    desc, blob, alen, flag = c
    return "(mkComp %s %s %s %s)" % (
        qlist(["(%s, %s)" % (qN(t), qbytes(v)) for t, v in desc], "(N * bytes)"), qbytes(blob), qN(alen), qbool(flag))


def qcomps(l):
    return qlist([qcomp(c) for c in l], "component")


def malformed_dict(r):
    """outside the quantifier: what Python does there is still modelled (ValueError / TypeError)"""
    d = gen_dict(r, 8)
    style = r.choice(["key>16bit", "vid=255", "vid>255", "len=255", "len>255", "delkey+delval", "delkey+set",
                      "delkey+delval+bad"])
    k = r.choice(KEYS)
    if style == "key>16bit":
        d[(r.choice([0x10000, 0x10001, 0xFFFFFF]), r.choice([None, 1]))] = r.choice([None, b"x"])
    elif style == "vid=255":
        d[(k, 0xFF)] = r.choice([None, b"", b"ab"])
    elif style == "vid>255":
        d[(k, r.choice([256, 257, 70000]))] = r.choice([None, b"ab"])
    elif style == "len=255":
        d[(k, 3)] = bytes(255)
    elif style == "len>255":
        d[(k, 3)] = bytes(r.choice([256, 300]))
    elif style == "delkey+delval":
        d[(k, None)] = None
        d[(k, r.choice(VIDS))] = None
    elif style == "delkey+set":
        d = {kv: c for kv, c in d.items() if not (kv[0] == k and (kv[1] is None or c is None))}
        d[(k, None)] = None
        d[(k, 200)] = b"zz"
    else:
        d[(k, None)] = None
        d[(k, 1)] = None
        d[(0x10000, 1)] = b"q"
    items = list(d.items())
    r.shuffle(items)
    return dict(items), "malformed:" + style


def correspondence(ctx):
    r = ctx.rng
    cases = []
    for d, lab in landing_dicts(r):
        if r.random() < (0.25 if ctx.quick() else 1.0):
            cases.append((d, lab))
    for d, lab in oversize_dicts(r):
        if r.random() < (0.15 if ctx.quick() else 1.0):
            cases.append((d, lab))
    for d, lab in grid_dicts(r, ctx.budget(60, 600), ctx.budget(30, 300)):
        if lab != "grid:1" or r.random() < (0.4 if ctx.quick() else 1.0):
            cases.append((d, lab))
    for d, lab in sweep_dicts(r, all_keys=False):
        if r.random() < (0.04 if ctx.quick() else 0.5):
            cases.append((d, lab))
    for _ in range(ctx.budget(150, 2500)):
        cases.append((gen_dict(r), "random"))
    for _ in range(ctx.budget(2, 20)):
        cases.append((gen_dict(r, max_entries=r.choice([100, 200]), force_n=True), "random:long"))
    for _ in range(ctx.budget(60, 800)):
        cases.append(malformed_dict(r))
    cases.append(({}, "empty"))
    exprs, descr = [], []
    for d, lab in cases:
        ctx.dist[lab] += 1
        tl = impl_tlv(d)
        exprs.append("res_eqb (list_eqb bytes_eqb) (conf_dict_to_tlv %s) %s" % (
            qdict(d), qres(tl, lambda bl: qlist([qbytes(b) for b in bl], "bytes"))))
        descr.append(("conf_dict_to_tlv", d, None, None))
        ctx.case(("tlv", list(d.items())), trivial=not d)
        ctx.dist["tlv->" + (tl[1] if tl[0] == "err" else "ok")] += 1
        if r.random() < 0.5:
            ls = impl_list(d)
            exprs.append("res_eqb (list_eqb triple_eqb) (conf_dict_to_list %s) %s" % (qdict(d), qres(ls, qtriples)))
            descr.append(("conf_dict_to_list", d, None, None))
            ctx.case(("list", list(d.items())), trivial=not d)
        if r.random() < 0.4:
            extra = gen_extra(r)
            if r.random() < 0.1:
                extra.insert(r.randrange(len(extra) + 1), r.choice([b"", bytes(256), bytes(300)]))
            ctx.dist["extra-as:" + extra.form] += 1
            prior = gen_prior(r)
            sc, prior_seen, _ = impl_set_config(prior, d, extra)
            exprs.append("res_eqb (list_eqb component_eqb) (set_config %s %s %s) %s" % (
                qcomps(prior_seen), qdict(d), qlist([qbytes(b) for b in extra], "bytes"), qres(sc, qcomps)))
            descr.append(("set_config", d, extra, prior_seen))
            ctx.case(("set_config", list(d.items()), extra, prior_seen))
            ctx.dist["set_config->" + (sc[1] if sc[0] == "err" else "ok")] += 1
    if cases:
        d0 = cases[0][0]
        ctx.sample({"dict": [[k, v, c] for (k, v), c in d0.items()], "impl_blocks": impl_tlv(d0)[1]})
    bad = ctx.coq_eval("c10", IMPORTS, exprs, shard=80)
    if bad is None:
        return
    ctx.traces += len(exprs)
    for i in bad[:10]:
        fn, d, extra, prior = descr[i]
        extra = [] if extra is None else extra
        data = pack(d, extra, prior or [])
        why = predicate(d, extra, prior or []) if in_quantifier(d) and all(0 < len(x) < 256 for x in extra) else None
        if why:
            ctx.fail(why[0], data, why[1])
        else:
            ctx.broken("correspondence: Model.ConfTlv.%s differs from the implementation" % fn, data)


# ---------------------------------------------------------------------------
# search: the property predicate on the real implementation

def pack(d, extra, prior):
    return {"dict": [[k, v, (None if c is None else bytes(c).hex())] for (k, v), c in d.items()],
            "extra": [bytes(x).hex() for x in extra],
            "extra_form": getattr(extra, "form", "list"),
            "prior": [[[[t, bytes(v).hex()] for t, v in desc], bytes(blob).hex(), alen, flag]
                      for desc, blob, alen, flag in prior]}


def unpack(data):
    d = {(k, v): (None if c is None else bytes.fromhex(c)) for k, v, c in data["dict"]}
    extra = with_form([bytes.fromhex(x) for x in data.get("extra", [])], data.get("extra_form", "list"))
    prior = [([(t, bytes.fromhex(v)) for t, v in desc], bytes.fromhex(blob), alen, flag)
             for desc, blob, alen, flag in data.get("prior", [])]
    return d, extra, prior


def predicate(d, extra, prior):
    """(kind, detail) when the implementation violates the property on this input, else None.
    d is inside the quantifier, extra blocks have 1..255 bytes."""
    tl = impl_tlv(d)
    if tl[0] != "ok":
        return ("tlv-raises", tl[1])
    why = check_blocks(d, tl[1])
    if why:
        return ("tlv-blocks", why)
    sc, prior_seen, f = impl_set_config(prior, d, extra)
    too_long = any(len(b) > 255 for b in tl[1])
    if sc[0] != "ok":
        if too_long and sc[1] == "EOverflow":
            return None                      # an oversize entry cannot be framed: loud error, nothing written
        return ("set-config-raises", sc[1])
    if too_long:
        return ("set-config-frames-oversize-block", "block above 255 bytes accepted")
    comps = f.components
    if not comps:
        return ("set-config-no-component", "")
    why = check_component(d, extra, comps[-1])
    if why:
        return ("set-config-component", why)
    # encoding is a function of the dictionary alone: after set_config (which appended the caller's extra blocks to ITS
    # list) the same dictionary still encodes to the same blocks
    tl2 = impl_tlv(d)
    if tl2 != tl:
        return ("tlv-blocks", "conf_dict_to_tlv of the same dictionary gives %r after a set_config with %d extra blocks, %r before"
                % (tl2[1] if tl2[0] == "ok" else tl2, len(list(extra)), tl[1]))
    # the caller owns the component it got: editing its tag list (a hardware filter added, the reboot tag cleared) must
    # not show up in the configuration component of any LATER set_config, on this or another file object - the next
    # evaluation of this predicate would see it
    desc = comps[-1].description
    for t in list(desc):
        if t not in (0xC2, 0xC3):
            desc[t] = b"\x00"
    desc[0xC4] = b"\xee\xee"
    return None


def search(ctx):
    r = ctx.rng
    boost = 8 if ctx.brokens else 1

    def run(d, lab, extra=None, prior=None):
        extra = gen_extra(r) if extra is None else extra
        prior = gen_prior(r) if prior is None else prior
        ctx.case(("search", list(d.items()), extra, getattr(extra, "form", "list")), trivial=not d)
        ctx.dist["search:" + lab] += 1
        if extra:
            ctx.dist["search:extra-as:" + getattr(extra, "form", "list")] += 1
        why = predicate(d, extra, prior)
        if why:
            ctx.fail(why[0], pack(d, extra, prior), why[1])
        return why

    run({}, "empty", [], [])
    run({}, "empty", [b"\x01\x02"], [])
    # the extra blocks (and the components of the file) handed over as every kind of Iterable
    for form in FORMS:
        for blocks in ([b"\x01\x02"], [b"\xaa", bytes(255)], [bytes([i]) * i for i in (1, 2, 3)], []):
            run({}, "forms", with_form(blocks, form), [])
            run({(1, 1): b"ab", (2, None): None}, "forms", with_form(blocks, form), None)
            run(gen_dict(r, 8), "forms", with_form(blocks, form), None)
    for rep in range(boost * (1 if ctx.quick() else 6)):
        for d, lab in landing_dicts(r):
            run(d, lab)
        for d, lab in oversize_dicts(r):
            run(d, lab)
    for d, lab in sweep_dicts(r, all_keys=(not ctx.quick()) or bool(ctx.brokens)):
        run(d, lab, [] if r.random() < 0.8 else None, [])
    for d, lab in grid_dicts(r, ctx.budget(1500, 10 ** 6) * boost, ctx.budget(500, 20000) * boost):
        run(d, lab, [] if r.random() < 0.7 else None, [])
    for _ in range(ctx.budget(10, 300) * boost):        # "any entry count": long dictionaries
        run(gen_dict(r, max_entries=r.choice([100, 300, 600]), force_n=True), "random:long")
    for _ in range(ctx.budget(2000, 100000) * boost):
        run(gen_dict(r), "random")
        if len(ctx.fails) >= 20:
            break
    ctx.extra["rule"] = (
        "dictionaries inside the quantifier (keys 0..0xFFFF, value ids 0..0xFE, contents 0..254 bytes, delete-key alone on its key), "
        "random insertion order: sequences of 1..6 entries with the entry at every position sized so that its block lands on 116/117/118 "
        "(distinct keys, one key, key pairs, deletes in front), oversize entry first/middle/last, the grid keys {0,1,0x620,0xFFFF} x "
        "value ids {0,1,0xFE} x content lengths {0,1,110,111,112,254} as singles/pairs/tuples incl. delete-key and delete-value, random "
        "dictionaries of 0..40 (some 100..600) entries with contents made of FF/00/01/02, sweeps over every content length 0..254, every value id "
        "0..0xFE and keys sweeping both bytes (all 65536 keys in thorough); correspondence additionally a malformed stream (key > 16 bit, "
        "value id 255/256+, content 255/256+ bytes, delete-key with delete-value or set of its key, empty / 256+ byte extra blocks) for "
        "conf_dict_to_tlv, conf_dict_to_list and set_config (components before/after); the extra blocks and the file's components are handed over "
        "as list / tuple / generator / iter(list) / map / deque / one-shot iterable; search decodes conf_dict_to_tlv and the set_config "
        "blob of the real implementation with an independent decoder and checks sizes, emptiness, order, content, extra blocks, tags; "
        "non-trivial = non-empty dictionary; distinct by (entries in insertion order, extra blocks)")


def replay(ctx, data):
    rc = 0
    for f in data.get("fails", []):
        print(f["kind"], f["detail"])
        d, extra, prior = unpack(f["data"])
        tl = impl_tlv(d)
        print(" dict:", [(k, v, None if c is None else "%d bytes" % len(c)) for (k, v), c in d.items()])
        print(" expected operations:", [o[:3] + (("%d bytes" % len(o[3]),) if len(o) > 3 else ()) for o in expected_ops(d)])
        print(" conf_dict_to_tlv ->", tl[0], ([b.hex() for b in tl[1]] if tl[0] == "ok" else tl[1]))
        if tl[0] == "ok":
            print(" block lengths:", [len(b) for b in tl[1]], "predicate:", check_blocks(d, tl[1]))
        sc, _, fobj = impl_set_config(prior, d, extra)
        print(" extra blocks %s handed over as %s" % ([x.hex() for x in extra], extra.form))
        print(" set_config ->", sc[0], (sc[1] if sc[0] == "err" else [(c[0], c[1].hex(), c[2], c[3]) for c in sc[1]][-1:]))
        why = predicate(d, extra, prior)
        print(" property predicate on /repo:", why)
        rc |= why is not None
    for b in data.get("broken", []):
        print("broken:", b["what"])
        try:
            d, extra, prior = unpack(ast.literal_eval(b["detail"]))   # detail is the repr of pack(...)
        except Exception:
            continue
        print(" dict:", list(d.items()))
        tl = impl_tlv(d)
        print(" implementation: conf_dict_to_tlv ->", tl[0], ([b.hex() for b in tl[1]] if tl[0] == "ok" else tl[1]))
        print(" implementation block lengths:", [len(x) for x in tl[1]] if tl[0] == "ok" else tl[1])
        print(" model block lengths:", coq_show("C10", IMPORTS, "rmap (map (@blen byte)) (conf_dict_to_tlv %s)" % qdict(d)))
        if tl[0] == "ok":
            print(" property predicate on /repo:", check_blocks(d, tl[1]) if in_quantifier(d) else "(input outside the quantifier)")
    return 1 if rc else 0
