"""C06 - Encrypted components are stored only as ciphertext and decrypt to the original.

Tie: hand models coq/Model/Bf3.v (writer/reader, C01), Model/ConfTlv.v (set_config, C10),
Model/AesContainer.v (C08) and Model/Segments.v (bf3_set_config, BEC2 framing with AES auth
blocks, output trace of write_file) + correspondence with ciphers registered through
register_AES128 (toy cipher; the same cipher made strict / raising on encrypt / raising on
mac / raising only under the session key; no cipher registered).
Search: the property predicate on the REAL implementation with the REAL plug-in (pyaes):
stored payload == independent AES-128-CBC (zero IV) of the zero-padded content, located by
an independent directory parser; read back == original up to the declared length; needle
scan for plaintext / session key / security code / customer key; plug-in missing or raising
=> writing raises and nothing is emitted."""
import contextlib
import hashlib
import io
import os
import shutil
import tempfile

from vlib import qN, qbytes, qlist, qopt, qres, qbool, run_impl
from props import toycipher
from props import bf3common as B

GEN_DEPS = ("Consts.v", "gen_consts", "Crc.v", "gen_crc", "Pad.v", "gen_pad", "AesFrame.v", "gen_aesframe")
MODEL_TARGETS = ["Model/Bf3.vo", "Model/Bf3Eq.vo", "Model/Cbc.vo", "Model/ConfTlv.vo",
                 "Model/AesContainer.vo", "Model/Segments.vo"]
IMPORTS = ("From Bec2 Require Import Gen.Consts Model.Cbc Model.ConfTlv Model.AesContainer "
           "Model.Bf3 Model.Bf3Eq Model.Segments.")

PRE_FIXED = toycipher.TOY_COQ + """
Definition fail_all (e : err) : bytes -> option bytes -> bytes -> result bytes := fun _ _ _ => Err e.
Definition enc_strict (k : bytes) (iv : option bytes) (d : bytes) : result bytes :=
  if blen d mod 16 =? 0 then toy_enc k iv d else Err EValue.
Definition enc_late (bad : bytes) (e : err) (k : bytes) (iv : option bytes) (d : bytes) : result bytes :=
  if bytes_eqb k bad then Err e else toy_enc k iv d.
Definition okl {A} (r : result (list A)) : list A := match r with Ok x => x | Err _ => [] end.
Definition ne_events (l : list event) : bool := match l with [] => false | _ => true end.
Definition path_obs (t : list event * result unit) (created : bool) (content : str) (r : result unit) : bool :=
  Bool.eqb (ne_events (fst t)) created && str_eqb (crlf_out (written (fst t))) content &&
  res_eqb (fun _ _ => true) (snd t) r.
"""

EXCS = [(ValueError, "EValue"), (KeyError, "EKey"), (TypeError, "EType"), (IndexError, "EIndex"),
        (NotImplementedError, "ENotImpl"), (Exception, "EBare"), (AssertionError, "EAssert"),
        (OverflowError, "EOverflow")]


# ---------------------------------------------------------------------------
# ciphers registered in the implementation for the correspondence, and their model terms

def toy_variant(kind, exc=None, bad_key=None):
    """a cipher class for register_AES128 built on the toy block function"""
    import bec2format

    class Variant(bec2format.AES128):
        def encrypt(self, data):
            if kind == "enc_raises":
                raise exc("cipher failure")
            if kind == "late" and self._key == bad_key:
                raise exc("cipher failure")
            if kind == "strict" and len(data) % 16:
                raise ValueError("data not block aligned")
            return toycipher.toy_encrypt(self._key, self._iv, data)

        def decrypt(self, data):
            return toycipher.toy_decrypt(self._key, self._iv, data)

        def mac(self, data):
            if kind == "mac_raises":
                raise exc("cipher failure")
            return toycipher.toy_encrypt(self._key, self._iv, data)[-16:]
    return Variant


def model_cipher(kind, ename=None, bad_key=None):
    """(enc, mac) Coq terms of the cipher `kind`"""
    if kind == "toy":
        return "toy_enc", "toy_mac"
    if kind == "unreg":
        return "(fail_all ENotImpl)", "(fail_all ENotImpl)"
    if kind == "enc_raises":
        return "(fail_all %s)" % ename, "toy_mac"
    if kind == "mac_raises":
        return "toy_enc", "(fail_all %s)" % ename
    if kind == "late":
        return "(enc_late %s %s)" % (qbytes(bad_key), ename), "toy_mac"
    if kind == "strict":
        return "enc_strict", "toy_mac"
    raise ValueError(kind)


@contextlib.contextmanager
def registered_cls(cls):
    """register a cipher class (None: the library's base class = nothing registered); always
    restore the real plug-in"""
    import bec2format
    import register_crypto_plugin as plug
    bec2format.register_AES128(bec2format.AES128 if cls is None else cls)
    try:
        yield
    finally:
        bec2format.register_AES128(plug.AES128Proxy)


def impl_cipher(kind, exc=None, bad_key=None):
    if kind == "unreg":
        return None
    return toy_variant(kind, exc, bad_key)


# ---------------------------------------------------------------------------
# Coq printers

def qcdict(d):
    return qlist(["((%s, %s), %s)" % (qN(k), qopt(v, qN), qopt(c, qbytes)) for (k, v), c in d.items()], "centry")


def qablock(b):
    if b[0] == "cust":
        ck = "None" if b[2] is None else "(Some (%s, %s))" % (qbytes(b[2]), qN(b[3]))
        return "(ABCustKey %s %s)" % (qbytes(b[1]), ck)
    if b[0] == "update":
        return "(ABUpdate %s %s)" % (qbytes(b[1]), qN(b[2]))
    return "(ABUnknown %s %s)" % (qN(b[1]), qbytes(b[2]))


def qevents(writes):
    return qlist(["(EvWrite %s)" % B.qstr(s) for s in writes], "event")


def qunit_res(r):
    return "(Ok tt)" if r[0] == "ok" else "(Err %s)" % r[1]


class RecStream:
    """a text stream that records every write() call"""

    def __init__(self):
        self.writes = []

    def write(self, s):
        self.writes.append(s)
        return len(s)


def obs_path(writer):
    """run writer(path) on a fresh path; returns (result, created, content)"""
    d = tempfile.mkdtemp(prefix="verif_c06_", dir="/var/tmp")
    path = os.path.join(d, "out.bf3")
    try:
        r = run_impl(lambda: writer(path))
        created = os.path.exists(path)
        content = ""
        if created:
            with open(path, "rb") as fh:
                content = fh.read().decode()
        return r, created, content
    finally:
        shutil.rmtree(d, ignore_errors=True)


# ---------------------------------------------------------------------------
# generators shared by correspondence and search

def gen_cfg(r, valid=False):
    """a configuration dictionary {(key, value): content}; valid: inside the quantifier of C10
    (a delete-key entry never shares its key with another entry: sort() would raise TypeError)"""
    d = {}
    delkeys, valkeys = set(), set()
    for _ in range(r.choice([0, 1, 1, 2, 3, 6])):
        k = r.choice([1, 2, 0x0101, 0x0202, 0x0620, 0xFFFF, r.randrange(0x10000)])
        kind = r.choice(["set", "set", "set", "delval", "delkey"])
        if valid and (k in delkeys or (kind == "delkey" and k in valkeys)):
            continue
        (delkeys if kind == "delkey" else valkeys).add(k)
        if kind == "delkey":
            d[(k, None)] = None
        elif kind == "delval":
            d[(k, r.randrange(0xFF))] = None
        else:
            ln = r.choice([0, 1, 3, 8, 15, 16, 17, 40, 100])
            c = bytes(r.randrange(256) for _ in range(ln))
            if ln and r.random() < 0.4:
                z = r.randrange(1, ln + 1)
                c = c[:ln - z] + bytes(z)          # trailing zeros / all zero
            d[(k, r.randrange(0xFF))] = c
    return d


def gen_blocks(r, allow_odd=True):
    """auth-block descriptions in dictionary order (distinct tags)"""
    blocks = []
    if r.random() < 0.85:
        wkey = B.rkey(r)
        mode = r.choice(["key", "key", "key", "none", "empty", "short", "long"]) if allow_odd else "key"
        if mode == "none":
            ck, pos = None, None
        elif mode == "empty":
            ck, pos = b"", 0
        else:
            n = {"key": 10, "short": 3, "long": 12}[mode]
            ck = bytes(r.randrange(256) for _ in range(n))
            pos = r.choice([0, 0, 0, 5, 16, 26, 30]) if allow_odd else 0
        blocks.append(("cust", wkey, ck, pos))
    if r.random() < 0.85:
        code = bytes(r.randrange(256) for _ in range(r.choice([8, 8, 8, 0, 1, 12]) if allow_odd else 8))
        ver = r.choice([0, 1, 3, 255, r.randrange(256)] + ([256] if allow_odd and r.random() < 0.2 else []))
        blocks.append(("update", code, ver))
    if allow_odd:
        tags = [3, 4, 0x7F, 0xFF] + ([256] if r.random() < 0.1 else [])
        r.shuffle(tags)
        for t in tags[:r.choice([0, 0, 1, 2])]:
            ln = r.choice([0, 1, 5, 32, 255] + ([256] if r.random() < 0.1 else []))
            blocks.append(("unknown", t, bytes(r.randrange(256) for _ in range(ln))))
    r.shuffle(blocks)
    return blocks


def build_bec2(f, blocks, key):
    """Bec2File object and ext_encryptors for a block description (call while the wanted
    cipher is registered: AesEncryptorMixin creates its cipher object in __init__)"""
    from bec2format.bec2file import (Bec2File, SoftwareCustKeyEncryptor, InitCustKeyAuthBlock,
                                     UpdateAuthBlock, UnknownAuthBlock)
    abs_, exts = [], []
    for b in blocks:
        if b[0] == "cust":
            abs_.append(InitCustKeyAuthBlock())
            exts.append(SoftwareCustKeyEncryptor(b[1], b[2], b[3]))
        elif b[0] == "update":
            abs_.append(UpdateAuthBlock(b[1], b[2]))
        else:
            abs_.append(UnknownAuthBlock(b[1], b[2]))
    return Bec2File(f, abs_, key), exts


# ---------------------------------------------------------------------------
# correspondence

def correspondence(ctx):
    r = ctx.rng
    exprs, descr = [], []
    sha = {}
    scale = 4 if ctx.brokens else 1

    def add(expr, what, *info):
        exprs.append(expr)
        descr.append((what,) + info)

    def shacode(code):
        sha[bytes(code)] = hashlib.sha256(code).digest()

    # (a) files with encrypted components: writer, binary at other offsets, reader
    with toycipher.registered():
        for i in range(ctx.budget(40, 800) * scale):
            cm, comps = B.gen_file(r, enc_prob=0.65)
            key = B.rkey(r)
            f = B.build(cm, comps)
            qf = B.qfile_new(cm, comps)
            nenc = sum(1 for c in comps if c[3])
            ctx.dist["a:enc_comps=%d" % nenc] += 1
            w = B.impl_write(f, key)
            add("res_eqb str_eqb (write_file toy_enc toy_mac %s %s) %s" % (qf, qbytes(key), qres(w, B.qstr)),
                "write_file", cm, comps, key)
            ctx.case(("a-write", repr(cm), repr(comps), key), trivial=not nenc)
            off = r.choice([0, 5, 6, 41, 255, 65536, (1 << 32) - 40])
            tb = run_impl(f.to_binary, off, key)
            add("res_eqb bytes_eqb (to_binary toy_enc toy_mac (f_comps %s) %s %s) %s" % (
                qf, qN(off), qbytes(key), qres(tb, qbytes)), "to_binary", comps, key, off)
            ctx.case(("a-bin", repr(comps), key, off), trivial=not nenc)
            if w[0] != "ok":
                continue
            for check, k2 in ((True, key), (False, key)):
                rd = B.impl_read(w[1], check, k2)
                add("res_eqb bf3_eqb (read_file toy_dec toy_mac %s %s %s) %s" % (
                    B.qstr(w[1]), qbool(check), qbytes(k2), qres(rd, B.qbf3_obj)), "read_file", w[1], check, k2)
                ctx.case(("a-read", w[1], check, k2), trivial=not nenc)
            if i == 1:
                ctx.sample({"what": "file with encrypted components", "comments": cm,
                            "components": [[{hex(k): v for k, v in d.items()}, b, a, e] for d, b, a, e in comps],
                            "key": key, "text": w[1][:160]})

        # (b) set_config on a file, then write and read
        for i in range(ctx.budget(40, 800) * scale):
            cm, comps = B.gen_file(r, enc_prob=0.2, max_comps=3)
            if r.random() < 0.4:   # an older configuration component that set_config has to replace
                comps.insert(r.randrange(len(comps) + 1), ({0xC3: b"\x03", 0xC2: b"\x02"}, B.gen_blob(r, r.choice([1, 7, 16, 33])), None, True))
            cfg = gen_cfg(r)
            extra = r.choice([[], [], [], [b"\x01\x02"], [b"\x05" * 20, b"\xff"], [b""], [bytes(256)]])
            key = B.rkey(r)
            f = B.build(cm, comps)
            sc = run_impl(lambda: f.set_config(dict(cfg), list(extra)))
            qcs = qlist([B.qcomp_new(c) for c in comps], "comp")
            qsc = "(bf3_set_config %s %s %s)" % (qcs, qcdict(cfg), qlist([qbytes(x) for x in extra], "bytes"))
            after = ("ok", list(f.components)) if sc[0] == "ok" else sc
            add("res_eqb (list_eqb comp_eqb) %s %s" % (
                qsc, qres(after, lambda cs: qlist([B.qcomp_obj(c) for c in cs], "comp"))), "set_config", comps, cfg, extra)
            ctx.case(("b-set", repr(comps), repr(cfg), repr(extra)))
            ctx.dist["b:set_config->" + (sc[1] if sc[0] == "err" else "ok")] += 1
            if sc[0] != "ok":
                continue
            qf = "(mkBf3 %s (okl %s))" % (B.qcomments(cm), qsc)
            w = B.impl_write(f, key)
            add("res_eqb str_eqb (write_file toy_enc toy_mac %s %s) %s" % (qf, qbytes(key), qres(w, B.qstr)),
                "write_file after set_config", comps, cfg, extra, key)
            ctx.case(("b-write", repr(comps), repr(cfg), key))
            if w[0] == "ok":
                rd = B.impl_read(w[1], True, key)
                add("res_eqb bf3_eqb (read_file toy_dec toy_mac %s true %s) %s" % (
                    B.qstr(w[1]), qbytes(key), qres(rd, B.qbf3_obj)), "read_file after set_config", w[1], key)
                ctx.case(("b-read", w[1], key))
            if i == 1:
                ctx.sample({"what": "set_config", "config": {repr(k): v for k, v in cfg.items()}, "extra": extra,
                            "blob": f.components[-1].blob, "flag": f.components[-1].encrypt_by_session_key})

        # (c) BEC2 framing with AES auth blocks
        for i in range(ctx.budget(40, 800) * scale):
            cm, comps = B.gen_file(r, enc_prob=0.6, max_comps=3)
            blocks = gen_blocks(r)
            key = B.rkey(r) if r.random() < 0.9 else bytes(r.randrange(256) for _ in range(24))
            for b in blocks:
                if b[0] == "update":
                    shacode(b[1])
            f = B.build(cm, comps)
            bec2, exts = build_bec2(f, blocks, key)
            qbl = qlist([qablock(b) for b in blocks], "ablock")
            qf = B.qfile_new(cm, comps)
            tb = run_impl(bec2.to_binary, exts)
            add("res_eqb bytes_eqb (bec2_to_binary toy_enc toy_mac sha_tab %s (f_comps %s) %s) %s" % (
                qbl, qf, qbytes(key), qres(tb, qbytes)), "Bec2File.to_binary", blocks, comps, key)
            ctx.case(("c-bin", repr(blocks), repr(comps), key), trivial=not blocks)
            ctx.dist["c:to_binary->" + (tb[1] if tb[0] == "err" else "ok")] += 1

            def go():
                s = io.StringIO()
                bec2.write_file(s, exts)
                return s.getvalue()
            w = run_impl(go)
            add("res_eqb str_eqb (bec2_write_file toy_enc toy_mac sha_tab %s %s %s) %s" % (
                qbl, qf, qbytes(key), qres(w, B.qstr)), "Bec2File.write_file", blocks, cm, comps, key)
            ctx.case(("c-write", repr(blocks), repr(cm), repr(comps), key), trivial=not blocks)
            if i == 1:
                ctx.sample({"what": "BEC2", "blocks": [list(b) for b in blocks], "key": key,
                            "binary": tb[1][:80] if tb[0] == "ok" else tb[1]})


        # (e) object histories: the model is stateless, so every later write of the same object
        #     must equal the model's output for the object's CURRENT fields
        from bec2format.bf3file import Bf3File
        for i in range(ctx.budget(30, 500) * scale):
            framing = "bec2" if i % 2 else "bf3"
            h = gen_history(r, framing)
            key = h["key"]
            f = B.build(h["comments"], [tuple(x) for x in h["comps"]])
            blocks, pair = None, None
            if framing == "bec2":
                blocks = [("cust", h["wkey"], h["ck"], 0), ("update", h["code"], h["version"])]
                shacode(h["code"])
                pair = build_bec2(f, blocks, key)
            for n, op in enumerate([None] + [tuple(o) for o in h["ops"]], 1):
                what = apply_op(f, op) if op else None
                if what and what[0] == "skip":
                    continue
                if what and what[0] == "key":
                    key = what[1]
                    if pair is not None:
                        pair[0].session_key = key
                if what and what[0] == "otherfile":
                    f2 = Bf3File({"Creator": "second"}, [what[1]])
                    w2 = B.impl_write(f2, what[2])
                    add("res_eqb str_eqb (write_file toy_enc toy_mac %s %s) %s" % (
                        B.qbf3_obj(f2), qbytes(what[2]), qres(w2, B.qstr)),
                        "history: same component object in a second file", h, n)
                    ctx.case(("e2", i, n))
                if pair is not None:
                    def go2():
                        s_ = io.StringIO()
                        pair[0].write_file(s_, pair[1])
                        return s_.getvalue()
                    w = run_impl(go2)
                    add("res_eqb str_eqb (bec2_write_file toy_enc toy_mac sha_tab %s %s %s) %s" % (
                        qlist([qablock(b) for b in blocks], "ablock"), B.qbf3_obj(f), qbytes(key), qres(w, B.qstr)),
                        "history: Bec2File.write_file #%d after %s" % (n, op[0] if op else "creation"), h, n)
                else:
                    w = B.impl_write(f, key)
                    add("res_eqb str_eqb (write_file toy_enc toy_mac %s %s) %s" % (
                        B.qbf3_obj(f), qbytes(key), qres(w, B.qstr)),
                        "history: write_file #%d after %s" % (n, op[0] if op else "creation"), h, n)
                ctx.case(("e", i, n, repr(h)))
                ctx.dist["e:%s/%s" % (framing, op[0] if op else "first")] += 1

    # (d) cipher missing / failing / strict: result and output trace (stream: the write() calls;
    #     path: created?, content)
    kinds = ["toy", "unreg", "enc_raises", "mac_raises", "late", "strict"]
    for i in range(ctx.budget(72, 800) * scale):
        kind = kinds[i % len(kinds)]
        exc, ename = r.choice(EXCS)
        cm, comps = B.gen_file(r, enc_prob=0.6, max_comps=3)
        if i % 12 >= 6 and not comps:
            comps = [B.gen_comp(r, enc=True)]
        if r.random() < 0.5:
            cm = dict(cm)
            cm["Creator"] = "verif"
        key = B.rkey(r)
        bad_key = key if r.random() < 0.8 else bytes(16)
        use_bec2 = (i // len(kinds)) % 2 == 1
        blocks = gen_blocks(r, allow_odd=False) if use_bec2 else None
        via_path = r.random() < 0.35
        menc, mmac = model_cipher(kind, ename, bad_key)
        qf = B.qfile_new(cm, comps)
        ctx.dist["d:%s/%s/%s" % (kind, "bec2" if use_bec2 else "bf3", "path" if via_path else "stream")] += 1
        with registered_cls(toy_variant("toy") if kind == "toy" else impl_cipher(kind, exc, bad_key)):
            f = B.build(cm, comps)
            if use_bec2:
                for b in blocks:
                    if b[0] == "update":
                        shacode(b[1])
                bec2, exts = build_bec2(f, blocks, key)
                writer = lambda sink: bec2.write_file(sink, exts)   # noqa
                mterm = "(bec2_write_file_io %s %s sha_tab @PATH@ %s %s %s)" % (
                    menc, mmac, qlist([qablock(b) for b in blocks], "ablock"), qf, qbytes(key))
            else:
                writer = lambda sink: f.write_file(sink, key)       # noqa
                mterm = "(write_file_io %s %s @PATH@ %s %s)" % (menc, mmac, qf, qbytes(key))
            if via_path:
                res, created, content = obs_path(writer)
                add("path_obs %s %s %s %s" % (mterm.replace("@PATH@", "true"), qbool(created), B.qstr(content), qunit_res(res)),
                    "write_file(path) under cipher " + kind, cm, comps, key, blocks, ename, bad_key, created, content[:80], res)
            else:
                s = RecStream()
                res = run_impl(lambda: writer(s))
                add("trace_eqb %s (%s, %s)" % (mterm.replace("@PATH@", "false"), qevents(s.writes), qunit_res(res)),
                    "write_file(stream) under cipher " + kind, cm, comps, key, blocks, ename, bad_key, s.writes[:3], res)
            ctx.case(("d", kind, ename, repr(cm), repr(comps), key, repr(blocks), via_path), trivial=not comps)
            ctx.dist["d:%s->%s" % (kind, res[1] if res[0] == "err" else "ok")] += 1

    tbl = qlist(["(%s, %s)" % (qbytes(k), qbytes(v)) for k, v in sha.items()], "(bytes * bytes)")
    pre = PRE_FIXED + ("Definition sha_tbl : list (bytes * bytes) := %s.\n"
                       "Definition sha_tab (x : bytes) : bytes :=\n"
                       "  match find (fun p => bytes_eqb (fst p) x) sha_tbl with Some p => snd p | None => [] end.\n" % tbl)
    bad = ctx.coq_eval("c06", IMPORTS, exprs, preamble=pre, shard=60)
    if bad is None:
        return
    ctx.traces += len(exprs)
    for i in bad[:10]:
        ctx.broken("correspondence: model differs from the implementation on %s" % descr[i][0], repr(descr[i])[:1800])


# ---------------------------------------------------------------------------
# search: the property predicate on the real implementation, real plug-in

SIG_BF3 = b"BF3\x00\x00"
SIG_BEC2 = b"BEC2\x00"


def indep_cbc(key, data, iv=bytes(16)):
    """AES-128-CBC written here: block-wise through the bundled AES core, own chaining"""
    from register_crypto_plugin.pyaes.aes import AES
    core = AES(key)
    prev, out = bytes(iv), b""
    assert len(data) % 16 == 0
    for i in range(0, len(data), 16):
        blk = [x ^ y for x, y in zip(data[i:i + 16], prev)]
        prev = bytes(core.encrypt(blk))
        out += prev
    return out


def oracle_selftest():
    """SP 800-38A F.2.1 (CBC-AES128.Encrypt), first two blocks"""
    k = bytes.fromhex("2b7e151628aed2a6abf7158809cf4f3c")
    iv = bytes.fromhex("000102030405060708090a0b0c0d0e0f")
    pt = bytes.fromhex("6bc1bee22e409f96e93d7e117393172aae2d8a571e03ac9c9eb76fac45af8e51")
    ct = bytes.fromhex("7649abac8119b246cee98e9b12e9197d5086cb9b507219ee95db113a917678b2")
    return indep_cbc(k, pt, iv) == ct


def zero_padded(content):
    return content + bytes(-len(content) % 16)


def text_binary(text):
    """the bytes of the hex part of a written file (independent of hex2bin)"""
    head, sep, tail = text.partition("\n\n")
    if text.startswith("\n"):
        head, tail = "", text[1:]
    return bytes.fromhex("".join(tail.split()))


def parse_container(binary):
    """independent parser of the written binary: (auth blocks or None, entries, end of directory);
    entries = (address, stored length, declared length, tags dict)"""
    if binary[:5] == SIG_BF3:
        pos, blocks = 5, None
    elif binary[:5] == SIG_BEC2:
        pos, blocks = 5, []
        while True:
            tag, ln = binary[pos], binary[pos + 1]
            val = binary[pos + 2:pos + 2 + ln]
            pos += 2 + ln
            if tag == 0 and ln == 0:
                break
            blocks.append((tag, val))
    else:
        raise ValueError("signature")
    dsize = int.from_bytes(binary[pos:pos + 4], "big")
    d = binary[pos + 4:pos + 4 + dsize]
    entries, i = [], 0
    while True:
        ln = d[i]
        i += 1
        if ln == 0:
            break
        e = d[i:i + ln]
        i += ln
        adr, total, alen = (int.from_bytes(e[j:j + 4], "big") for j in (0, 4, 8))
        dl = e[28]
        tags, j = {}, 29
        while j < 29 + dl:
            tags[e[j]] = e[j + 2:j + 2 + e[j + 1]]
            j += 2 + e[j + 1]
        entries.append((adr, total, alen, tags))
    return blocks, entries, pos + 4 + dsize


def needles_of(secret, what, win=8):
    """high-entropy windows of a secret (skip windows with few distinct bytes)"""
    out = []
    for i in range(0, max(1, len(secret) - win + 1)):
        w = secret[i:i + win]
        if len(w) >= win and len(set(w)) >= 6:
            out.append((what, i, w))
    return out


def scan(text, binary, needles):
    """first needle found in the binary / in the hex text (any alignment) / as raw characters"""
    up = text.upper()
    for what, i, w in needles:
        if w in binary:
            return "%s[%d:%d] found in the binary at %d" % (what, i, i + len(w), binary.find(w))
        if w.hex().upper() in up.replace("\n", ""):
            return "%s[%d:%d] found in the hex text" % (what, i, i + len(w))
        if w.decode("latin-1") in text:
            return "%s[%d:%d] found as characters in the text" % (what, i, i + len(w))
    return None


def real_variant(kind, bad_key=None):
    """plug-in states built on the REAL plug-in class"""
    import register_crypto_plugin as plug
    if kind == "registered":
        return plug.AES128Proxy
    if kind == "unreg":
        return None

    class Variant(plug.AES128Proxy):
        def encrypt(self, data):
            if kind == "enc_raises":
                raise RuntimeError("cipher failure")
            if kind == "late" and self._key == bad_key:
                raise RuntimeError("cipher failure")
            if kind == "strict" and len(data) % 16:
                raise RuntimeError("data not block aligned")
            return plug.AES128Proxy.encrypt(self, data)

        def mac(self, data):
            if kind == "mac_raises":
                raise RuntimeError("cipher failure")
            return plug.AES128Proxy.encrypt(self, data)[-16:]
    return Variant




def run_case(c):
    """One case on the implementation.  c: framing ('bf3'|'bec2'), comps (list of
    (tags, blob, alen, enc)), cfg (None or a configuration dictionary applied with set_config),
    key, comments, state (plug-in state), sink ('stream'|'path'), wkey/ck/code/version (BEC2),
    scan (bool).  Returns None or (kind, detail)."""
    key, state = c["key"], c.get("state", "registered")
    comps = [tuple(x) for x in c["comps"]]
    with registered_cls(real_variant(state, key)):
        f = B.build(c.get("comments", {}), comps)
        if c.get("cfg") is not None:
            if run_impl(lambda: f.set_config(dict(c["cfg"])))[0] != "ok":
                return None                      # dictionary outside C10's quantifier: not a case of C06
            last = f.components[-1]
            if last.encrypt_by_session_key is not True or last.description.get(0xC2) != b"\x02":
                return ("config-not-encrypted", "set_config created %r" % (last,))
        return _check_file(f, c, key, state)


def _check_file(f, c, key, state="registered", bec2pair=None):
    """write the object f (as it is NOW) in the framing of c, check the stored payloads against
    the CURRENT content of its components, read back.  Call inside registered_cls(...)."""
    from bec2format.bf3file import Bf3File
    from bec2format.bec2file import Bec2File, ConfigSecurityCodeEncryptor
    # what the caller handed in, component by component
    want = [(dict(x.description), bytes(x.blob), x.actual_len, bool(x.encrypt_by_session_key)) for x in f.components]
    if c["framing"] == "bec2":
        if bec2pair is None:
            blocks = [("cust", c["wkey"], c["ck"], 0), ("update", c["code"], c["version"])]
            bec2pair = build_bec2(f, blocks, key)
        bec2, exts = bec2pair
        writer = lambda sink: bec2.write_file(sink, exts)    # noqa
    else:
        writer = lambda sink: f.write_file(sink, key)        # noqa
    if c.get("sink", "stream") == "path":
        res, created, text = obs_path(writer)
        text = text.replace("\r\n", "\n")
        emitted = created and text != ""
        nwrites = None
    else:
        s = RecStream()
        res = run_impl(lambda: writer(s))
        text = "".join(s.writes)
        emitted = bool(s.writes)
        created = None
        nwrites = len(s.writes)
    anyenc = any(w[3] for w in want)
    bec2_ = c["framing"] == "bec2"
    must_fail = ((state == "unreg" and (bool(want) or bec2_)) or (state == "enc_raises" and (anyenc or bec2_)) or
                 (state == "mac_raises" and bool(want)) or (state == "late" and anyenc))
    if must_fail:
        # the cipher is missing or fails on a call the writer has to make
        if res[0] == "ok":
            why = "writing succeeded although the cipher is %s" % state
            leak = None
            try:
                leak = scan(text, text_binary(text), [n for w in want if w[3] for n in needles_of(w[1], "plaintext")])
            except Exception:   # noqa
                pass
            return ("fail-open", why + ("; " + leak if leak else "") + "; output starts " + repr(text[:80]))
        if emitted or created:
            return ("fail-open", "writing raised %s but output was produced: created=%r writes=%r text=%r" % (
                res[1], created, nwrites, text[:80]))
        return None
    if res[0] != "ok":
        if res[1] == "EOverflow":
            return None
        return ("writer-raised", "write_file raised %s in plug-in state %s" % (res[1], state))
    try:
        binary = text_binary(text)
        blocks_found, entries, _ = parse_container(binary)
    except Exception as e:   # noqa
        return ("layout", "written file cannot be parsed by the independent parser: %r" % (e,))
    if len(entries) != len(want):
        return ("layout", "%d directory entries for %d components" % (len(entries), len(want)))
    for i, ((adr, total, alen, tags), (desc, blob, dlen, enc)) in enumerate(zip(entries, want)):
        stored = binary[adr:adr + total]
        if enc:
            expect = indep_cbc(key, zero_padded(blob))
            if stored != expect:
                how = "the zero-padded plaintext" if stored == zero_padded(blob) else \
                      "the plaintext" if stored == blob else stored.hex()
                return ("stored-not-ciphertext",
                        "component %d (len %d): payload at %d..%d is %s, expected AES-128-CBC(key, IV=0, zero-padded content) = %s" % (
                            i, len(blob), adr, adr + total, how, expect.hex()))
            if alen != dlen or total != len(expect):
                return ("stored-lengths", "component %d: stored length %d declared %d, expected %d / %d" % (
                    i, total, alen, len(expect), dlen))
    if c.get("stored_only"):
        # a component flagged for encryption whose tag list does not say ENC=02: the reader cannot know that it has to
        # decrypt; only the storage clause applies (judged above)
        return None
    # read back with the key: MAC checking on and off, through a stream and (subset) a path
    rexts = exts + [ConfigSecurityCodeEncryptor(c["code"])] if c["framing"] == "bec2" else None
    vias = ("stream", "path") if (c.get("sink") == "path" or c.get("readpath")) else ("stream",)
    for check in (True, False):
        for via in vias:
            how = "check_cmac=%s, %s" % (check, via)
            tmpd = None
            try:
                if via == "path":
                    tmpd = tempfile.mkdtemp(prefix="verif_c06_", dir="/var/tmp")
                    src = os.path.join(tmpd, "in.bf3")
                    with open(src, "w", newline="\r\n") as fh:
                        fh.write(text)
                else:
                    src = io.StringIO(text)
                if c["framing"] == "bec2":
                    rd = run_impl(lambda: Bec2File.read_file(src, rexts, check))
                    got_file = rd[1].bf3file if rd[0] == "ok" else None
                    if rd[0] == "ok" and rd[1].session_key != key:
                        return ("recover", "BEC2 read (%s) returned session key %s" % (how, rd[1].session_key.hex()))
                else:
                    rd = run_impl(lambda: Bf3File.read_file(src, check, key))
                    got_file = rd[1] if rd[0] == "ok" else None
            finally:
                if tmpd:
                    shutil.rmtree(tmpd, ignore_errors=True)
            if rd[0] != "ok":
                return ("recover", "reading the written file with the same key (%s) raised %s" % (how, rd[1]))
            if len(got_file.components) != len(want):
                return ("recover", "%d components read (%s), %d written" % (len(got_file.components), how, len(want)))
            for i, (g, (desc, blob, dlen, enc)) in enumerate(zip(got_file.components, want)):
                if dict(g.description) != desc or g.actual_len != dlen:
                    return ("recover", "component %d (%s): tags/declared length %r/%r, written %r/%r" % (
                        i, how, dict(g.description), g.actual_len, desc, dlen))
                if enc:
                    if bytes(g.blob[:dlen]) != blob[:dlen] or len(g.blob) < dlen:
                        return ("recover", "component %d (len %d, declared %d), read with %s: got %s, original %s" % (
                            i, len(blob), dlen, how, bytes(g.blob).hex(), blob.hex()))
                    if not g.encrypt_by_session_key:
                        return ("recover", "component %d read back (%s) without the encryption flag" % (i, how))
                elif bytes(g.blob) != blob:
                    return ("recover", "plain component %d changed (%s): %s -> %s" % (i, how, blob.hex(), bytes(g.blob).hex()))
    if c.get("scan"):
        needles = []
        for (desc, blob, dlen, enc) in want:
            if enc:
                needles += needles_of(blob, "configuration plaintext")
        needles += needles_of(key, "session key") + ([("session key", 0, key)] if len(set(key)) >= 6 else [])
        if c["framing"] == "bec2":
            needles += needles_of(c["code"], "security code") + needles_of(c["ck"], "customer key")
            needles += [("customer key", 0, c["ck"])] if len(set(c["ck"])) >= 6 else []
            needles += needles_of(c["wkey"], "wrapping key")
        hit = scan(text, binary, needles)
        if hit:
            return ("needle", hit)
    return None



# ---------------------------------------------------------------------------
# object histories: one object is written, changed in place, written again

HIST_LENS = [1, 7, 9, 15, 16, 17, 31, 32, 33, 48]


def hist_blob(r, ln=None):
    ln = ln if ln is not None else r.choice(HIST_LENS)
    b = bytes(r.randrange(256) for _ in range(ln))
    z = min(ln, r.choice([0, 0, 1, 2, 16]))
    return b[:ln - z] + bytes(z) if r.random() < 0.9 else bytes(ln)


def gen_history(r, framing):
    """initial components (at least one encrypted) and 2..5 in-place changes; the file is written
    and checked after every change"""
    comps = []
    for _ in range(r.choice([1, 2, 2, 3])):
        if r.random() < 0.7:
            comps.append(({0xC3: bytes([r.choice([2, 3])]), 0xC2: b"\x02"}, hist_blob(r), None, True))
        else:
            comps.append(rplain(r))
    if not any(c[3] for c in comps):
        comps[r.randrange(len(comps))] = ({0xC3: b"\x03", 0xC2: b"\x02"}, hist_blob(r), None, True)
    ops = []
    n = len(comps)
    for _ in range(r.choice([2, 3, 3, 5])):
        kind = r.choice(["blob", "blob", "blob", "samelen", "alen", "desc", "swap", "plain", "enc", "key", "otherfile", "setcfg"])
        i = r.randrange(n)
        if kind == "blob":
            ops.append(("blob", i, hist_blob(r), None))
        elif kind == "samelen":
            ops.append(("samelen", i, r.randrange(1 << 30)))     # new content of the old length
        elif kind == "alen":
            ops.append(("alen", i, r.randrange(1, 64)))
        elif kind == "desc":
            ops.append(("desc", i, r.choice([0xC1, 0xC5, 0xC8, 0x01]), bytes(r.randrange(256) for _ in range(r.choice([0, 1, 2])))))
        elif kind == "swap":
            ops.append(("swap", i, r.randrange(n)))
        elif kind in ("plain", "enc"):
            ops.append((kind, i))
        elif kind == "key":
            ops.append(("key", keys_of(r)[r.randrange(3)]))
        elif kind == "otherfile":
            ops.append(("otherfile", i, keys_of(r)[1], r.random() < 0.5))
        else:
            ops.append(("setcfg", gen_cfg(r, True)))
    h = {"framing": framing, "comps": comps, "ops": [list(o) for o in ops], "key": keys_of(r)[1 + r.randrange(2)],
         "comments": {"Creator": "verif"}}
    if framing == "bec2":
        h.update(wkey=bytes(r.randrange(256) for _ in range(16)), ck=bytes(r.randrange(256) for _ in range(10)),
                 code=bytes(r.randrange(256) for _ in range(8)), version=r.randrange(256))
    return h


def apply_op(f, op, rng_for_samelen=None):
    """change the object in place; returns ('key', k) / ('otherfile', comp, key, first) / None"""
    import random
    from bec2format.bf3file import Bf3File    # noqa
    comps = f.components
    kind = op[0]
    if kind in ("blob", "samelen", "alen", "desc", "swap", "plain", "enc", "otherfile") and not comps:
        return None
    if kind == "blob":
        c = comps[op[1] % len(comps)]
        c.blob = op[2]
        c.actual_len = op[3] or len(op[2])
    elif kind == "samelen":
        c = comps[op[1] % len(comps)]
        rr = random.Random(op[2])
        c.blob = bytes(rr.randrange(256) for _ in range(len(c.blob)))
    elif kind == "alen":
        c = comps[op[1] % len(comps)]
        c.actual_len = 1 + op[2] % len(c.blob)
    elif kind == "desc":
        comps[op[1] % len(comps)].description[op[2]] = op[3]
    elif kind == "swap":
        i, j = op[1] % len(comps), op[2] % len(comps)
        comps[i], comps[j] = comps[j], comps[i]
    elif kind == "plain":
        c = comps[op[1] % len(comps)]
        c.encrypt_by_session_key = False
        c.description.pop(0xC2, None)
    elif kind == "enc":
        c = comps[op[1] % len(comps)]
        c.encrypt_by_session_key = True
        c.description[0xC2] = b"\x02"
    elif kind == "key":
        return ("key", op[1])
    elif kind == "otherfile":
        return ("otherfile", comps[op[1] % len(comps)], op[2], op[3])
    elif kind == "setcfg":
        if run_impl(lambda: f.set_config(dict(op[1])))[0] != "ok":
            return ("skip",)
    return None


def run_history(h):
    """the history on the real implementation with the real plug-in: after every change the file
    is written again and must hold the CURRENT content.  Returns None or (kind, detail)."""
    from bec2format.bf3file import Bf3File
    key = h["key"]
    with registered_cls(real_variant("registered")):
        f = B.build(h.get("comments", {}), [tuple(x) for x in h["comps"]])
        c = dict(h)
        pair = None
        if h["framing"] == "bec2":
            pair = build_bec2(f, [("cust", h["wkey"], h["ck"], 0), ("update", h["code"], h["version"])], key)
        v = _check_file(f, c, key, "registered", pair)
        if v:
            return (v[0], "write #1: " + v[1])
        for n, op in enumerate(h["ops"], 2):
            op = tuple(op)
            what = apply_op(f, op)
            if what and what[0] == "skip":
                continue
            if what and what[0] == "key":
                key = what[1]
                if pair is not None:
                    pair[0].session_key = key
            if what and what[0] == "otherfile":
                # the same component object inside a second file written with another key
                comp, key2, first = what[1], what[2], what[3]
                f2 = Bf3File({"Creator": "second"}, [comp] if first else [B.build({}, [rplain_fixed()]).components[0], comp])
                v = _check_file(f2, {"framing": "bf3"}, key2)
                if v:
                    return (v[0] + "-history", "write #%d (same component object in a second file, other key): %s" % (n, v[1]))
            v = _check_file(f, c, key, "registered", pair)
            if v:
                return (v[0] + "-history", "write #%d after %s: %s" % (n, op[0], v[1]))
    return None


def rplain_fixed():
    return ({0xC3: b"\x02"}, b"firmware", None, False)


def contents(r):
    """(content, label): lengths 1..64 x trailing zeros 0..min(len,18), all-zero contents"""
    for ln in list(range(1, 65)) + [65, 79, 80, 81, 255, 256, 257, 1023]:
        for tz in range(0, min(ln, 18) + 1):
            yield bytes(r.randrange(1, 256) for _ in range(ln - tz)) + bytes(tz), "len%%16=%d" % (ln % 16)
        if ln > 18:
            yield bytes(ln), "allzero"


def rplain(r):
    return ({0xC3: bytes([r.choice([0, 1, 2])])}, bytes(r.randrange(256) for _ in range(r.choice([1, 5, 16, 40]))), None, False)


def mk_case(r, framing, content, alen, key, state="registered", sink="stream", scan_=False, cfg=None, comments=None):
    comps = []
    if content is not None:
        # a configuration-type component; when set_config follows (it replaces the first
        # configuration component) the component under test is given another type
        comps = [({0xC3: b"\x03" if cfg is None else b"\x02", 0xC2: b"\x02", 0xC1: b"\x03"}, content, alen, True)]
        pos = r.choice([0, 0, 1, 2])
        for _ in range(pos):
            comps.insert(r.randrange(len(comps) + 1), rplain(r))
    elif r.random() < 0.5:
        comps = [rplain(r)]
    c = {"framing": framing, "comps": comps, "cfg": cfg, "key": key, "state": state, "sink": sink, "scan": scan_,
         "comments": comments if comments is not None else {"Creator": "verif"}}
    if framing == "bec2":
        c.update(wkey=bytes(r.randrange(256) for _ in range(16)), ck=bytes(r.randrange(256) for _ in range(10)),
                 code=bytes(r.randrange(256) for _ in range(8)), version=r.randrange(256))
    return c


def keys_of(r):
    return [bytes(16), bytes(r.randrange(256) for _ in range(16)),
            bytes(r.randrange(1, 256) for _ in range(r.choice([13, 15]))).ljust(16, b"\0")]


def search(ctx):
    r = ctx.rng
    hard = bool(ctx.brokens)

    def go(c, label):
        ctx.case(("s", label, repr(sorted((k, repr(v)) for k, v in c.items()))))
        ctx.dist["s:" + label] += 1
        try:
            v = run_case(c)
        except Exception as e:   # noqa
            import traceback
            v = ("crash", "checking crashed: %r %s" % (e, traceback.format_exc()[-600:]))
        if v:
            ctx.fail(v[0], c, v[1])
        return v

    if not oracle_selftest():
        ctx.fail("aes-core-not-sp800-38a", {"vector": "SP 800-38A F.2.1"},
                 "the bundled AES core (pyaes.aes.AES) under CBC chaining does not reproduce SP 800-38A F.2.1")
    # 1. exhaustive content enumeration x keys x framing
    n = 0
    for content, label in contents(r):
        keys = keys_of(r)
        ln = len(content)
        tz = ln - len(content.rstrip(b"\0"))
        alens = [None]
        if tz and ln - tz >= 1 and n % 3 == 0:
            alens = [ln - tz]                    # the declared length stops before the zeros
        elif n % 7 == 0 and ln > 1:
            alens = [ln - 1]
        if ctx.quick() and not hard:
            combos = [("bf3", keys[n % 3]), ("bec2", keys[(n + 1) % 3])]
        else:
            combos = [(fr, k) for fr in ("bf3", "bec2") for k in keys]
        for fr, k in combos:
            for al in alens:
                go(mk_case(r, fr, content, al, k), "%s/%s" % (fr, label))
        n += 1
    # 2. configurations written through set_config (blob ends in 00)
    for i in range(ctx.budget(80, 1500) * (4 if hard else 1)):
        k = keys_of(r)[i % 3]
        go(mk_case(r, "bf3" if i % 2 else "bec2", None, None, k, cfg=gen_cfg(r, True), sink="path" if i % 9 == 0 else "stream"),
           "set_config")
    # 3. needle scan with high-entropy contents and secrets
    for i in range(ctx.budget(120, 3000) * (4 if hard else 1)):
        ln = r.choice([8, 9, 15, 16, 17, 31, 32, 33, 48, 64, 100])
        content = bytes(r.randrange(256) for _ in range(ln))
        k = keys_of(r)[1 + i % 2]
        c = mk_case(r, "bec2" if i % 2 else "bf3", content, None, k, scan_=True,
                    cfg=gen_cfg(r, True) if i % 5 == 0 else None, sink="path" if i % 10 == 0 else "stream",
                    comments=B.gen_comments(r))
        go(c, "scan")
    # 4. plug-in states: nothing registered / raising on encrypt / raising on mac / raising only
    #    under the session key => raises and emits nothing; strict plug-in => everything as usual
    for i in range(ctx.budget(100, 1500) * (4 if hard else 1)):
        state = ("unreg", "enc_raises", "mac_raises", "late", "strict")[i % 5]
        ln = r.choice([1, 7, 8, 15, 16, 17, 33, 64])
        content = bytes(r.randrange(256) for _ in range(ln))
        k = keys_of(r)[1 + (i // 5) % 2]
        fr = "bec2" if (i // 5) % 2 else "bf3"
        go(mk_case(r, fr, content if i % 4 else None, None, k, state=state, sink="path" if (i // 10) % 2 else "stream",
                   cfg=gen_cfg(r, True) if i % 4 == 0 else None), "state:%s/%s" % (state, fr))
    # 4b. components handed over with the encryption flag set but WITHOUT the ENC=02 tag (no ENC tag, 00, 01): the flag
    #     decides - they are stored as ciphertext like any other flagged component
    for i in range(ctx.budget(40, 600) * (4 if hard else 1)):
        ln = r.choice([1, 8, 15, 16, 17, 32, 33, 48])
        content = bytes(r.randrange(256) for _ in range(ln))
        k = keys_of(r)[i % 3]
        c = mk_case(r, "bec2" if i % 2 else "bf3", content, None, k)
        tags = dict(c["comps"][[x[3] for x in c["comps"]].index(True)][0])
        enc_tag = [None, b"\x00", b"\x01", b""][i % 4]
        tags.pop(0xC2, None)
        if enc_tag is not None:
            tags[0xC2] = enc_tag
        c["comps"] = [(tags, x[1], x[2], x[3]) if x[3] else x for x in c["comps"]]
        c["stored_only"] = True
        go(c, "flag-without-tag/%s" % ("none" if enc_tag is None else enc_tag.hex() or "empty"))
    # 5. object histories: write, change a component in place (content, declared length, tags,
    #    flag, order, key, same object in a second file, set_config again), write again
    for i in range(ctx.budget(150, 3000) * (4 if hard else 1)):
        h = gen_history(r, "bec2" if i % 2 else "bf3")
        h["readpath"] = (i % 4 == 0)
        ctx.case(("h", repr(h)))
        ctx.dist["s:history/%s" % h["framing"]] += 1
        try:
            v = run_history(h)
        except Exception as e:   # noqa
            import traceback
            v = ("crash", "checking crashed: %r %s" % (e, traceback.format_exc()[-600:]))
        if v:
            ctx.fail(v[0], dict(h, history=True), v[1])
    ctx.extra["rule"] = (
        "correspondence (toy cipher through register_AES128): files with encrypted components (write_file, to_binary at offsets, "
        "read_file), Bf3File.set_config then write/read, Bec2File.to_binary/write_file with customer-key / update / unknown auth "
        "blocks (sha256 as oracle table), and write_file under ciphers {toy, none registered, raising on encrypt, raising on mac, "
        "raising only under the session key, strict about alignment} comparing result AND output trace (write() calls of a "
        "recording stream; for a path: file created?, content). "
        "search (real plug-in): contents of length 1..64 (+65,79..81,255..257,1023) x trailing-zero runs 0..min(len,18) + all-zero, "
        "keys {zero, random, zero-tailed}, BF3 and BEC2 (customer-key block + update block) framing, declared length "
        "{len, len-zeros, len-1}; configurations through set_config; predicate: payload located by an independent parser == "
        "independent AES-128-CBC(key, IV 0, zero-padded content), lengths, read back (check_cmac True and False; stream, and path on a subset) == original up to the declared length, "
        "needle scan (8-byte windows of plaintext / session key / security code / customer key / wrapping key with >= 6 distinct "
        "bytes) over binary and text, and for plug-in states {unregistered, encrypt raising, mac raising, raising under the session "
        "key}: writing raises, no write() call / no file created; object histories (one object written, changed in place - content, "
        "declared length, tags, flag, component order, key, the same component object in a second file with another key, set_config "
        "again - and written again: every write must hold the CURRENT content; the same histories in the correspondence against the "
        "stateless model). non-trivial = has an encrypted component; distinct by full input")


def _unjson(x):
    if isinstance(x, dict) and set(x) == {"hex"}:
        return bytes.fromhex(x["hex"])
    if isinstance(x, dict):
        return {k: _unjson(v) for k, v in x.items()}
    if isinstance(x, list):
        return [_unjson(v) for v in x]
    return x


def replay(ctx, data):
    import ast
    import vlib
    rc = 0
    for f in data.get("fails", []):
        print(f["kind"], f["detail"][:400])
        try:
            c = _unjson(f["data"])
            if c.get("history"):
                c["comps"] = [({int(k): v for k, v in d.items()}, b, a, e) for d, b, a, e in c["comps"]]
                c["ops"] = [[o[0]] + [({ast.literal_eval(k): v for k, v in x.items()} if isinstance(x, dict) else x) for x in o[1:]]
                            for o in c["ops"]]
                v = run_history(c)
                print(" replay on %s:" % vlib.REPO, v)
                rc |= bool(v)
                continue
            if "comps" not in c:
                print(" replay on %s: oracle self-test ->" % vlib.REPO, oracle_selftest())
                rc |= not oracle_selftest()
                continue
            c["comps"] = [({int(k): v for k, v in d.items()}, b, a, e) for d, b, a, e in c["comps"]]
            if c.get("cfg") is not None:
                c["cfg"] = {ast.literal_eval(k): v for k, v in c["cfg"].items()}
            v = run_case(c)
            print(" replay on %s:" % vlib.REPO, v)
            rc |= bool(v)
        except Exception as e:   # noqa
            print(" cannot replay:", repr(e))
    for b in data.get("broken", []):
        print("broken:", b["what"])
        print(b["detail"][:1500])
    return 1 if rc else 0
