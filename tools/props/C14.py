"""C14 - Parsers fail only with format errors and always terminate.
Theorems: error closure + fuel sufficiency of the reader models (Proofs/ClosureProofs.v).
Correspondence: the models' results (incl. the exact error class) equal the
implementation's on heavily mutated BF3/BEC2 texts (toy plug-ins), which ties the
closure theorems to the code.  Search: mutation fuzzing of valid BF3, BEC2 and BF2
files, near-valid and random text on the REAL implementation with the real plug-ins,
every call under an alarm, library-global state compared before/after, plus a
syntactic pass showing that only the register_* functions write module globals."""
import ast
import io
import os
import signal

from vlib import REPO, qN, qbytes, qlist, qopt, qres, qbool, run_impl, canon_exc, FORMAT_OR_VALUE
from props import toycipher, toyecc
from props import bf3common as B
from props import bec2common as C

GEN_DEPS = ("Consts.v", "gen_consts", "Crc.v", "gen_crc", "TagTypes.v", "gen_tagtypes")
MODEL_TARGETS = ["Model/Bec2.vo", "Model/Bec2Eq.vo", "Model/Bf3Eq.vo", "Model/Cbc.vo"]
IMPORTS = C.IMPORTS

INSERTS = ["\n", "\n\n", "00", "FF", ":", "##", "#>", " ", "=", "0x", "load", "REBOOT\n",
           "#>CHECK_FWVER VERSIONDESC=*\n", "#>CHECK_FWVER\n", "##load: 1\n", "#>CRC 0x1234567890\n",
           "#>CRC\n", "##Firmware: 99999 x\n", "#>SELECT FILTER=\n", "#>SELECT_IF PROTOCOL=FOO\n",
           "#>SELECT FILTER=01 01\n", "##Firmware: 1100 X         D-20.07\n", ":0000FE00\n", ":0000FF00\n",
           "G", "\r", "\t", "\x0b", "\x85", " ", "١", "ä",
           "#>load\n", "#>load a=1\n", "##SELECT: abc\n", "##CHECK_FWVER: x\n", "##SELECT_IF: x\n", "##REBOOT: 1\n", "##CRC: zz\n", "##Firmware:\n"]


class Timeout(Exception):
    pass


def _alarm(signum, frame):
    raise Timeout()


def mutate(r, t, ascii_only=False):
    t = list(t)
    for _ in range(r.choice([1, 1, 2, 3, 8])):
        if not t:
            break
        k = r.choice(["flip", "flip", "del", "dup", "ins", "trunc", "swaplines", "dellines", "hexedit", "dropinstr", "tagtype",
                      "dropfirstline"])
        i = r.randrange(len(t))
        if k == "flip":
            t[i] = r.choice("0123456789ABCDEFabcdef:# >=,\n xZ" + ("" if ascii_only else "ä١"))
        elif k == "hexedit":
            t[i] = r.choice("0123456789ABCDEF")
        elif k == "del":
            del t[i:i + r.choice([1, 1, 2, 5, 40])]
        elif k == "dup":
            t[i:i] = t[i:i + r.choice([1, 2, 10, 80])]
        elif k == "ins":
            s = r.choice(INSERTS)
            if ascii_only and any(ord(c) > 127 for c in s):
                s = "0"
            t[i:i] = list(s)
        elif k == "trunc":
            del t[i:]
        elif k in ("tagtype", "dropfirstline"):
            # BF2 data lines ":" index(2) type(1) ...: give one line (preferably the first of a group) another tag type -
            # a continuation type of some family (known to is_known_tagtype but no key of BF2_TAGTYPE_MAP), a mapped
            # type, a marker (FE/FF) or an arbitrary byte; or delete the first data line of a group (wave-6 miss C14_1)
            ls = "".join(t).split("\n")
            dl = [j for j, l in enumerate(ls) if l.startswith(":") and len(l) >= 7]
            first = [j for j in dl if j > 0 and ls[j - 1].startswith(":") and ls[j - 1][5:7].upper() == "FE"]
            if dl:
                j = r.choice(first) if first and r.random() < 0.7 else r.choice(dl)
                if k == "dropfirstline":
                    del ls[j]
                else:
                    ty = r.choice([0x36, 0x37, 0x38, 0x3A, 0x3B, 0x3C, 0x3E, 0x41, 0x44, 0x47, 0x71, 0x72, 0x73, 0x85, 0x86, 0x9F,
                                   0xA3, 0xA4, 0x33, 0x34, 0x35, 0x39, 0x3D, 0x3F, 0x40, 0x48, 0x49, 0x6F, 0x70, 0x74, 0x82, 0x83,
                                   0x84, 0xFE, 0xFF, 0x00, r.randrange(256)])
                    ls[j] = ls[j][:5] + "%02X" % ty + ls[j][7:]
                t = list("\n".join(ls))
        elif k == "dropinstr":
            # remove every "#>" instruction of one name, so that a "##" header of that name stays in force
            name = r.choice(["#>SELECT_IF", "#>SELECT ", "#>CHECK_FWVER", "#>CRC", "#>REBOOT"])
            ls = [l for l in "".join(t).split("\n") if not l.startswith(name)]
            t = list("\n".join(ls))
            if r.random() < 0.7:
                t[0:0] = list(r.choice(["##SELECT: abc\n", "##CHECK_FWVER: x\n", "##SELECT_IF: x\n", "##CRC: 1\n"]))
        else:
            ls = "".join(t).split("\n")
            if len(ls) > 2:
                a, b = r.randrange(len(ls)), r.randrange(len(ls))
                if k == "swaplines":
                    ls[a], ls[b] = ls[b], ls[a]
                else:
                    del ls[a]
            t = list("\n".join(ls))
    return "".join(t)


INNER_LENS = [0, 1, 9, 10, 15, 16, 17, 25, 26, 27, 31, 32, 33, 48]


def craft_inner(r, cm, comps, key, entries):
    """BEC2 text whose auth blocks are correctly framed and encrypted containers around inner payloads of
    arbitrary length (entries: [(tag, selector or None, encryptor object)]): what a reader sees when a
    well-keyed writer of another version emitted a shorter / longer block body"""
    hdr = b"BEC2\0"
    for tag, sel, enc in entries:
        inner = bytes(r.randrange(256) for _ in range(r.choice(INNER_LENS)))
        if r.random() < 0.3:
            inner = key[:len(inner)] + inner[len(key):]
        raw = (b"" if sel is None else bytes([sel])) + enc.encrypt(inner)
        if len(raw) > 255:
            continue
        hdr += bytes([tag, len(raw)]) + raw
    hdr += b"\0\0"
    return B.text_of_binary(cm, hdr + B.build(cm, comps).to_binary(len(hdr), key))



def _handlers():
    """the hang detector counts CPU time of this process (ITIMER_VIRTUAL, 5 s): a parser that loops burns CPU, a machine
    that is merely busy does not; a generous wall-clock alarm (120 s) backs it up.  Returns the old SIGALRM handler."""
    signal.signal(signal.SIGVTALRM, _alarm)
    return signal.signal(signal.SIGALRM, _alarm)


def _arm():
    signal.setitimer(signal.ITIMER_VIRTUAL, 5.0)
    signal.alarm(120)


def _disarm():
    signal.setitimer(signal.ITIMER_VIRTUAL, 0)
    signal.alarm(0)


def guarded(ctx, name, inp, f):
    """run an implementation call under a 5 s alarm; a hang is a C14 violation"""
    old = _handlers()
    _arm()
    try:
        return f()
    except Timeout:
        ctx.fail("hang", {"entry": name, "input": inp[:4000]}, "no result within 5 s of CPU time")
        return None
    finally:
        _disarm()
        signal.signal(signal.SIGALRM, old)


def correspondence(ctx):
    r = ctx.rng
    exprs, descr = [], []
    C.SHA.clear()
    n = ctx.budget(120, 2500) * (3 if ctx.brokens else 1)
    with toycipher.registered(), C.sha_recording(), toyecc.registered() as (ToyPub, ToyPriv):
        for i in range(n):
            cm, comps = B.gen_file(r, enc_prob=0.3, max_comps=2)
            key = B.rkey(r)
            w = B.impl_write(B.build(cm, comps), key)
            if w[0] == "ok":
                for _ in range(3):
                    t = mutate(r, w[1])
                    check = r.random() < 0.8
                    rd = guarded(ctx, "bf3", t, lambda: B.impl_read(t, check, key))
                    if rd is None:
                        continue
                    exprs.append("res_eqb bf3_eqb (read_file toy_dec toy_mac %s %s %s) %s" % (
                        B.qstr(t), qbool(check), qbytes(key), qres(rd, B.qbf3_obj)))
                    descr.append(("bf3", t, check, key))
                    ctx.case(("bf3", t, check, key))
                    ctx.dist["bf3->" + ("ok" if rd[0] == "ok" else rd[1])] += 1
            blocks, encs, decs = C.gen_setup(r)
            toyecc.reset()
            w2 = C.impl_bec2_write(cm, comps, blocks, C.gen_key(r), encs, ToyPub, ToyPriv)
            if w2[0] == "ok":
                for _ in range(3):
                    t = mutate(r, w2[1])
                    ds = r.choice([decs, decs[:1], [], [("ecc", 1, None, toyecc.pub_of(toyecc.keygen(5)))],
                                   [("cust", bytes(16), None, None)], [("csc", bytes(8))],
                                   [("ecc", 0, toyecc.keygen(9), toyecc.pub_of(toyecc.keygen(9)))]])
                    toyecc.reset()
                    rd = guarded(ctx, "bec2", t, lambda: C.impl_bec2_read(t, ds, True, ToyPub, ToyPriv))
                    if rd is None:
                        continue
                    nr = toyecc.STATE["nr"]
                    qd = qlist([C.q_encryptor(e) for e in ds], "encryptor")
                    exprs.append("res_eqb (prod_eqb bec2_eqb N.eqb) (t_read %s %s true 0) %s" % (
                        B.qstr(t), qd, qres(rd, lambda o: "(%s, %s)" % (C.q_bec2_obj(o), qN(nr)))))
                    descr.append(("bec2", t, ds))
                    ctx.case(("bec2", t, repr(ds)))
                    ctx.dist["bec2->" + ("ok" if rd[0] == "ok" else rd[1])] += 1
            # well-keyed blocks around inner payloads of arbitrary length
            ents = []
            for e in decs:
                tag = {"cust": 1, "csc": 2, "ecc": 3}[e[0]]
                eo = ("ecc", e[1], None, e[3]) if e[0] == "ecc" else e
                ents.append((tag, e[1] if e[0] == "ecc" else None, C.mk_encryptor(eo, ToyPub, ToyPriv)))
            if ents:
                kk = C.gen_key(r)
                toyecc.reset()
                cr = run_impl(lambda: craft_inner(r, cm, comps, kk, ents))
                if cr[0] == "ok":
                    t = cr[1]
                    toyecc.reset()
                    rd = guarded(ctx, "bec2", t, lambda: C.impl_bec2_read(t, decs, True, ToyPub, ToyPriv))
                    if rd is not None:
                        nr = toyecc.STATE["nr"]
                        qd = qlist([C.q_encryptor(e) for e in decs], "encryptor")
                        exprs.append("res_eqb (prod_eqb bec2_eqb N.eqb) (t_read %s %s true 0) %s" % (
                            B.qstr(t), qd, qres(rd, lambda o: "(%s, %s)" % (C.q_bec2_obj(o), qN(nr)))))
                        descr.append(("bec2-crafted-inner", t, decs))
                        ctx.case(("bec2i", t, repr(decs)))
                        ctx.dist["bec2 crafted inner->" + ("ok" if rd[0] == "ok" else rd[1])] += 1
    bad = ctx.coq_eval("c14", IMPORTS, exprs, preamble=C.preamble(), shard=120)
    if bad is None:
        return
    ctx.traces += len(exprs)
    for i in bad[:10]:
        ctx.broken("correspondence: reader model differs from the implementation on a mutated %s text" % descr[i][0],
                   repr(descr[i])[:1500])


def global_writers():
    """functions of bec2format that contain `global` statements or assign module attributes"""
    out = {}
    d = os.path.join(REPO, "bec2format")
    for fn in sorted(os.listdir(d)):
        if not fn.endswith(".py"):
            continue
        tree = ast.parse(open(os.path.join(d, fn)).read())
        for node in ast.walk(tree):
            if isinstance(node, (ast.FunctionDef, ast.AsyncFunctionDef)):
                for sub in ast.walk(node):
                    if isinstance(sub, ast.Global):
                        out.setdefault(fn, set()).add(node.name)
    return {k: sorted(v) for k, v in out.items()}


def reaches_register():
    """names called (transitively inside bec2format) by the parsing entry points"""
    calls = {}
    d = os.path.join(REPO, "bec2format")
    for fn in sorted(os.listdir(d)):
        if fn.endswith(".py"):
            tree = ast.parse(open(os.path.join(d, fn)).read())
            for node in ast.walk(tree):
                if isinstance(node, ast.FunctionDef):
                    names = set()
                    for sub in ast.walk(node):
                        if isinstance(sub, ast.Call):
                            f = sub.func
                            names.add(f.id if isinstance(f, ast.Name) else f.attr if isinstance(f, ast.Attribute) else "?")
                    calls.setdefault(node.name, set()).update(names)
    seen, todo = set(), ["read_file", "bf2_import", "create_from_str", "pfid2_filter_to_str"]
    while todo:
        f = todo.pop()
        if f in seen:
            continue
        seen.add(f)
        todo += [c for c in calls.get(f, ()) if c in calls]
    return sorted(x for x in seen if x.startswith("register_"))


def state_snapshot():
    """library-global state: every module-level container / scalar and every class-level
    container of the bec2format package, plus the identity of the registered plug-ins"""
    import sys
    import types
    out = []
    for name in sorted(m for m in sys.modules if m == "bec2format" or m.startswith("bec2format.")):
        mod = sys.modules[name]
        for k, v in sorted(vars(mod).items()):
            if k.startswith("__") and k.endswith("__"):
                continue
            if isinstance(v, (dict, list, set, tuple, bytes, int, str, frozenset)) or v is None:
                out.append((name, k, repr(v)))
            elif isinstance(v, type) and getattr(v, "__module__", None) == name:
                for ck, cv in sorted(vars(v).items()):
                    if isinstance(cv, (dict, list, set, tuple, bytes, int, str)):
                        out.append((name, k + "." + ck, repr(cv)))
                out.append((name, k, id(v)))
            elif isinstance(v, (types.FunctionType, type)):
                out.append((name, k, id(v)))
    return tuple(out)


def search(ctx):
    from bec2format.bf3file import Bf3File, pfid2_filter_to_str
    from bec2format.bec2file import (Bec2File, SoftwareCustKeyEncryptor, EccEncryptor, EccDecryptor,
                                     ConfigSecurityCodeEncryptor, InitCustKeyAuthBlock, InitEccAuthBlock,
                                     UpdateAuthBlock)
    from bec2format.configid import ConfigId
    from bec2format import generate_private_ecc_key
    from props import C13
    r = ctx.rng
    # syntactic frame argument
    gw = global_writers()
    want = {"crypto.py": ["register_AES128", "register_PrivateEccKey", "register_PublicEccKey", "register_random_bytes"]}
    ctx.extra["global_writers"] = gw
    if gw != want:
        ctx.broken("call-graph: functions with `global` statements changed", "%r (expected %r)" % (gw, want))
    rr = reaches_register()
    ctx.extra["parsers_reach_register"] = rr
    if rr:
        ctx.broken("call-graph: a parsing entry point reaches a register_* function", repr(rr))

    priv = generate_private_ecc_key()
    other = generate_private_ecc_key()
    decsets = [[], [EccEncryptor(1)], [EccDecryptor(1, priv)], [SoftwareCustKeyEncryptor(b"k" * 16)],
               [SoftwareCustKeyEncryptor(b"x" * 16)], [ConfigSecurityCodeEncryptor(b"12345678")],
               [ConfigSecurityCodeEncryptor(b"87654321"), EccDecryptor(1, other)],
               [SoftwareCustKeyEncryptor(b"k" * 16, b"c" * 10, 0)], [EccEncryptor(0), EccEncryptor(1), EccEncryptor(3)]]

    def valid_bf3():
        cm, comps = B.gen_file(r, 0.3, 3)
        s = io.StringIO()
        B.build(cm, comps).write_file(s, bytes(16))
        return s.getvalue()

    def valid_bec2():
        cm, comps = B.gen_file(r, 0.3, 2)
        kinds = r.sample(["c", "e", "u"], r.randrange(1, 4))
        blocks = [{"c": InitCustKeyAuthBlock(), "e": InitEccAuthBlock(1), "u": UpdateAuthBlock(b"12345678", 3)}[k] for k in kinds]
        s = io.StringIO()
        try:
            Bec2File(B.build(cm, comps), blocks, bytes(range(16))).write_file(
                s, [SoftwareCustKeyEncryptor(b"k" * 16), EccEncryptor(1, priv.public_key)])
        except OverflowError:
            return valid_bec2()
        return s.getvalue()

    def valid_bf2():
        header, secs, info = C13.gen_file(r, max_bytes=r.choice([30, 120, 400]), nsec=r.choice([1, 1, 2, 3]), defects=False)
        return C13.render_file(r, header, secs)

    snap0 = state_snapshot()
    old = _handlers()

    def run(name, f, inp):
        ctx.case((name, inp))
        _arm()
        try:
            f()
            ctx.dist[name + "->ok"] += 1
        except Timeout:
            ctx.fail("hang", {"entry": name, "input": inp[:4000]}, "no result within 5 s of CPU time")
        except Exception as e:   # noqa
            c = canon_exc(e)
            ctx.dist["%s->%s" % (name, c)] += 1
            if c not in FORMAT_OR_VALUE:
                ctx.fail("unrelated-exception:%s:%s" % (name, c), {"entry": name, "input": inp[:4000]},
                         "%s: %s" % (type(e).__name__, e))
        finally:
            _disarm()
        if state_snapshot() != snap0:
            ctx.fail("global-state-changed", {"entry": name, "input": inp[:4000]}, "")

    n = ctx.budget(500, 25000) * (3 if ctx.brokens else 1)
    try:
        # whole lines of the insert list (instruction-named headers, reserved names, out-of-range values ...) placed at
        # line boundaries of valid BF2 files: first line, before / after every instruction and data-group marker, last line
        line_inserts = [x for x in INSERTS if x.endswith("\n") and len(x) > 2] + [
            "##CRC: 0xDA2AC0048\n", "##Firmware: 70000 X 1.00.00\n", "#>SELECT_IF\n", "##load:\n", "##Load: 1\n", "#>LOAD\n",
            # instructions named like header comments (their value is a parameter dictionary, not a string)
            "#>Creator\n", "#>Creator K=V\n", "#>Bf3Update\n", "#>Bf3Update a=1\n", "#>Firmware\n", "#>Firmware x=1\n",
            "#>FirmwareId a=b\n", "#>FirmwareVersion\n"]
        for _ in range(ctx.budget(2, 12)):
            ls = valid_bf2().split("\n")
            marks = [j for j, l in enumerate(ls) if l.startswith("#") or l[5:7].upper() in ("FE", "FF")]
            spots = sorted(set([0, len(ls)] + marks + [j + 1 for j in marks]))
            if len(spots) > 14:
                spots = sorted(set(r.sample(spots, 12) + [0, len(ls)]))
            for ins in line_inserts:
                for j in spots:
                    t = "\n".join(ls[:j] + [ins[:-1]] + ls[j:])
                    run("bf2", lambda: Bf3File.bf2_import(io.StringIO(t), r.random() < 0.8), t)
            # the same file with one instruction line removed (state of an earlier section / a header stays in force)
            for j in marks:
                t = "\n".join(ls[:j] + ls[j + 1:])
                run("bf2", lambda: Bf3File.bf2_import(io.StringIO(t), r.random() < 0.8), t)
        # files that are correctly MAC'd (built with the independent serialiser and the real cipher) but structurally odd:
        # stored length 0, encrypted components whose stored length is not a multiple of 16, declared length beyond the
        # payload, AES auth blocks of sizes 0, 1, 15, 17, 31 - the parsers get past their checks and reach the cipher
        from props import layoutspec as LS
        ciph = LS.real_aes()

        def ser_body(off, key, fields):
            """LS.ser_body, but also for empty payloads (whose MAC field is then 16 arbitrary bytes)"""
            descs = [LS.ser_tags(f["tags"]) for f in fields]
            dirsize = sum(1 + 45 + len(d) for d in descs) + 1
            adr = off + 4 + dirsize
            directory = b""
            for i, (f, d) in enumerate(zip(fields, descs)):
                pl = f["payload"]
                e = LS.be(4, adr) + LS.be(4, len(pl)) + LS.be(4, f["actual"]) + (ciph.mac(key, None, pl) or bytes(16)) + LS.be(1, len(d)) + d
                e += ciph.mac(key, LS.be(16, i + 1), e)
                directory += LS.be(1, len(e)) + e
                adr += len(pl)
            return LS.be(4, dirsize) + directory + b"\0" + b"".join(f["payload"] for f in fields)
        for _ in range(ctx.budget(12, 150)):
            key = r.choice([bytes(16), bytes(r.randrange(256) for _ in range(16))])
            fields = []
            for _j in range(r.choice([1, 1, 2, 3])):
                enc = r.random() < 0.6
                ln = r.choice([0, 0, 1, 5, 15, 16, 17, 31, 32, 33])
                tags = [(0xC2, b"\x02")] if enc else r.choice([[], [(0xC2, b"\x00")], [(0xC1, b"\x04")]])
                fields.append(dict(tags=tags, actual=r.choice([0, 1, ln, ln + 1, 2 ** 32 - 1]),
                                   payload=bytes(r.randrange(256) for _ in range(ln))))
            body = ser_body(5, key, fields)
            t = "\n" + (b"BF3\0\0" + body).hex().upper() + "\n"
            for chk in (True, False):
                run("bf3", lambda: Bf3File.read_file(io.StringIO(t), chk, key), t)
            blocks = [(r.choice([4, 5, 2, 3]), bytes(r.randrange(256) for _ in range(r.choice([0, 1, 15, 16, 17, 31, 32, 48, 82, 81]))))
                      for _k in range(r.choice([1, 1, 2]))]
            hdr = LS.ser_tlv_header(list(dict(blocks).items()))
            body2 = ser_body(5 + len(hdr), key, fields)
            t2 = "\n" + (b"BEC2\0" + hdr + body2).hex().upper() + "\n"
            for ds in decsets:
                run("bec2", lambda: Bec2File.read_file(io.StringIO(t2), ds, True), t2)
        for i in range(n):
            t = mutate(r, valid_bf3())
            run("bf3", lambda: Bf3File.read_file(io.StringIO(t), r.random() < 0.8, r.choice([bytes(16), b"", b"k" * 15])), t)
            t = mutate(r, valid_bec2())
            ds = r.choice(decsets)
            run("bec2", lambda: Bec2File.read_file(io.StringIO(t), ds, r.random() < 0.8), t)
            t = mutate(r, valid_bf2())
            run("bf2", lambda: Bf3File.bf2_import(io.StringIO(t), r.random() < 0.8), t)
            t = mutate(r, r.choice(["12345-1234-1234-12 name", "foo (version 07)", "x", "09999-0000-0000-99"]))
            run("cfgid", lambda: ConfigId.create_from_str(t), t)
            # identifier texts with format / template / regex metacharacters
            t = list(r.choice(["12345-1234-1234-12 name", "foo (version 07)", "x", "09999-0000-0000-99", ""]))
            for _ in range(r.choice([1, 1, 2, 3])):
                t.insert(r.randrange(len(t) + 1), r.choice(["{}", "{0}", "{name}", "{0.x}", "{2}", "{", "}", "%s", "%d", "%(a)s", "%",
                                                             "$x", "${", "\\1", "\\", "(", ")", "[", "]", "*", "+", "?", "|", "^",
                                                             "\x00", "\u2028", "\r", "\t", "{} {} {}"]))
            t = "".join(t)
            run("cfgid", lambda: ConfigId.create_from_str(t), t)
            # a result handed out is the caller's: changing it must not change what a later parse of the same text returns
            if i % 4 == 0:
                for txt in ("12345-1234-1234-12 name", "foo (version 07)", t):
                    try:
                        r1 = ConfigId.create_from_str(txt)
                        s0 = (r1.customer, r1.project, r1.device, r1.version, r1.name)
                        r1.version, r1.name = 42, "changed by the caller"
                        r2 = ConfigId.create_from_str(txt)
                        s2 = (r2.customer, r2.project, r2.device, r2.version, r2.name)
                    except Exception:   # noqa
                        continue
                    ctx.case(("cfgid-twice", txt))
                    if r2 is r1 or s2 != s0:
                        ctx.fail("global-state-changed", {"entry": "cfgid", "input": txt},
                                 "parsing the same identifier text again returns %r after the first result (%r) was modified by the caller" % (s2, s0))
            if i % 3 == 0:
                cm, comps = B.gen_file(r, 0.3, 1)
                code = bytes(r.randrange(256) for _ in range(8))
                ck = bytes(r.randrange(256) for _ in range(16))
                sel = r.randrange(4)
                allents = [(1, None, SoftwareCustKeyEncryptor(ck)), (2, None, ConfigSecurityCodeEncryptor(code)),
                           (3, sel, EccEncryptor(sel, priv.public_key))]
                ents = r.sample(allents, r.randrange(1, 4))
                dd = [SoftwareCustKeyEncryptor(ck), ConfigSecurityCodeEncryptor(code), EccDecryptor(sel, priv)]
                try:
                    t = craft_inner(r, cm, comps, bytes(r.randrange(256) for _ in range(16)), ents)
                except (OverflowError, ValueError):
                    t = None
                if t is not None:
                    run("bec2", lambda: Bec2File.read_file(io.StringIO(t), dd, r.random() < 0.8), t)
            b = bytes(r.randrange(256) for _ in range(r.randrange(0, 9)))
            b = r.choice([b, b"\x01" + bytes([len(b) // 2]) + b])
            run("pfid2", lambda: pfid2_filter_to_str(b), b.hex())
            if i % 10 == 0:
                t = "".join(chr(r.choice([r.randrange(32, 127), 10, 10, 58, 35, r.randrange(0, 0x2100)])) for _ in range(r.randrange(0, 200)))
                run("bf3", lambda: Bf3File.read_file(io.StringIO(t)), t)
                run("bec2", lambda: Bec2File.read_file(io.StringIO(t), r.choice(decsets)), t)
                run("bf2", lambda: Bf3File.bf2_import(io.StringIO(t)), t)
                run("cfgid", lambda: ConfigId.create_from_str(t), t)
    finally:
        signal.signal(signal.SIGALRM, old)
    ctx.sample({"entry": "bf3", "mutated_text": mutate(r, valid_bf3())[:200]})
    ctx.extra["rule"] = ("mutation fuzzing (char flips, hex edits, deletions, duplications, insertions of instruction fragments, "
                         "truncations, line swaps/deletions; 1-8 edits) of valid BF3 / BEC2 (all block kinds) / BF2 (C13's grammar) files, "
                         "config-id texts (also with format/template/regex metacharacters), filter bytes, BEC2 files whose auth blocks are well-keyed "
                         "containers around inner payloads of every length class, plus unstructured random text; decryptor sets {none, public-only, private, wrong "
                         "key, wrong code, several}; every call under a 5 s alarm; crypto plug-in registrations and module tables compared "
                         "before/after; correspondence: model == implementation (toy plug-ins) incl. the exact error class on mutated "
                         "BF3/BEC2 texts; non-trivial = every case; distinct by (entry, text)")
    ctx.extra["partial"] = "CPython's own termination and the global-state frame are observed, not proved"


def replay(ctx, data):
    import io as _io
    from bec2format.bf3file import Bf3File
    from bec2format.bec2file import Bec2File
    from bec2format.configid import ConfigId
    rc = 0
    for f in data.get("fails", []):
        d = f["data"]
        print(f["kind"], f["detail"][:300])
        ent, inp = d.get("entry"), d.get("input", "")
        fn = {"bf3": lambda: Bf3File.read_file(_io.StringIO(inp)), "bec2": lambda: Bec2File.read_file(_io.StringIO(inp), []),
              "bf2": lambda: Bf3File.bf2_import(_io.StringIO(inp)), "cfgid": lambda: ConfigId.create_from_str(inp)}.get(ent)
        if fn:
            res = run_impl(fn)
            print(" replay on /repo:", res[0], res[1] if res[0] == "err" else "")
            rc |= res[0] == "err" and res[1] not in FORMAT_OR_VALUE
    for b in data.get("broken", []):
        print("broken:", b["what"])
    return 1 if rc else 0
