"""C18 - Signatures verify, reject tampering, interoperate and follow RFC 6979.

Ties
  translator : Gen/Rfc6979.v (bits2int, bits2octets, the integer tests of generate_k) and
               Gen/EcdsaFrag.v (integer fragments of Public_key.verifies / Private_key.sign)
  hand model : Model/Ecdsa.v (digest truncation, codecs incl. the DER pieces, inverse_mod,
               sign / verifies over an abstract curve, generate_k over an abstract hmac)
correspondence: every model function against the implementation; the curve is supplied to
               the model as the cyclic group Z_n with a table of x-coordinates of the points k*G
               that an independent affine implementation computed (complete tables on 16 toy
               curves of prime order 5..257, per-case entries on the 17 shipped curves);
               hmac values are supplied as an oracle table recorded from the run.
search      : the property predicate on the real implementation (all 17 curves x 5 hashes x
               3 encodings x canonize on/off; RFC 6979 Appendix A vectors; single-bit flips of
               message and signature; other key; out-of-range r, s; malformed encodings;
               optional OpenSSL interoperation in both directions)."""
import hashlib
import hmac as _hmac
import os
import shutil
import signal
import subprocess
import tempfile
import types

from vlib import qN, qbytes, qlist, qres, qbool, run_impl, canon_exc



def qZ(n):
    """hexadecimal Z literal (Coq parses long decimal literals slowly)"""
    return "(0x%x)%%Z" % n if n >= 0 else "(-0x%x)%%Z" % -n


GEN_DEPS = ("Rfc6979.v", "gen_rfc6979", "EcdsaFrag.v", "gen_ecdsa_frag")
MODEL_TARGETS = ["Model/Ecdsa.vo"]
IMPORTS = "From Bec2 Require Import Gen.Rfc6979 Gen.EcdsaFrag Model.Ecdsa."

HASHES = ["sha1", "sha224", "sha256", "sha384", "sha512"]
HID = {h: i for i, h in enumerate(HASHES)}

# toy curves of prime order (p, a, b, Gx, Gy, n); found by exhaustive point counting
TOY = [(5, 3, 2, 1, 1, 5), (5, 2, 1, 0, 1, 7), (7, 1, 6, 1, 1, 11), (11, 1, 6, 2, 4, 13),
       (11, 2, 4, 0, 2, 17), (13, 4, 1, 0, 1, 19), (17, 3, 5, 1, 3, 23), (23, 1, 4, 0, 2, 29),
       (23, 5, 1, 0, 1, 31), (29, 4, 9, 0, 3, 37), (59, 2, 25, 0, 5, 61), (59, 1, 13, 1, 29, 67),
       (113, 1, 34, 1, 6, 127), (113, 3, 53, 0, 36, 131), (239, 1, 27, 0, 79, 251),
       (239, 1, 11, 0, 49, 257)]

# RFC 6979 Appendix A.2.3 - A.2.7 (ECDSA, P-192 .. P-521), messages "sample" and "test":
# private keys and (k, r, s).  Cross-checked when this file was written against OpenSSL 3.5
# (nonce-type:1) and an independent implementation of section 3.2.
RFC_KEYS = {
    "NIST192p": 0x6FAB034934E4C0FC9AE67F5B5659A9D7D1FEFD187EE09FD4,
    "NIST224p": 0xF220266E1105BFE3083E03EC7A3A654651F45E37167E88600BF257C1,
    "NIST256p": 0xC9AFA9D845BA75166B5C215767B1D6934E50C3DB36E89B127B8A622B120F6721,
    "NIST384p": 0x6B9D3DAD2E1B8C1C05B19875B6659F4DE23C3B667BF297BA9AA47740787137D896D5724E4C70A825F872C9EA60D2EDF5,
    "NIST521p": 0x0FAD06DAA62BA3B25D2FB40133DA757205DE67F5BB0018FEE8C86E1B68C7E75CAA896EB32F1F47C70855836A6D16FCC1466F6D8FBEC67DB89EC0C08B0E996B83538,
}
RFC_VECTORS = {
    "NIST192p/sha1/sample": ("37D7CA00D2C7B0E5E412AC03BD44BA837FDD5B28CD3B0021",
        "98C6BD12B23EAF5E2A2045132086BE3EB8EBD62ABF6698FF",
        "57A22B07DEA9530F8DE9471B1DC6624472E8E2844BC25B64"),
    "NIST192p/sha1/test": ("D9CF9C3D3297D3260773A1DA7418DB5537AB8DD93DE7FA25",
        "F2141A0EBBC44D2E1AF90A50EBCFCE5E197B3B7D4DE036D",
        "EB18BC9E1F3D7387500CB99CF5F7C157070A8961E38700B7"),
    "NIST192p/sha224/sample": ("4381526B3FC1E7128F202E194505592F01D5FF4C5AF015D8",
        "A1F00DAD97AEEC91C95585F36200C65F3C01812AA60378F5",
        "E07EC1304C7C6C9DEBBE980B9692668F81D4DE7922A0F97A"),
    "NIST192p/sha224/test": ("F5DC805F76EF851800700CCE82E7B98D8911B7D510059FBE",
        "6945A1C1D1B2206B8145548F633BB61CEF04891BAF26ED34",
        "B7FB7FDFC339C0B9BD61A9F5A8EAF9BE58FC5CBA2CB15293"),
    "NIST192p/sha256/sample": ("32B1B6D7D42A05CB449065727A84804FB1A3E34D8F261496",
        "4B0B8CE98A92866A2820E20AA6B75B56382E0F9BFD5ECB55",
        "CCDB006926EA9565CBADC840829D8C384E06DE1F1E381B85"),
    "NIST192p/sha256/test": ("5C4CE89CF56D9E7C77C8585339B006B97B5F0680B4306C6C",
        "3A718BD8B4926C3B52EE6BBE67EF79B18CB6EB62B1AD97AE",
        "5662E6848A4A19B1F1AE2F72ACD4B8BBE50F1EAC65D9124F"),
    "NIST192p/sha384/sample": ("4730005C4FCB01834C063A7B6760096DBE284B8252EF4311",
        "DA63BF0B9ABCF948FBB1E9167F136145F7A20426DCC287D5",
        "C3AA2C960972BD7A2003A57E1C4C77F0578F8AE95E31EC5E"),
    "NIST192p/sha384/test": ("5AFEFB5D3393261B828DB6C91FBC68C230727B030C975693",
        "B234B60B4DB75A733E19280A7A6034BD6B1EE88AF5332367",
        "7994090B2D59BB782BE57E74A44C9A1C700413F8ABEFE77A"),
    "NIST192p/sha512/sample": ("A2AC7AB055E4F20692D49209544C203A7D1F2C0BFBC75DB1",
        "4D60C5AB1996BD848343B31C00850205E2EA6922DAC2E4B8",
        "3F6E837448F027A1BF4B34E796E32A811CBB4050908D8F67"),
    "NIST192p/sha512/test": ("758753A5254759C7CFBAD2E2D9B0792EEE44136C9480527",
        "FE4F4AE86A58B6507946715934FE2D8FF9D95B6B098FE739",
        "74CF5605C98FBA0E1EF34D4B5A1577A7DCF59457CAE52290"),
    "NIST224p/sha1/sample": ("7EEFADD91110D8DE6C2C470831387C50D3357F7F4D477054B8B426BC",
        "22226F9D40A96E19C4A301CE5B74B115303C0F3A4FD30FC257FB57AC",
        "66D1CDD83E3AF75605DD6E2FEFF196D30AA7ED7A2EDF7AF475403D69"),
    "NIST224p/sha1/test": ("2519178F82C3F0E4F87ED5883A4E114E5B7A6E374043D8EFD329C253",
        "DEAA646EC2AF2EA8AD53ED66B2E2DDAA49A12EFD8356561451F3E21C",
        "95987796F6CF2062AB8135271DE56AE55366C045F6D9593F53787BD2"),
    "NIST224p/sha224/sample": ("C1D1F2F10881088301880506805FEB4825FE09ACB6816C36991AA06D",
        "1CDFE6662DDE1E4A1EC4CDEDF6A1F5A2FB7FBD9145C12113E6ABFD3E",
        "A6694FD7718A21053F225D3F46197CA699D45006C06F871808F43EBC"),
    "NIST224p/sha224/test": ("DF8B38D40DCA3E077D0AC520BF56B6D565134D9B5F2EAE0D34900524",
        "C441CE8E261DED634E4CF84910E4C5D1D22C5CF3B732BB204DBEF019",
        "902F42847A63BDC5F6046ADA114953120F99442D76510150F372A3F4"),
    "NIST224p/sha256/sample": ("AD3029E0278F80643DE33917CE6908C70A8FF50A411F06E41DEDFCDC",
        "61AA3DA010E8E8406C656BC477A7A7189895E7E840CDFE8FF42307BA",
        "BC814050DAB5D23770879494F9E0A680DC1AF7161991BDE692B10101"),
    "NIST224p/sha256/test": ("FF86F57924DA248D6E44E8154EB69F0AE2AEBAEE9931D0B5A969F904",
        "AD04DDE87B84747A243A631EA47A1BA6D1FAA059149AD2440DE6FBA6",
        "178D49B1AE90E3D8B629BE3DB5683915F4E8C99FDF6E666CF37ADCFD"),
    "NIST224p/sha384/sample": ("52B40F5A9D3D13040F494E83D3906C6079F29981035C7BD51E5CAC40",
        "B115E5E36F0F9EC81F1325A5952878D745E19D7BB3EABFABA77E953",
        "830F34CCDFE826CCFDC81EB4129772E20E122348A2BBD889A1B1AF1D"),
    "NIST224p/sha384/test": ("7046742B839478C1B5BD31DB2E862AD868E1A45C863585B5F22BDC2D",
        "389B92682E399B26518A95506B52C03BC9379A9DADF3391A21FB0EA4",
        "414A718ED3249FF6DBC5B50C27F71F01F070944DA22AB1F78F559AAB"),
    "NIST224p/sha512/sample": ("9DB103FFEDEDF9CFDBA05184F925400C1653B8501BAB89CEA0FBEC14",
        "74BD1D979D5F32BF958DDC61E4FB4872ADCAFEB2256497CDAC30397",
        "A4CECA196C3D5A1FF31027B33185DC8EE43F288B21AB342E5D8EB084"),
    "NIST224p/sha512/test": ("E39C2AA4EA6BE2306C72126D40ED77BF9739BB4D6EF2BBB1DCB6169D",
        "49F050477C5ADD858CAC56208394B5A55BAEBBE887FDF765047C17C",
        "77EB13E7005929CEFA3CD0403C7CDCC077ADF4E44F3C41B2F60ECFF"),
    "NIST256p/sha1/sample": ("882905F1227FD620FBF2ABF21244F0BA83D0DC3A9103DBBEE43A1FB858109DB4",
        "61340C88C3AAEBEB4F6D667F672CA9759A6CCAA9FA8811313039EE4A35471D32",
        "6D7F147DAC089441BB2E2FE8F7A3FA264B9C475098FDCF6E00D7C996E1B8B7EB"),
    "NIST256p/sha1/test": ("8C9520267C55D6B980DF741E56B4ADEE114D84FBFA2E62137954164028632A2E",
        "CBCC86FD6ABD1D99E703E1EC50069EE5C0B4BA4B9AC60E409E8EC5910D81A89",
        "1B9D7B73DFAA60D5651EC4591A0136F87653E0FD780C3B1BC872FFDEAE479B1"),
    "NIST256p/sha224/sample": ("103F90EE9DC52E5E7FB5132B7033C63066D194321491862059967C715985D473",
        "53B2FFF5D1752B2C689DF257C04C40A587FABABB3F6FC2702F1343AF7CA9AA3F",
        "B9AFB64FDC03DC1A131C7D2386D11E349F070AA432A4ACC918BEA988BF75C74C"),
    "NIST256p/sha224/test": ("669F4426F2688B8BE0DB3A6BD1989BDAEFFF84B649EEB84F3DD26080F667FAA7",
        "C37EDB6F0AE79D47C3C27E962FA269BB4F441770357E114EE511F662EC34A692",
        "C820053A05791E521FCAAD6042D40AEA1D6B1A540138558F47D0719800E18F2D"),
    "NIST256p/sha256/sample": ("A6E3C57DD01ABE90086538398355DD4C3B17AA873382B0F24D6129493D8AAD60",
        "EFD48B2AACB6A8FD1140DD9CD45E81D69D2C877B56AAF991C34D0EA84EAF3716",
        "F7CB1C942D657C41D436C7A1B6E29F65F3E900DBB9AFF4064DC4AB2F843ACDA8"),
    "NIST256p/sha256/test": ("D16B6AE827F17175E040871A1C7EC3500192C4C92677336EC2537ACAEE0008E0",
        "F1ABB023518351CD71D881567B1EA663ED3EFCF6C5132B354F28D3B0B7D38367",
        "19F4113742A2B14BD25926B49C649155F267E60D3814B4C0CC84250E46F0083"),
    "NIST256p/sha384/sample": ("9F634B188CEFD98E7EC88B1AA9852D734D0BC272F7D2A47DECC6EBEB375AAD4",
        "EAFEA039B20E9B42309FB1D89E213057CBF973DC0CFC8F129EDDDC800EF7719",
        "4861F0491E6998B9455193E34E7B0D284DDD7149A74B95B9261F13ABDE940954"),
    "NIST256p/sha384/test": ("16AEFFA357260B04B1DD199693960740066C1A8F3E8EDD79070AA914D361B3B8",
        "83910E8B48BB0C74244EBDF7F07A1C5413D61472BD941EF3920E623FBCCEBEB6",
        "8DDBEC54CF8CD5874883841D712142A56A8D0F218F5003CB0296B6B509619F2C"),
    "NIST256p/sha512/sample": ("5FA81C63109BADB88C1F367B47DA606DA28CAD69AA22C4FE6AD7DF73A7173AA5",
        "8496A60B5E9B47C825488827E0495B0E3FA109EC4568FD3F8D1097678EB97F00",
        "2362AB1ADBE2B8ADF9CB9EDAB740EA6049C028114F2460F96554F61FAE3302FE"),
    "NIST256p/sha512/test": ("6915D11632ACA3C40D5D51C08DAF9C555933819548784480E93499000D9F0B7F",
        "461D93F31B6540894788FD206C07CFA0CC35F46FA3C91816FFF1040AD1581A04",
        "39AF9F15DE0DB8D97E72719C74820D304CE5226E32DEDAE67519E840D1194E55"),
    "NIST384p/sha1/sample": ("4471EF7518BB2C7C20F62EAE1C387AD0C5E8E470995DB4ACF694466E6AB096630F29E5938D25106C3C340045A2DB01A7",
        "EC748D839243D6FBEF4FC5C4859A7DFFD7F3ABDDF72014540C16D73309834FA37B9BA002899F6FDA3A4A9386790D4EB2",
        "A3BCFA947BEEF4732BF247AC17F71676CB31A847B9FF0CBC9C9ED4C1A5B3FACF26F49CA031D4857570CCB5CA4424A443"),
    "NIST384p/sha1/test": ("66CC2C8F4D303FC962E5FF6A27BD79F84EC812DDAE58CF5243B64A4AD8094D47EC3727F3A3C186C15054492E30698497",
        "4BC35D3A50EF4E30576F58CD96CE6BF638025EE624004A1F7789A8B8E43D0678ACD9D29876DAF46638645F7F404B11C7",
        "D5A6326C494ED3FF614703878961C0FDE7B2C278F9A65FD8C4B7186201A2991695BA1C84541327E966FA7B50F7382282"),
    "NIST384p/sha224/sample": ("A4E4D2F0E729EB786B31FC20AD5D849E304450E0AE8E3E341134A5C1AFA03CAB8083EE4E3C45B06A5899EA56C51B5879",
        "42356E76B55A6D9B4631C865445DBE54E056D3B3431766D0509244793C3F9366450F76EE3DE43F5A125333A6BE060122",
        "9DA0C81787064021E78DF658F2FBB0B042BF304665DB721F077A4298B095E4834C082C03D83028EFBF93A3C23940CA8D"),
    "NIST384p/sha224/test": ("18FA39DB95AA5F561F30FA3591DC59C0FA3653A80DAFFA0B48D1A4C6DFCBFF6E3D33BE4DC5EB8886A8ECD093F2935726",
        "E8C9D0B6EA72A0E7837FEA1D14A1A9557F29FAA45D3E7EE888FC5BF954B5E62464A9A817C47FF78B8C11066B24080E72",
        "7041D4A7A0379AC7232FF72E6F77B6DDB8F09B16CCE0EC3286B2BD43FA8C6141C53EA5ABEF0D8231077A04540A96B66"),
    "NIST384p/sha256/sample": ("180AE9F9AEC5438A44BC159A1FCB277C7BE54FA20E7CF404B490650A8ACC414E375572342863C899F9F2EDF9747A9B60",
        "21B13D1E013C7FA1392D03C5F99AF8B30C570C6F98D4EA8E354B63A21D3DAA33BDE1E888E63355D92FA2B3C36D8FB2CD",
        "F3AA443FB107745BF4BD77CB3891674632068A10CA67E3D45DB2266FA7D1FEEBEFDC63ECCD1AC42EC0CB8668A4FA0AB0"),
    "NIST384p/sha256/test": ("CFAC37587532347DC3389FDC98286BBA8C73807285B184C83E62E26C401C0FAA48DD070BA79921A3457ABFF2D630AD7",
        "6D6DEFAC9AB64DABAFE36C6BF510352A4CC27001263638E5B16D9BB51D451559F918EEDAF2293BE5B475CC8F0188636B",
        "2D46F3BECBCC523D5F1A1256BF0C9B024D879BA9E838144C8BA6BAEB4B53B47D51AB373F9845C0514EEFB14024787265"),
    "NIST384p/sha384/sample": ("94ED910D1A099DAD3254E9242AE85ABDE4BA15168EAF0CA87A555FD56D10FBCA2907E3E83BA95368623B8C4686915CF9",
        "94EDBB92A5ECB8AAD4736E56C691916B3F88140666CE9FA73D64C4EA95AD133C81A648152E44ACF96E36DD1E80FABE46",
        "99EF4AEB15F178CEA1FE40DB2603138F130E740A19624526203B6351D0A3A94FA329C145786E679E7B82C71A38628AC8"),
    "NIST384p/sha384/test": ("15EE46A5BF88773ED9123A5AB0807962D193719503C527B031B4C2D225092ADA71F4A459BC0DA98ADB95837DB8312EA",
        "8203B63D3C853E8D77227FB377BCF7B7B772E97892A80F36AB775D509D7A5FEB0542A7F0812998DA8F1DD3CA3CF023DB",
        "DDD0760448D42D8A43AF45AF836FCE4DE8BE06B485E9B61B827C2F13173923E06A739F040649A667BF3B828246BAA5A5"),
    "NIST384p/sha512/sample": ("92FC3C7183A883E24216D1141F1A8976C5B0DD797DFA597E3D7B32198BD35331A4E966532593A52980D0E3AAA5E10EC3",
        "ED0959D5880AB2D869AE7F6C2915C6D60F96507F9CB3E047C0046861DA4A799CFE30F35CC900056D7C99CD7882433709",
        "512C8CCEEE3890A84058CE1E22DBC2198F42323CE8ACA9135329F03C068E5112DC7CC3EF3446DEFCEB01A45C2667FDD5"),
    "NIST384p/sha512/test": ("3780C4F67CB15518B6ACAE34C9F83568D2E12E47DEAB6C50A4E4EE5319D1E8CE0E2CC8A136036DC4B9C00E6888F66B6C",
        "A0D5D090C9980FAF3C2CE57B7AE951D31977DD11C775D314AF55F76C676447D06FB6495CD21B4B6E340FC236584FB277",
        "976984E59B4C77B0E8E4460DCA3D9F20E07B9BB1F63BEEFAF576F6B2E8B224634A2092CD3792E0159AD9CEE37659C736"),
    "NIST521p/sha1/sample": ("89C071B419E1C2820962321787258469511958E80582E95D8378E0C2CCDB3CB42BEDE42F50E3FA3C71F5A76724281D31D9C89F0F91FC1BE4918DB1C03A5838D0F9",
        "343B6EC45728975EA5CBA6659BBB6062A5FF89EEA58BE3C80B619F322C87910FE092F7D45BB0F8EEE01ED3F20BABEC079D202AE677B243AB40B5431D497C55D75D",
        "E7B0E675A9B24413D448B8CC119D2BF7B2D2DF032741C096634D6D65D0DBE3D5694625FB9E8104D3B842C1B0E2D0B98BEA19341E8676AEF66AE4EBA3D5475D5D16"),
    "NIST521p/sha1/test": ("BB9F2BF4FE1038CCF4DABD7139A56F6FD8BB1386561BD3C6A4FC818B20DF5DDBA80795A947107A1AB9D12DAA615B1ADE4F7A9DC05E8E6311150F47F5C57CE8B222",
        "13BAD9F29ABE20DE37EBEB823C252CA0F63361284015A3BF430A46AAA80B87B0693F0694BD88AFE4E661FC33B094CD3B7963BED5A727ED8BD6A3A202ABE009D0367",
        "1E9BB81FF7944CA409AD138DBBEE228E1AFCC0C890FC78EC8604639CB0DBDC90F717A99EAD9D272855D00162EE9527567DD6A92CBD629805C0445282BBC916797FF"),
    "NIST521p/sha224/sample": ("121415EC2CD7726330A61F7F3FA5DE14BE9436019C4DB8CB4041F3B54CF31BE0493EE3F427FB906393D895A19C9523F3A1D54BB8702BD4AA9C99DAB2597B92113F3",
        "1776331CFCDF927D666E032E00CF776187BC9FDD8E69D0DABB4109FFE1B5E2A30715F4CC923A4A5E94D2503E9ACFED92857B7F31D7152E0F8C00C15FF3D87E2ED2E",
        "50CB5265417FE2320BBB5A122B8E1A32BD699089851128E360E620A30C7E17BA41A666AF126CE100E5799B153B60528D5300D08489CA9178FB610A2006C254B41F"),
    "NIST521p/sha224/test": ("40D09FCF3C8A5F62CF4FB223CBBB2B9937F6B0577C27020A99602C25A01136987E452988781484EDBBCF1C47E554E7FC901BC3085E5206D9F619CFF07E73D6F706",
        "1C7ED902E123E6815546065A2C4AF977B22AA8EADDB68B2C1110E7EA44D42086BFE4A34B67DDC0E17E96536E358219B23A706C6A6E16BA77B65E1C595D43CAE17FB",
        "177336676304FCB343CE028B38E7B4FBA76C1C1B277DA18CAD2A8478B2A9A9F5BEC0F3BA04F35DB3E4263569EC6AADE8C92746E4C82F8299AE1B8F1739F8FD519A4"),
    "NIST521p/sha256/sample": ("EDF38AFCAAECAB4383358B34D67C9F2216C8382AAEA44A3DAD5FDC9C32575761793FEF24EB0FC276DFC4F6E3EC476752F043CF01415387470BCBD8678ED2C7E1A0",
        "1511BB4D675114FE266FC4372B87682BAECC01D3CC62CF2303C92B3526012659D16876E25C7C1E57648F23B73564D67F61C6F14D527D54972810421E7D87589E1A7",
        "4A171143A83163D6DF460AAF61522695F207A58B95C0644D87E52AA1A347916E4F7A72930B1BC06DBE22CE3F58264AFD23704CBB63B29B931F7DE6C9D949A7ECFC"),
    "NIST521p/sha256/test": ("1DE74955EFAABC4C4F17F8E84D881D1310B5392D7700275F82F145C61E843841AF09035BF7A6210F5A431A6A9E81C9323354A9E69135D44EBD2FCAA7731B909258",
        "E871C4A14F993C6C7369501900C4BC1E9C7B0B4BA44E04868B30B41D8071042EB28C4C250411D0CE08CD197E4188EA4876F279F90B3D8D74A3C76E6F1E4656AA8",
        "CD52DBAA33B063C3A6CD8058A1FB0A46A4754B034FCC644766CA14DA8CA5CA9FDE00E88C1AD60CCBA759025299079D7A427EC3CC5B619BFBC828E7769BCD694E86"),
    "NIST521p/sha384/sample": ("1546A108BC23A15D6F21872F7DED661FA8431DDBD922D0DCDB77CC878C8553FFAD064C95A920A750AC9137E527390D2D92F153E66196966EA554D9ADFCB109C4211",
        "1EA842A0E17D2DE4F92C15315C63DDF72685C18195C2BB95E572B9C5136CA4B4B576AD712A52BE9730627D16054BA40CC0B8D3FF035B12AE75168397F5D50C67451",
        "1F21A3CEE066E1961025FB048BD5FE2B7924D0CD797BABE0A83B66F1E35EEAF5FDE143FA85DC394A7DEE766523393784484BDF3E00114A1C857CDE1AA203DB65D61"),
    "NIST521p/sha384/test": ("1F1FC4A349A7DA9A9E116BFDD055DC08E78252FF8E23AC276AC88B1770AE0B5DCEB1ED14A4916B769A523CE1E90BA22846AF11DF8B300C38818F713DADD85DE0C88",
        "14BEE21A18B6D8B3C93FAB08D43E739707953244FDBE924FA926D76669E7AC8C89DF62ED8975C2D8397A65A49DCC09F6B0AC62272741924D479354D74FF6075578C",
        "133330865C067A0EAF72362A65E2D7BC4E461E8C8995C3B6226A21BD1AA78F0ED94FE536A0DCA35534F0CD1510C41525D163FE9D74D134881E35141ED5E8E95B979"),
    "NIST521p/sha512/sample": ("1DAE2EA071F8110DC26882D4D5EAE0621A3256FC8847FB9022E2B7D28E6F10198B1574FDD03A9053C08A1854A168AA5A57470EC97DD5CE090124EF52A2F7ECBFFD3",
        "C328FAFCBD79DD77850370C46325D987CB525569FB63C5D3BC53950E6D4C5F174E25A1EE9017B5D450606ADD152B534931D7D4E8455CC91F9B15BF05EC36E377FA",
        "617CCE7CF5064806C467F678D3B4080D6F1CC50AF26CA209417308281B68AF282623EAA63E5B5C0723D8B8C37FF0777B1A20F8CCB1DCCC43997F1EE0E44DA4A67A"),
    "NIST521p/sha512/test": ("16200813020EC986863BEDFC1B121F605C1215645018AEA1A7B215A564DE9EB1B38A67AA1128B80CE391C4FB71187654AAA3431027BFC7F395766CA988C964DC56D",
        "13E99020ABF5CEE7525D16B69B229652AB6BDF2AFFCAEF38773B4B7D08725F10CDB93482FDCC54EDCEE91ECA4166B2A7C6265EF0CE2BD7051B7CEF945BABD47EE6D",
        "1FBD0013C674AA79CB39849527916CE301C66EA7CE8B80682786AD60F98F7E78A19CA69EFF5C57400E3B3A0AD66CE0978214D13BAF4E9AC60752F7B155E2DE4DCE3"),}


# ---------------------------------------------------------------------------
# independent oracle (written from RFC 6979 / FIPS 186-4 / SEC 1, affine arithmetic)

def o_bits2int(b, qlen):
    v = int.from_bytes(b, "big")
    bl = 8 * len(b)
    return v >> (bl - qlen) if bl > qlen else v


def o_int2octets(x, q):
    return x.to_bytes((q.bit_length() + 7) // 8, "big")


def o_bits2octets(b, q):
    z1 = o_bits2int(b, q.bit_length())
    z2 = z1 - q
    return o_int2octets(z1 if z2 < 0 else z2, q)


def o_candidates(q, x, h1, hname, extra=b""):
    """RFC 6979 section 3.2 / 3.6: the stream of all candidates, suitable or not"""
    def H(k, m):
        return _hmac.new(k, m, hname).digest()
    hlen = hashlib.new(hname).digest_size
    qlen = q.bit_length()
    V = b"\x01" * hlen
    K = b"\x00" * hlen
    seed = o_int2octets(x, q) + o_bits2octets(h1, q) + extra
    K = H(K, V + b"\x00" + seed)
    V = H(K, V)
    K = H(K, V + b"\x01" + seed)
    V = H(K, V)
    while True:
        T = b""
        while 8 * len(T) < qlen:
            V = H(K, V)
            T += V
        yield o_bits2int(T, qlen)
        K = H(K, V + b"\x00")
        V = H(K, V)


def o_generate_k(q, x, h1, hname, extra=b"", skip=0):
    for k in o_candidates(q, x, h1, hname, extra):
        if 1 <= k <= q - 1:
            if skip <= 0:
                return k
            skip -= 1


def o_add(P, Q, p, a):
    if P is None:
        return Q
    if Q is None:
        return P
    x1, y1 = P
    x2, y2 = Q
    if x1 == x2:
        if (y1 + y2) % p == 0:
            return None
        lam = (3 * x1 * x1 + a) * pow(2 * y1, -1, p) % p
    else:
        lam = (y2 - y1) * pow(x2 - x1, -1, p) % p
    x3 = (lam * lam - x1 - x2) % p
    return (x3, (lam * (x1 - x3) - y1) % p)


def o_mul(k, P, p, a):
    R = None
    while k:
        if k & 1:
            R = o_add(R, P, p, a)
        P = o_add(P, P, p, a)
        k >>= 1
    return R


class OC:
    """curve parameters for the oracle, read from a curve object of the library"""

    def __init__(self, curve):
        self.curve = curve
        self.name = curve.name
        self.p, self.a, self.b = curve.curve.p(), curve.curve.a(), curve.curve.b()
        self.G = (curve.generator.x(), curve.generator.y())
        self.n = curve.order
        self.qlen = self.n.bit_length()
        self.cache = {}

    def mulG(self, k):
        k %= self.n
        if k not in self.cache:
            if len(self.cache) > 4000:
                self.cache.clear()
            self.cache[k] = o_mul(k, self.G, self.p, self.a)
        return self.cache[k]

    def verify(self, Q, e, r, s):
        n = self.n
        if not (1 <= r <= n - 1 and 1 <= s <= n - 1):
            return False
        w = pow(s, -1, n)
        X = o_add(self.mulG(e * w % n), o_mul(r * w % n, Q, self.p, self.a), self.p, self.a)
        return X is not None and X[0] % n == r

    def e_of(self, digest):
        return o_bits2int(digest, self.qlen)


# ---------------------------------------------------------------------------
# implementation access

def L():
    from register_crypto_plugin.ecdsa import curves, keys, util, ecdsa, rfc6979, der, ellipticcurve, numbertheory
    return types.SimpleNamespace(curves=curves, keys=keys, util=util, ecdsa=ecdsa, rfc6979=rfc6979,
                                 der=der, ec=ellipticcurve, nt=numbertheory)


def real_curves(lib):
    out = [c for c in lib.curves.curves if not c.name.startswith("Ed")]
    assert len(out) == 17, [c.name for c in out]
    return out


_TOYC = {}


def toy_curves(lib):
    if not _TOYC:
        for (p, a, b, gx, gy, n) in TOY:
            cf = lib.ec.CurveFp(p, a, b, 1)
            G = lib.ec.PointJacobi(cf, gx, gy, 1, n, generator=True)
            _TOYC[n] = lib.curves.Curve("toy%d" % n, cf, G, (1, 3, 9999, n))
    return [_TOYC[t[5]] for t in TOY]


def sx(lib, e):
    """exception -> constructor of Model.Ecdsa.serr (None when it has no image)"""
    if isinstance(e, lib.util.MalformedSignature):
        return "SMalformed"
    if isinstance(e, lib.keys.BadSignatureError):
        return "SBadSig"
    if isinstance(e, lib.keys.BadDigestError):
        return "SBadDigest"
    if isinstance(e, lib.ecdsa.RSZeroError):
        return "SRSZero"
    c = canon_exc(e)
    return None if c.startswith("EOther") else "(SBase %s)" % c


def run_s(lib, f, *a, **k):
    try:
        return ("ok", f(*a, **k))
    except Exception as e:    # noqa
        return ("err", sx(lib, e), type(e).__name__)


def qsres(r, f):
    if r[0] == "ok":
        return "(SOk %s)" % f(r[1])
    return "(SErr %s)" % r[1]


def qzz(p):
    return "(%s, %s)" % (qZ(p[0]), qZ(p[1]))


def qbb(p):
    return "(%s, %s)" % (qbytes(p[0]), qbytes(p[1]))


def rbytes(r, n):
    return bytes(r.randrange(256) for _ in range(n))


def rint(r, bits):
    return r.getrandbits(bits) if bits else 0


class Hang(Exception):
    pass


class deadline:
    """bound the time of calls that contain retry loops in the implementation
    (generate_k, sign_digest_deterministic): a mutated loop must not hang the check"""

    def __init__(self, seconds=30):
        self.seconds = seconds

    def _fire(self, *a):
        raise Hang("no result after %ds" % self.seconds)

    def __enter__(self):
        try:
            self.old = signal.signal(signal.SIGALRM, self._fire)
            signal.signal(signal.SIGVTALRM, self._fire)
            signal.setitimer(signal.ITIMER_VIRTUAL, float(self.seconds))     # CPU time of this process: immune to a busy machine
            signal.alarm(10 * self.seconds)                                   # wall-clock backstop
            self.armed = True
        except ValueError:          # not in the main thread
            self.armed = False
        return self

    def __exit__(self, *a):
        if self.armed:
            signal.setitimer(signal.ITIMER_VIRTUAL, 0)
            signal.alarm(0)
            signal.signal(signal.SIGALRM, self.old)
        return False


class HmacRecorder:
    """stands in for the `hmac` module inside rfc6979.py and records (hash, key, msg, digest)"""

    def __init__(self):
        self.calls = []

    def new(self, key, msg=None, digestmod=None):
        rec = self

        class Obj:
            def __init__(s):
                s.h = _hmac.new(key, msg, digestmod)
                s.key = bytes(key)
                s.msg = bytes(msg) if msg is not None else b""

            def update(s, m):
                s.msg += bytes(m)
                s.h.update(m)

            def digest(s):
                d = s.h.digest()
                rec.calls.append((s.h.name.replace("hmac-", ""), s.key, s.msg, d))
                return d
        return Obj()


class recording:
    def __init__(self, lib):
        self.lib = lib

    def __enter__(self):
        self.rec = HmacRecorder()
        self.old = self.lib.rfc6979.hmac
        self.lib.rfc6979.hmac = self.rec
        return self.rec

    def __exit__(self, *a):
        self.lib.rfc6979.hmac = self.old


def qhmac(calls):
    seen, items = set(), []
    for (hn, k, m, d) in calls:
        if (hn, k, m) in seen:
            continue
        seen.add((hn, k, m))
        items.append("(%s, %s, %s, %s)" % (qN(HID[hn]), qbytes(k), qbytes(m), qbytes(d)))
    return "(hmac_tab %s)" % qlist(items, "(N * bytes * bytes * bytes)")


PRE = ("Definition hsize (h : N) : Z := nth (N.to_nat h) [20; 28; 32; 48; 64]%Z 0%Z.\n"
       "Definition enc_rs (r s o : Z) : result (Z * Z) := Ok (r, s).\n"
       "Definition pair_bytes_eqb := prod_eqb bytes_eqb bytes_eqb.\n")


# ---------------------------------------------------------------------------
# correspondence

class Cases:
    def __init__(self, ctx):
        self.ctx = ctx
        self.exprs = []
        self.descr = []

    def add(self, group, expr, descr, key=None, trivial=False):
        if "EOther_" in expr:        # an exception class the model has no image for: a mismatch
            expr, descr = "false", descr + " [implementation raised an exception outside the model's error enum]"
        self.exprs.append(expr)
        self.descr.append((group, descr))
        self.ctx.case((group, key if key is not None else descr), trivial=trivial)
        self.ctx.dist[group] += 1

    def add_s(self, group, model, r, f, eqb, descr):
        """r = run_s(...) result; an exception without an image in the model is a mismatch"""
        if r[0] == "err" and r[1] is None:
            self.add(group, "false", descr + " impl raised " + r[2])
        else:
            self.add(group, "sres_eqb %s (%s) %s" % (eqb, model, qsres(r, f)), descr)
        self.ctx.dist["%s->%s" % (group, "ok" if r[0] == "ok" else r[2])] += 1


def interesting_orders(lib, r):
    out = [c.order for c in real_curves(lib)] + [t[5] for t in TOY]
    out += [1, 2, 3, 15, 16, 17, 255, 256, 257, 65535, 65536, 65537, (1 << 64) - 59, (1 << 127) - 1,
            (1 << 128) + 51, (1 << 255) - 19]
    for _ in range(6):
        bits = r.choice([4, 8, 9, 12, 16, 31, 33, 63, 100, 161, 256, 257, 384, 521, 600])
        out.append(r.getrandbits(bits) | (1 << (bits - 1)) | 1)
    return out


def corr_ints(ctx, lib, cs):
    r = ctx.rng
    U = lib.util
    orders = interesting_orders(lib, r)
    for o in orders + [0]:
        cs.add("orderlen", "Z.eqb (orderlen %s) %s" % (qZ(o), qZ(U.orderlen(o))), "orderlen(%d)" % o)
        cs.add("bit_length", "Z.eqb (bit_length %s) %s" % (qZ(o), qZ(U.bit_length(o))), "bit_length(%d)" % o)
    nn = ctx.budget(1, 8)
    for o in orders:
        l = U.orderlen(o)
        nums = [0, max(o - 1, 0), o, 256 ** l - 1, 256 ** l, 16 * 256 ** l, -1]
        if not ctx.quick():
            nums += [1, 256 ** (l + 1), -o - 16]
        nums += [r.randrange(0, max(o, 2)) for _ in range(nn)] + [r.getrandbits(8 * l + r.choice([0, 3, 4, 8, 13]))]
        for num in nums:
            for fn in ("number_to_string", "number_to_string_crop"):
                got = run_impl(getattr(U, fn), num, o)
                cs.add(fn, "res_eqb bytes_eqb (%s %s %s) %s" % (fn, qZ(num), qZ(o), qres(got, qbytes)),
                       "%s(%d, %d)" % (fn, num, o))
    # string_to_number
    for ln in [0, 1, 2, 20, 32, 66]:
        b = rbytes(r, ln)
        got = run_impl(U.string_to_number, b)
        cs.add("string_to_number", "res_eqb Z.eqb (string_to_number %s) %s" % (qbytes(b), qres(got, qZ)),
               "string_to_number(%s)" % b.hex())
    # inverse_mod
    ms = [1, 2, 3, 4, 5, 7, 8, 9, 15, 16, 21, 25, 97, 255, 256, 257, 1009, 1 << 32, (1 << 61) - 1] + \
        r.sample([c.order for c in real_curves(lib)], ctx.budget(6, 17)) + [c.curve.p() for c in real_curves(lib)[:2]] + \
        [r.getrandbits(r.choice([10, 64, 200, 521])) + 2 for _ in range(ctx.budget(6, 60))] + [0]
    for m in ms:
        as_ = [0, 1, 2, m - 1, m, m + 1, 2 * m, -1, -2, m // 2, m // 3] + \
              [r.randrange(0, max(m, 2)) for _ in range(ctx.budget(3, 20))] + [r.getrandbits(600), -r.getrandbits(70)]
        for a in as_:
            if m == 0 and a == 0:
                pass
            got = run_impl(lib.nt.inverse_mod, a, m)
            cs.add("inverse_mod", "res_eqb Z.eqb (inverse_mod %s %s) %s" % (qZ(a), qZ(m), qres(got, qZ)),
                   "inverse_mod(%d, %d)" % (a, m))
    # bits2int / bits2octets / digest truncation
    lens = list(range(0, 5)) + [13, 14, 15, 16, 19, 20, 21, 24, 28, 31, 32, 33, 40, 47, 48, 49, 63, 64, 65, 66, 67, 80, 128]
    for ln in lens:
        for _ in range(ctx.budget(1, 4)):
            d = rbytes(r, ln)
            if ln and r.random() < 0.3:
                d = bytes([r.choice([0, 1, 0x80, 0xFF])]) + d[1:]
            if ln and r.random() < 0.2:
                d = d[:-1] + bytes([r.choice([0, 1, 0x80, 0xFF])])
            qlens = [0, 1, 7, 8, 9, 8 * ln - 1, 8 * ln, 8 * ln + 1, 112, 160, 161, 192, 256, 521, r.randrange(0, 700)]
            for q in qlens:
                if q < 0:
                    continue
                got = run_impl(lib.rfc6979.bits2int, d, q)
                cs.add("bits2int", "res_eqb Z.eqb (bits2int %s %s) %s" % (qbytes(d), qZ(q), qres(got, qZ)),
                       "bits2int(%s, %d)" % (d.hex(), q))
            for o in r.sample(orders, ctx.budget(3, 16)):
                got = run_impl(lib.rfc6979.bits2octets, d, o)
                cs.add("bits2octets", "res_eqb bytes_eqb (bits2octets bit_length number_to_string_crop %s %s) %s" % (
                    qbytes(d), qZ(o), qres(got, qbytes)), "bits2octets(%s, %d)" % (d.hex(), o))
                cv = types.SimpleNamespace(order=o, baselen=U.orderlen(o), name="synthetic")
                for allow in (True, False):
                    got = run_s(lib, lib.keys._truncate_and_convert_digest, d, cv, allow)
                    cs.add_s("truncate_digest", "truncate_and_convert_digest %s %s %s" % (qbytes(d), qZ(o), qbool(allow)),
                             got, qZ, "Z.eqb", "_truncate_and_convert_digest(%s, order=%d, %s)" % (d.hex(), o, allow))
    # the real curve objects: baselen is orderlen(order)
    for c in real_curves(lib):
        cs.add("baselen", "Z.eqb (orderlen %s) %s" % (qZ(c.order), qZ(c.baselen)), "baselen of %s" % c.name)
        for hn in HASHES:
            d = hashlib.new(hn, rbytes(r, 8)).digest()
            for allow in (True, False):
                got = run_s(lib, lib.keys._truncate_and_convert_digest, d, c, allow)
                cs.add_s("truncate_digest", "truncate_and_convert_digest %s %s %s" % (qbytes(d), qZ(c.order), qbool(allow)),
                         got, qZ, "Z.eqb", "_truncate_and_convert_digest(%s, %s, %s)" % (d.hex(), c.name, allow))


ENC = {"string": ("sigencode_string", "sigdecode_string"),
       "strings": ("sigencode_strings", "sigdecode_strings"),
       "der": ("sigencode_der", "sigdecode_der")}


def qsig(kind, sig):
    if kind == "strings":
        return qlist([qbytes(x) for x in sig], "bytes")
    return qbytes(sig)


def enc_eqb(kind):
    return "pair_bytes_eqb" if kind == "strings" else "bytes_eqb"


def qenc(kind, v):
    return qbb(v) if kind == "strings" else qbytes(v)


def float_half(o):
    try:
        return int(o / 2)
    except OverflowError:
        return o // 2


def der_int(v):
    b = v.to_bytes(max(1, (v.bit_length() + 8) // 8), "big")   # always room for the sign bit
    while len(b) > 1 and b[0] == 0 and b[1] < 0x80:
        b = b[1:]
    return b


def der_len(l, form="min"):
    if form == "min":
        if l < 0x80:
            return bytes([l])
        s = l.to_bytes((l.bit_length() + 7) // 8, "big")
        return bytes([0x80 | len(s)]) + s
    if form == "long1":
        return bytes([0x81, l & 0xFF])
    if form == "long2":
        return bytes([0x82]) + l.to_bytes(2, "big")
    if form == "indef":
        return b"\x80"
    raise ValueError(form)


def crafted_der(r, rv, sv):
    """DER-like signatures, most of them subtly wrong"""
    ri, si = der_int(rv), der_int(sv)
    kind = r.choice(["valid", "lenform_seq", "lenform_int", "leadzero", "neg", "tag_seq", "tag_int", "zero_len",
                     "seq_short", "seq_long", "junk_in", "junk_out", "int_long", "indef", "three", "one", "empty_seq"])
    if kind == "leadzero":
        ri = b"\x00" + ri
    if kind == "neg":
        ri = bytes([ri[0] | 0x80]) + ri[1:]
    a = b"\x02" + der_len(len(ri), r.choice(["long1", "long2"]) if kind == "lenform_int" else "min") + ri
    b = b"\x02" + der_len(len(si)) + si
    if kind == "tag_int":
        a = bytes([r.choice([0x03, 0x04, 0x22, 0x82])]) + a[1:]
    if kind == "zero_len":
        a = b"\x02\x00"
    if kind == "int_long":
        b = b"\x02" + der_len(len(si) + r.randrange(1, 4)) + si
    if kind == "three":
        b = b + b"\x02\x01\x01"
    if kind == "one":
        b = b""
    body = a + b
    if kind == "empty_seq":
        body = b""
    if kind == "junk_in":
        body += rbytes(r, r.randrange(1, 3))
    ln = len(body)
    if kind == "seq_short":
        ln -= r.randrange(1, 3)
    if kind == "seq_long":
        ln += r.randrange(1, 3)
    form = "min"
    if kind == "lenform_seq":
        form = r.choice(["long1", "long2"])
    if kind == "indef":
        form = "indef"
    out = bytes([0x30 if kind != "tag_seq" else r.choice([0x31, 0x10, 0xB0])]) + der_len(max(ln, 0), form) + body
    if kind == "junk_out":
        out += rbytes(r, r.randrange(1, 3))
    return kind, out


def corr_codecs(ctx, lib, cs):
    r = ctx.rng
    U = lib.util
    orders = [c.order for c in real_curves(lib)] + [t[5] for t in TOY] + \
             [2, 3, 255, 256, 257, 65537, (1 << 53) - 111, (1 << 53) + 5, (1 << 54) - 33, (1 << 60) + 33, (1 << 1023) + 1155,
              (1 << 1025) + 3, (1 << 1024) - 105]
    reps = ctx.budget(1, 8)
    if ctx.quick():
        orders = r.sample(orders[:17], 9) + r.sample(orders[17:33], 4) + orders[33:]
    for o in orders:
        l = U.orderlen(o)
        fh = float_half(o)
        pairs = [(0, 0), (1, 1), (o - 1, o - 1), (o, 1), (1, o), (256 ** l - 1, 1), (1, 256 ** l), (-1, 1), (1, -1),
                 (1, fh), (1, fh + 1), (1, fh - 1), (2, o // 2), (2, o // 2 + 1), (3, o - fh), (3, (o + 1) // 2),
                 (0x7F, 0x80), (0x80 << 8 * (l - 1), 0x7F << 8 * (l - 1))]
        for _ in range(reps):
            pairs.append((r.randrange(1, max(o, 2)), r.randrange(1, max(o, 2))))
            pairs.append((r.randrange(1, max(o, 2)) >> r.randrange(0, 24), r.randrange(1, max(o, 2)) >> r.randrange(8, 40)))
        if ctx.quick():
            pairs = r.sample(pairs[:9], 4) + pairs[9:14] + r.sample(pairs[14:], min(len(pairs) - 14, 3))
        for (rv, sv) in pairs:
            for kind in ("string", "strings", "der"):
                for canon in ("", "_canonize"):
                    fn = ENC[kind][0] + canon
                    got = run_impl(getattr(U, fn), rv, sv, o)
                    cs.add(fn, "res_eqb %s (%s %s %s %s) %s" % (enc_eqb(kind), fn, qZ(rv), qZ(sv), qZ(o),
                                                               qres(got, lambda v: qenc(kind, v))),
                           "%s(%d, %d, %d)" % (fn, rv, sv, o))
                    if got[0] == "ok" and canon == "":
                        sig = got[1]
                        dec = run_s(lib, getattr(U, ENC[kind][1]), sig, o)
                        cs.add_s(ENC[kind][1], "%s %s %s" % (ENC[kind][1], qsig(kind, sig), qZ(o)), dec, qzz, "zz_eqb",
                                 "%s(%s, %d)" % (ENC[kind][1], sig.hex() if kind != "strings" else [x.hex() for x in sig], o))
    # malformed inputs for the decoders
    nm = ctx.budget(260, 3000)
    for i in range(nm):
        o = r.choice(orders[:22])
        l = U.orderlen(o)
        rv, sv = r.randrange(1, max(o, 2)), r.randrange(1, max(o, 2))
        which = r.choice(["string", "strings", "der", "der", "der"])
        if which == "string":
            good = U.sigencode_string(rv, sv, o)
            style = r.choice(["trunc", "ext", "empty", "rand", "one_short", "one_long", "valid"])
            sig = {"trunc": good[:r.randrange(0, len(good))], "ext": good + rbytes(r, r.randrange(1, 4)), "empty": b"",
                   "rand": rbytes(r, r.randrange(0, 2 * l + 3)), "one_short": good[:-1], "one_long": good + b"\0",
                   "valid": good}[style]
            dec = run_s(lib, U.sigdecode_string, sig, o)
            cs.add_s("sigdecode_string/" + style, "sigdecode_string %s %s" % (qbytes(sig), qZ(o)), dec, qzz, "zz_eqb",
                     "sigdecode_string(%s, %d)" % (sig.hex(), o))
        elif which == "strings":
            a, b = U.sigencode_strings(rv, sv, o)
            style = r.choice(["none", "one", "three", "r_short", "s_short", "r_long", "s_long", "both_empty", "valid"])
            sig = {"none": [], "one": [a], "three": [a, b, b], "r_short": [a[1:], b], "s_short": [a, b[:-1]],
                   "r_long": [b"\0" + a, b], "s_long": [a, b + b"\0"], "both_empty": [b"", b""], "valid": [a, b]}[style]
            dec = run_s(lib, U.sigdecode_strings, sig, o)
            cs.add_s("sigdecode_strings/" + style, "sigdecode_strings %s %s" % (qsig("strings", sig), qZ(o)), dec, qzz,
                     "zz_eqb", "sigdecode_strings(%s, %d)" % ([x.hex() for x in sig], o))
        else:
            style = r.choice(["crafted", "crafted", "trunc", "flip", "rand", "ext"])
            good = U.sigencode_der(rv >> r.choice([0, 0, 1, 8, 9]), sv >> r.choice([0, 0, 1, 7, 17]), o)
            if style == "crafted":
                kind, sig = crafted_der(r, rv >> r.choice([0, 1, 8]), sv)
                style += ":" + kind
            elif style == "trunc":
                sig = good[:r.randrange(0, len(good))]
            elif style == "flip":
                bb = bytearray(good)
                pos = r.choice([0, 1, 2, 3, 4, r.randrange(len(bb))]) % len(bb)
                bb[pos] ^= 1 << r.randrange(8)
                sig = bytes(bb)
            elif style == "ext":
                sig = good + rbytes(r, r.randrange(1, 3))
            else:
                sig = rbytes(r, r.randrange(0, 12))
                if sig and r.random() < 0.7:
                    sig = b"\x30" + sig[1:]
            dec = run_s(lib, U.sigdecode_der, sig, o)
            cs.add_s("sigdecode_der/" + style, "sigdecode_der %s %s" % (qbytes(sig), qZ(o)), dec, qzz, "zz_eqb",
                     "sigdecode_der(%s, %d)" % (sig.hex(), o))
    # long DER lengths (P-521 sized and larger)
    for bits in (1016, 1017, 2040, 521, 528):
        rv = (1 << bits) - 1 - r.getrandbits(bits - 9)
        sv = r.getrandbits(bits)
        got = run_impl(U.sigencode_der, rv, sv, 1 << bits)
        cs.add("sigencode_der", "res_eqb bytes_eqb (sigencode_der %s %s %s) %s" % (qZ(rv), qZ(sv), qZ(1 << bits), qres(got, qbytes)),
               "sigencode_der(%d bits)" % bits)
        dec = run_s(lib, U.sigdecode_der, got[1], 1 << bits)
        cs.add_s("sigdecode_der", "sigdecode_der %s %s" % (qbytes(got[1]), qZ(1 << bits)), dec, qzz, "zz_eqb",
                 "sigdecode_der(long %d bits)" % bits)


def corr_generate_k(ctx, lib, cs):
    r = ctx.rng
    R = lib.rfc6979
    orders = [t[5] for t in TOY] + [2, 3, 4, 6, 8, 9, 255, 256, 257, 65536, 65537]
    realo = [c.order for c in real_curves(lib)]
    n = ctx.budget(90, 1200)
    for i in range(n):
        big = r.random() < 0.3
        o = r.choice(realo) if big else r.choice(orders)
        style = r.choice(["plain"] * 6 + ["retry", "retry", "extra", "secexp_big", "empty_data", "retry_neg"])
        x = r.randrange(1, max(o, 2)) if o > 1 else 0
        hn = r.choice(HASHES)
        data = hashlib.new(hn, rbytes(r, 5)).digest() if r.random() < 0.7 else rbytes(r, r.choice([1, 2, 20, 32, 70]))
        retry, extra = 0, b""
        if style == "retry":
            retry = r.randrange(1, 4)
        if style == "retry_neg":
            retry = -r.randrange(1, 3)
        if style == "extra":
            extra = rbytes(r, r.randrange(1, 40))
        if style == "secexp_big":
            x = o + r.randrange(0, 3) if r.random() < 0.5 else 256 ** lib.util.orderlen(o) + r.randrange(0, 5)
        if style == "empty_data":
            data = b""
        with recording(lib) as rec, deadline():
            got = run_impl(R.generate_k, o, x, getattr(hashlib, hn), data, retry, extra)
        fuel = 4 + len(rec.calls)
        cs.add("generate_k/" + ("real" if big else "small") + "/" + style,
               "res_eqb Z.eqb (generate_k N %s hsize %d %s %s %s %s %s %s) %s" % (
                   qhmac(rec.calls), fuel, qZ(o), qZ(x), qN(HID[hn]), qbytes(data), qZ(retry), qbytes(extra), qres(got, qZ)),
               "generate_k(%d, %d, %s, %s, retry_gen=%d, extra_entropy=%s)" % (o, x, hn, data.hex(), retry, extra.hex()))
    # RFC 6979 Appendix A: the model with real hmac values reproduces the published k
    for key, (kk, rr, ss) in sorted(RFC_VECTORS.items()):
        cname, hn, msg = key.split("/")
        if ctx.quick() and msg == "test" and hn not in ("sha1", "sha512"):
            continue
        c = [c for c in real_curves(lib) if c.name == cname][0]
        data = hashlib.new(hn, msg.encode()).digest()
        with recording(lib) as rec:
            got = run_impl(R.generate_k, c.order, RFC_KEYS[cname], getattr(hashlib, hn), data)
        if got != ("ok", int(kk, 16)):
            ctx.fail("rfc6979-vector-k", {"curve": cname, "hash": hn, "msg": msg}, "generate_k=%r published=%s" % (got, kk))
        cs.add("generate_k/rfc-vector",
               "res_eqb Z.eqb (generate_k N %s hsize %d %s %s %s %s 0%%Z []) (Ok %s)" % (
                   qhmac(rec.calls), 4 + len(rec.calls), qZ(c.order), qZ(RFC_KEYS[cname]), qN(HID[hn]), qbytes(data),
                   qZ(int(kk, 16))), "RFC 6979 A.2 vector " + key)


def toy_table(t):
    (p, a, b, gx, gy, n) = t
    return [(k, o_mul(k, (gx, gy), p, a)[0]) for k in range(1, n)]


def qtab(entries):
    return qlist(["(%s, %s)" % (qZ(k), qZ(x)) for k, x in entries], "(Z * Z)")


def grp(n, tab):
    """Coq arguments of the Curve section instantiated with Z_n and a table of x-coordinates"""
    return {"sign": "Z (zn_smul %s) (tab_x %s %s) 1%%Z %s" % (qZ(n), tab, qZ(n), qZ(n)),
            "ver": "Z (zn_padd %s) (zn_smul %s) (tab_x %s %s) 1%%Z %s" % (qZ(n), qZ(n), tab, qZ(n), qZ(n))}


def impl_sign_variants(lib, sk, e, k):
    return run_s(lib, sk.sign_number, e, None, k)


def corr_ecdsa(ctx, lib, cs):
    r = ctx.rng
    E = lib.ecdsa
    pre = ""
    # ---- toy curves: complete tables
    toys = toy_curves(lib)
    for t, cv in zip(TOY, toys):
        n = t[5]
        pre += "Definition T%d : list (Z * Z) := %s.\n" % (n, qtab(toy_table(t)))
        g = grp(n, "T%d" % n)
        per = ctx.budget(7, 150)
        exhaustive = n <= ctx.budget(0, 13)
        trip = [(d, k, e) for d in range(1, n) for k in range(0, n + 2) for e in (0, 1, n - 1, n + 3)] if exhaustive else []
        while len(trip) < per:
            trip.append((r.randrange(1, n), r.choice([r.randrange(1, n)] * 6 + [0, n, n + 1, -1]),
                         r.choice([0, 1, n, r.getrandbits(20), r.getrandbits(200), -r.getrandbits(10)])))
        for (d, k, e) in trip:
            sk = lib.keys.SigningKey.from_secret_exponent(d, cv)
            vk = sk.get_verifying_key()
            got = run_s(lib, sk.sign_number, e, None, k)
            cs.add_s("sign_number/toy", "sign_number %s %s %s %s" % (g["sign"], qZ(d), qZ(e), qZ(k)), got, qzz, "zz_eqb",
                     "toy%d sign_number(d=%d, number=%d, k=%d)" % (n, d, e, k))
            # Private_key.sign with an unreduced nonce
            rk = k + n * r.randrange(0, 3)
            got2 = run_s(lib, lambda: (lambda sg: (sg.r, sg.s))(sk.privkey.sign(e, rk)))
            cs.add_s("Private_key.sign/toy", "sign %s %s %s %s" % (g["sign"], qZ(d), qZ(e), qZ(rk)), got2, qzz, "zz_eqb",
                     "toy%d Private_key.sign(d=%d, hash=%d, random_k=%d)" % (n, d, e, rk))
            if got[0] == "ok":
                rr, ss = got[1]
                sigs = [(rr, ss), (rr, n - ss), (rr + n, ss), (rr, ss + n), (0, ss), (rr, 0), (n, ss), (rr, n), (-rr, ss), (rr, -ss)]
            else:
                sigs = []
            sigs += [(r.randrange(0, n + 2), r.randrange(0, n + 2)) for _ in range(3)]
            # crafted: r = -e/d mod n makes u1*G + u2*Q the point at infinity for every s
            r_inf = (-e * pow(d, -1, n)) % n
            sigs += [(r_inf, sv) for sv in (1, n - 1, r.randrange(1, n))]
            ctx.dist["verifies/toy:infinity-signature"] += 3 if r_inf else 0
            for (a, b) in sigs:
                v = run_impl(vk.pubkey.verifies, e, E.Signature(a, b))
                cs.add("verifies/toy", "res_eqb Bool.eqb (verifies %s %s %s %s %s) %s" % (
                    g["ver"], qZ(d), qZ(e), qZ(a), qZ(b), qres(v, qbool)),
                    "toy%d verifies(Q=%d*G, hash=%d, r=%d, s=%d)" % (n, d, e, a, b))
                ctx.dist["verifies/toy->" + str(v[1])] += 1
        # digest level with the three encodings
        for _ in range(ctx.budget(4, 50)):
            d = r.randrange(1, n)
            sk = lib.keys.SigningKey.from_secret_exponent(d, cv)
            vk = sk.get_verifying_key()
            digest = rbytes(r, r.choice([0, 1, 1, 2, 20, 32]))
            allow = r.random() < 0.7
            k = r.randrange(1, n)
            kind = r.choice(["string", "strings", "der"])
            canon = r.choice(["", "_canonize"])
            fn = ENC[kind][0] + canon
            got = run_s(lib, sk.sign_digest, digest, None, getattr(lib.util, fn), k, allow)
            cs.add_s("sign_digest/toy", "sign_digest %s %s %s %s %s %s" % (g["sign"], fn, qZ(d), qbytes(digest), qZ(k), qbool(allow)),
                     got, lambda v: qenc(kind, v), enc_eqb(kind),
                     "toy%d sign_digest(d=%d, digest=%s, k=%d, %s, allow_truncate=%s)" % (n, d, digest.hex(), k, fn, allow))
            if got[0] == "ok":
                sig = got[1]
                muts = [sig]
                if kind != "strings":
                    bb = bytearray(sig)
                    bb[r.randrange(len(bb))] ^= 1 << r.randrange(8)
                    muts += [bytes(bb), sig[:-1], sig + b"\0"]
                else:
                    muts += [(sig[0], bytes([sig[1][0] ^ 1]) + sig[1][1:]), (sig[0],), (sig[0] + b"\0", sig[1])]
                if digest:
                    e_d = o_bits2int(digest[:lib.util.orderlen(n)], n.bit_length()) if allow else int.from_bytes(digest, "big")
                    r_inf = (-e_d * pow(d, -1, n)) % n
                    if r_inf:
                        cm = run_impl(getattr(lib.util, ENC[kind][0]), r_inf, r.randrange(1, n), n)
                        if cm[0] == "ok":
                            muts.append(cm[1])
                for m in muts:
                    for dg, al in ((digest, allow), (digest + b"\x01", True)):
                        v = run_s(lib, vk.verify_digest, m, dg, getattr(lib.util, ENC[kind][1]), al)
                        cs.add_s("verify_digest/toy", "verify_digest %s %s %s %s %s %s" % (
                            g["ver"], ENC[kind][1], qZ(d), qsig(kind, m), qbytes(dg), qbool(al)), v, qbool, "Bool.eqb",
                            "toy%d verify_digest(Q=%d*G, sig=%s, digest=%s, %s, allow_truncate=%s)" % (
                                n, d, m.hex() if kind != "strings" else [x.hex() for x in m], dg.hex(), ENC[kind][1], al))
        # deterministic signing incl. the RSZero retry loop
        for _ in range(ctx.budget(3, 40)):
            d = r.randrange(1, n)
            sk = lib.keys.SigningKey.from_secret_exponent(d, cv)
            hn = r.choice(HASHES)
            digest = rbytes(r, r.choice([1, 2, 20]))
            extra = r.choice([b"", rbytes(r, 3)])
            with recording(lib) as rec, deadline():
                got = run_s(lib, sk.sign_digest_deterministic, digest, getattr(hashlib, hn), lambda a, b, o: (a, b), extra, True)
            fuel = 4 + len(rec.calls)
            cs.add_s("sign_digest_deterministic/toy",
                     "sign_digest_deterministic N %s hsize %s %d %d enc_rs %s %s %s %s true" % (
                         qhmac(rec.calls), g["sign"], fuel, fuel, qZ(d), qN(HID[hn]), qbytes(digest), qbytes(extra)),
                     got, qzz, "zz_eqb", "toy%d sign_digest_deterministic(d=%d, %s, digest=%s, extra=%s)" % (n, d, hn, digest.hex(), extra.hex()))
    # ---- the 17 shipped curves: per-case table entries from the independent affine oracle
    ocs = [OC(c) for c in real_curves(lib)]
    for oc in ocs:
        n, c = oc.n, oc.curve
        for j in range(ctx.budget(2, 12)):
            d = r.randrange(1, n)
            sk = lib.keys.SigningKey.from_secret_exponent(d, c)
            vk = sk.get_verifying_key()
            hn = HASHES[(j + len(oc.name)) % 5]
            digest = hashlib.new(hn, rbytes(r, 6)).digest()
            k = r.choice([r.randrange(1, n), r.randrange(1, n), 1, n - 1, (1 << (n.bit_length() - 1)) - r.randrange(0, 3),
                          (1 << n.bit_length()) - n - r.randrange(0, 2), (1 << n.bit_length()) - n + 1])
            if not 1 <= k < n:
                k = r.randrange(1, n)
            kind = ["string", "strings", "der"][j % 3]
            canon = r.choice(["", "_canonize"])
            fn = ENC[kind][0] + canon
            tab = qtab([(k, oc.mulG(k)[0])])
            g = grp(n, tab)
            got = run_s(lib, sk.sign_digest, digest, None, getattr(lib.util, fn), k, True)
            cs.add_s("sign_digest/real", "sign_digest %s %s %s %s %s true" % (g["sign"], fn, qZ(d), qbytes(digest), qZ(k)),
                     got, lambda v: qenc(kind, v), enc_eqb(kind),
                     "%s sign_digest(d=%d, digest=%s, k=%d, %s)" % (oc.name, d, digest.hex(), k, fn))
            if got[0] != "ok":
                continue
            sig = got[1]
            rr, ss = getattr(lib.util, ENC[kind][1])(sig, n)
            e = oc.e_of(digest)
            variants = [(rr, ss, digest), (rr, n - ss, digest), (rr, ss + n, digest), (rr + n, ss, digest), (rr, ss, digest[:-1] + bytes([digest[-1] ^ 1])),
                        (r.randrange(1, n), r.randrange(1, n), digest), (0, ss, digest), (rr, 0, digest), (n, ss, digest),
                        ((-e * pow(d, -1, n)) % n, r.randrange(1, n), digest)]
            for (a, b, dg) in variants:
                ee = oc.e_of(dg)
                ents = []
                if 1 <= a < n and 1 <= b < n:
                    w = pow(b, -1, n)
                    t = (ee * w + a * w * d) % n
                    P = oc.mulG(t)
                    if P is not None:
                        ents.append((t, P[0]))
                gv = grp(n, qtab(ents))
                enc = run_impl(lib.util.sigencode_der, a, b, n)
                if enc[0] != "ok":
                    continue
                v = run_s(lib, vk.verify_digest, enc[1], dg, lib.util.sigdecode_der, True)
                cs.add_s("verify_digest/real", "verify_digest %s sigdecode_der %s %s %s true" % (gv["ver"], qZ(d), qbytes(enc[1]), qbytes(dg)),
                         v, qbool, "Bool.eqb", "%s verify_digest(Q=%d*G, r=%d, s=%d, digest=%s)" % (oc.name, d, a, b, dg.hex()))
        # deterministic: RFC 6979 end to end on the real curve
        d = r.randrange(1, n)
        sk = lib.keys.SigningKey.from_secret_exponent(d, c)
        hn = r.choice(HASHES)
        digest = hashlib.new(hn, rbytes(r, 6)).digest()
        with recording(lib) as rec, deadline():
            got = run_s(lib, sk.sign_digest_deterministic, digest, getattr(hashlib, hn), lambda a, b, o: (a, b), b"", True)
        k = o_generate_k(n, d, digest, hn)
        g = grp(n, qtab([(k, oc.mulG(k)[0])]))
        fuel = 4 + len(rec.calls)
        cs.add_s("sign_digest_deterministic/real",
                 "sign_digest_deterministic N %s hsize %s %d %d enc_rs %s %s %s [] true" % (
                     qhmac(rec.calls), g["sign"], fuel, fuel, qZ(d), qN(HID[hn]), qbytes(digest)),
                 got, qzz, "zz_eqb", "%s sign_digest_deterministic(d=%d, %s, digest=%s)" % (oc.name, d, hn, digest.hex()))
    # RFC 6979 Appendix A: (r, s) of the model from the published k
    for key, (kk, rr, ss) in sorted(RFC_VECTORS.items()):
        cname, hn, msg = key.split("/")
        if msg != "sample" and ctx.quick():
            continue
        oc = [o for o in ocs if o.name == cname][0]
        k = int(kk, 16)
        g = grp(oc.n, qtab([(k, oc.mulG(k)[0])]))
        digest = hashlib.new(hn, msg.encode()).digest()
        cs.add("sign_digest/rfc-vector", "sres_eqb zz_eqb (sign_digest %s enc_rs %s %s %s true) (SOk (%s, %s))" % (
            g["sign"], qZ(RFC_KEYS[cname]), qbytes(digest), qZ(k), qZ(int(rr, 16)), qZ(int(ss, 16))), "RFC 6979 A.2 signature " + key)
    return pre


def correspondence(ctx):
    lib = L()
    cs = Cases(ctx)
    corr_ints(ctx, lib, cs)
    corr_codecs(ctx, lib, cs)
    corr_generate_k(ctx, lib, cs)
    pre = corr_ecdsa(ctx, lib, cs)
    ctx.sample({"case": cs.descr[len(cs.descr) // 2][1]})
    ctx.sample({"case": cs.descr[-1][1]})
    bad = ctx.coq_eval("c18", IMPORTS, cs.exprs, preamble=PRE + pre, shard=150)
    if bad is None:
        return
    ctx.traces += len(cs.exprs)
    seen = set()
    for i in bad:
        grp_, d = cs.descr[i]
        if grp_ in seen and len(seen) > 0 and sum(1 for _ in seen) > 12:
            continue
        if grp_ in seen:
            continue
        seen.add(grp_)
        ctx.broken("correspondence: Model.Ecdsa differs from the implementation on %s" % grp_, d[:3000])


# ---------------------------------------------------------------------------
# search: the property predicate on the real implementation

def openssl_bin():
    for p in ("/root/miniconda/bin/openssl", shutil.which("openssl")):
        if p and os.path.exists(p):
            return p
    return None


class Entropy:
    """deterministic entropy source for SigningKey.sign(entropy=...)"""

    def __init__(self, r):
        self.r = r

    def __call__(self, n):
        return bytes(self.r.randrange(256) for _ in range(n))


def enc_pair(lib, kind, canon):
    U = lib.util
    return getattr(U, ENC[kind][0] + ("_canonize" if canon else "")), getattr(U, ENC[kind][1])


def sig_to_flat(kind, sig):
    return b"".join(sig) if kind == "strings" else sig


def sig_from_flat(kind, flat, like):
    if kind == "strings":
        a = len(like[0])
        return (flat[:a], flat[a:])
    return flat


def expect_bad(lib, ctx, vk, sig, data, hn, dec, what, info):
    """verification must fail with BadSignatureError (the documented error)"""
    try:
        ok = vk.verify(sig, data, hashfunc=getattr(hashlib, hn), sigdecode=dec)
    except lib.keys.BadSignatureError:
        return True
    except Exception as e:     # noqa
        ctx.fail(what + "-wrong-error", info, "%s: %s" % (type(e).__name__, e))
        return False
    ctx.fail(what + "-accepted", info, "verify returned %r" % (ok,))
    return False


def flips(ctx, full, nbits, sample):
    if full or nbits == 0:
        return range(nbits)
    pos = set([0, nbits - 1] + [ctx.rng.randrange(nbits) for _ in range(sample)])
    return sorted(p for p in pos if 0 <= p < nbits)


def flip(b, i):
    bb = bytearray(b)
    bb[i // 8] ^= 0x80 >> (i % 8)
    return bytes(bb)


def search_matrix(ctx, lib, ocs):
    r = ctx.rng
    escal = bool(ctx.brokens)
    thorough = not ctx.quick()
    for ci, oc in enumerate(ocs):
        c, n = oc.curve, oc.n
        sk = lib.keys.SigningKey.from_secret_exponent(r.randrange(1, n), c)
        vk = sk.get_verifying_key()
        Q = (vk.pubkey.point.x(), vk.pubkey.point.y())
        sk2 = lib.keys.SigningKey.from_secret_exponent(r.randrange(1, n), c)
        vk2 = sk2.get_verifying_key()
        full_combo = (r.choice(HASHES), r.choice(["string", "strings", "der"]))
        # the default path: nonce drawn by the library from an entropy source
        for _ in range(2):
            m0 = rbytes(r, 20)
            got = run_s(lib, lambda: vk.verify(sk.sign(m0, entropy=Entropy(r)), m0))
            ctx.case(("entropy", oc.name, m0))
            if got != ("ok", True):
                ctx.fail("sign-then-verify", {"curve": oc.name, "d": sk.privkey.secret_multiplier, "msg": m0, "hash": "sha1",
                                              "enc": "string", "canon": False, "mode": "entropy"}, "verify -> %r" % (got,))
        oracle_combo = {hn: (r.choice(["string", "strings", "der"]), r.random() < 0.5) for hn in HASHES}
        for hn in HASHES:
            hf = getattr(hashlib, hn)
            for kind in ("string", "strings", "der"):
                for canon in (False, True):
                    enc, dec = enc_pair(lib, kind, canon)
                    msg = rbytes(r, r.choice([0, 1, 5, 32, 100]))
                    info = {"curve": oc.name, "hash": hn, "enc": kind, "canon": canon, "d": sk.privkey.secret_multiplier, "msg": msg}
                    ctx.case(("matrix", oc.name, hn, kind, canon, msg))
                    digest = hf(msg).digest()
                    e = oc.e_of(digest)
                    for mode in ("random", "deterministic"):
                        knonce = r.randrange(1, n)
                        try:
                            if mode == "random":
                                sig = sk.sign(msg, hashfunc=hf, sigencode=enc, k=knonce)
                            else:
                                with deadline():
                                    sig = sk.sign_deterministic(msg, hashfunc=hf, sigencode=enc)
                                    sig_again = sk.sign_deterministic(msg, hashfunc=hf, sigencode=enc)
                                if sig != sig_again:
                                    ctx.fail("deterministic-differs", info, "two calls gave different signatures")
                        except Exception as ex:   # noqa
                            ctx.fail("sign-raises", dict(info, mode=mode), "%s: %s" % (type(ex).__name__, ex))
                            continue
                        inf = dict(info, mode=mode, sig=sig_to_flat(kind, sig), k=knonce if mode == "random" else None)
                        # 1. verifies in the library
                        try:
                            ok = vk.verify(sig, msg, hashfunc=hf, sigdecode=dec)
                        except Exception as ex:   # noqa
                            ok = "%s: %s" % (type(ex).__name__, ex)
                        if ok is not True:
                            ctx.fail("sign-then-verify", inf, "verify -> %r" % (ok,))
                            continue
                        # 2. verifies under an independent implementation (SEC 1, affine arithmetic);
                        #    quick tier: one encoding per (curve, hash) - the numbers do not depend on it
                        try:
                            rr, ss = dec(sig, n)
                        except Exception as ex:  # noqa
                            ctx.fail("decode-own-signature", inf, repr(ex))
                            continue
                        indep = thorough or escal or (kind, canon) == oracle_combo[hn]
                        if indep and not oc.verify(Q, e, rr, ss):
                            ctx.fail("independent-verify", dict(inf, r=rr, s=ss), "the SEC 1 verifier rejects the library's signature")
                        if canon and 2 * ss > n:
                            ctx.fail("canonize-high-s", dict(inf, r=rr, s=ss), "s > n/2 after canonisation")
                        # 3. deterministic = RFC 6979 (independent section 3.2 stream + SEC 1 signing)
                        if mode == "deterministic" and indep:
                            k = o_generate_k(n, sk.privkey.secret_multiplier, digest, hn)
                            r0 = oc.mulG(k)[0] % n
                            s0 = pow(k, -1, n) * (e + sk.privkey.secret_multiplier * r0) % n
                            if canon and 2 * s0 > n:
                                s0 = n - s0
                            if (rr, ss) != (r0, s0):
                                ctx.fail("rfc6979-differs", dict(inf, r=rr, s=ss), "RFC 6979 gives r=%d s=%d" % (r0, s0))
                        # 4. another key must not verify it
                        expect_bad(lib, ctx, vk2, sig, msg, hn, dec, "other-key", inf)
                        # 5. single-bit changes of the message and of the encoded signature
                        if mode == "random" or (canon and not (thorough or escal)):
                            continue
                        full = (thorough and (hn, kind) == full_combo and not canon) or (thorough and escal)
                        mbits = flips(ctx, full, 8 * len(msg), 2 if not escal else 24)
                        for i in mbits:
                            ctx.evaluations += 1
                            expect_bad(lib, ctx, vk, sig, flip(msg, i), hn, dec, "message-bit-flip", dict(inf, bit=i))
                        # appended / removed message bytes are changes too
                        expect_bad(lib, ctx, vk, sig, msg + b"\0", hn, dec, "message-extended", inf)
                        flat = sig_to_flat(kind, sig)
                        for i in flips(ctx, full, 8 * len(flat), 4 if not escal else 48):
                            ctx.evaluations += 1
                            expect_bad(lib, ctx, vk, sig_from_flat(kind, flip(flat, i), sig), msg, hn, dec,
                                       "signature-bit-flip", dict(inf, bit=i))
                        ctx.dist["flip-mode:" + ("exhaustive" if full else "sampled")] += 1


def search_range(ctx, lib, ocs):
    """r, s in {0, n, n+1, 2^k, r+n, s+n, negative}: rejected by verifies and by verify_digest"""
    r = ctx.rng
    E = lib.ecdsa
    for oc in ocs:
        c, n = oc.curve, oc.n
        for _ in range(ctx.budget(1, 6) * (3 if ctx.brokens else 1)):
            sk = lib.keys.SigningKey.from_secret_exponent(r.randrange(1, n), c)
            vk = sk.get_verifying_key()
            hn = r.choice(HASHES)
            msg = rbytes(r, 9)
            digest = hashlib.new(hn, msg).digest()
            e = oc.e_of(digest)
            knonce = r.randrange(1, n)
            rr, ss = sk.sign_digest(digest, sigencode=lambda a, b, o: (a, b), k=knonce, allow_truncate=True)
            bl = n.bit_length()
            l = lib.util.orderlen(n)
            outs = [0, n, n + 1, 2 * n, -1, 1 << bl, 1 << (bl + 1), 1 << (8 * l), (1 << (8 * l)) - 1] + \
                   [1 << k for k in range(bl, bl + 9)]
            cand = [(x, ss) for x in outs + [rr + n, rr + 2 * n, rr - n, -rr]] + \
                   [(rr, x) for x in outs + [ss + n, ss + 2 * n, ss - n, -ss]] + [(0, 0), (n, n)]
            for (a, b) in cand:
                if 1 <= a <= n - 1 and 1 <= b <= n - 1:
                    continue          # e.g. 2^k below n: in range, nothing to reject
                ctx.case(("range", oc.name, a, b))
                info = {"curve": oc.name, "d": sk.privkey.secret_multiplier, "digest": digest, "r": a, "s": b, "valid_r": rr, "valid_s": ss}
                v = run_impl(vk.pubkey.verifies, e, E.Signature(a, b))
                if v != ("ok", False):
                    ctx.fail("out-of-range-verifies", info, "Public_key.verifies -> %r" % (v,))
                # through verify_digest with every decoder that can carry the value
                ways = [("custom", (a, b), lambda sig, order: sig)]
                if a >= 0 and b >= 0:
                    ways.append(("der", lib.util.sigencode_der(a, b, n), lib.util.sigdecode_der))
                    if max(a, b) < 256 ** l:
                        ways.append(("string", lib.util.sigencode_string(a, b, n), lib.util.sigdecode_string))
                        ways.append(("strings", lib.util.sigencode_strings(a, b, n), lib.util.sigdecode_strings))
                for nm, sig, dec in ways:
                    try:
                        ok = vk.verify_digest(sig, digest, sigdecode=dec, allow_truncate=True)
                        ctx.fail("out-of-range-accepted", dict(info, enc=nm), "verify_digest -> %r" % (ok,))
                    except lib.keys.BadSignatureError:
                        pass
                    except Exception as ex:    # noqa
                        ctx.fail("out-of-range-wrong-error", dict(info, enc=nm), "%s: %s" % (type(ex).__name__, ex))
            # the valid one still verifies, and so does its canonical twin
            for (a, b) in ((rr, ss), (rr, n - ss)):
                if vk.pubkey.verifies(e, E.Signature(a, b)) is not True:
                    ctx.fail("valid-signature-rejected", {"curve": oc.name, "d": sk.privkey.secret_multiplier, "digest": digest,
                                                          "r": a, "s": b, "k": knonce, "twin": b != ss}, "")


def search_infinity(ctx, lib, ocs):
    """crafted in-range signatures with r = -e/d mod n: u1*G + u2*Q is the point at infinity
    (no x-coordinate) for every s; verification must answer BadSignatureError / False"""
    r = ctx.rng
    E = lib.ecdsa
    for oc in ocs:
        c, n = oc.curve, oc.n
        for j in range(ctx.budget(2, 12) * (3 if ctx.brokens else 1)):
            d = r.choice([12345, r.randrange(1, n), r.randrange(1, n)]) if j else 12345
            sk = lib.keys.SigningKey.from_secret_exponent(d, c)
            vk = sk.get_verifying_key()
            digest = bytes(range(32)) if j == 0 else rbytes(r, r.choice([20, 28, 32, 48, 64]))
            e = oc.e_of(digest)
            rr = (-e * pow(d, -1, n)) % n
            if rr == 0:
                continue
            for sv in [7 % n or 1, n - 1, r.randrange(1, n)]:
                ctx.case(("infinity", oc.name, d, digest, sv))
                info = {"curve": oc.name, "d": d, "digest": digest, "r": rr, "s": sv}
                # independent check of the construction: e/s * G + r/s * Q is the neutral element
                w = pow(sv, -1, n)
                if o_add(oc.mulG(e * w % n), o_mul(rr * w % n, oc.mulG(d), oc.p, oc.a), oc.p, oc.a) is not None:
                    ctx.notes.append("infinity construction failed on %s" % oc.name)
                    continue
                v = run_impl(vk.pubkey.verifies, e, E.Signature(rr, sv))
                if v != ("ok", False):
                    ctx.fail("infinity-signature-error-type", dict(info, enc="Public_key.verifies"), "Public_key.verifies -> %r, expected False" % (v,))
                for kind in ("string", "strings", "der"):
                    enc, dec = enc_pair(lib, kind, False)
                    got = run_s(lib, vk.verify_digest, enc(rr, sv, n), digest, dec, True)
                    if got[:2] != ("err", "SBadSig"):
                        ctx.fail("infinity-signature-error-type", dict(info, enc=kind),
                                 "verify_digest -> %r, expected BadSignatureError" % (got,))


def search_malformed(ctx, lib, ocs):
    """truncated / extended / junk encodings: only the documented errors"""
    r = ctx.rng
    U = lib.util
    for oc in ocs:
        c, n = oc.curve, oc.n
        sk = lib.keys.SigningKey.from_secret_exponent(r.randrange(1, n), c)
        vk = sk.get_verifying_key()
        msg = rbytes(r, 12)
        hn = r.choice(HASHES)
        hf = getattr(hashlib, hn)
        thorough = not ctx.quick() or bool(ctx.brokens)
        for kind in ("string", "strings", "der"):
            enc, dec = enc_pair(lib, kind, False)
            sig = sk.sign_deterministic(msg, hashfunc=hf, sigencode=enc)
            flat = sig_to_flat(kind, sig)
            muts = []
            cuts = range(len(flat)) if thorough else sorted(set([0, 1, 2, 3, len(flat) // 2, len(flat) - 2, len(flat) - 1] +
                                                                [r.randrange(len(flat)) for _ in range(4)]))
            for cut in cuts:
                muts.append(("truncated", flat[:cut]))
            for ext in (b"\0", b"\xff", rbytes(r, 2), flat):
                muts.append(("extended", flat + ext))
                muts.append(("prefixed", ext + flat))
            for _ in range(ctx.budget(4, 40)):
                muts.append(("junk", rbytes(r, r.choice([0, 1, 2, len(flat), len(flat) - 1, len(flat) + 1, r.randrange(0, 2 * len(flat) + 2)]))))
            if kind == "der":
                for _ in range(ctx.budget(10, 120)):
                    k2, m = crafted_der(r, r.randrange(1, n), r.randrange(1, n))
                    if k2 != "valid":
                        muts.append(("crafted:" + k2, m))
            for what, m in muts:
                if m == flat:
                    continue
                ctx.case(("malformed", oc.name, kind, m))
                if kind == "strings":
                    forms = [(m[:len(sig[0])], m[len(sig[0]):]), (m,), (m, sig[1], sig[1])] if what != "junk" else \
                            [(m[:len(m) // 2], m[len(m) // 2:])]
                else:
                    forms = [m]
                for f in forms:
                    info = {"curve": oc.name, "enc": kind, "what": what, "sig": sig_to_flat(kind, f) if kind != "strings" else [x for x in f],
                            "d": sk.privkey.secret_multiplier, "msg": msg, "hash": hn}
                    # the decoder itself: a result or its documented exception
                    try:
                        rs = dec(f, n)
                        decoded = True
                    except (U.MalformedSignature, lib.der.UnexpectedDER) as ex:
                        decoded = False
                        wrong = (kind == "der") != isinstance(ex, lib.der.UnexpectedDER)
                        if wrong:
                            ctx.fail("decoder-wrong-error", info, "%s: %s" % (type(ex).__name__, ex))
                    except Exception as ex:   # noqa
                        decoded = False
                        ctx.fail("decoder-undocumented-error", info, "%s: %s" % (type(ex).__name__, ex))
                    if decoded and kind != "der" and sum(len(x) for x in (f if kind == "strings" else [f])) != 2 * lib.util.orderlen(n):
                        ctx.fail("decoder-accepts-wrong-length", info, "decoded to %r" % (rs,))
                    if decoded and kind == "der":
                        # DER is canonical: an accepted encoding must be the encoding of what it decodes to
                        if rs[0] < 0 or rs[1] < 0 or U.sigencode_der(rs[0], rs[1], n) != f:
                            ctx.fail("decoder-accepts-non-canonical-der", info, "decoded to %r" % (rs,))
                    # and verification reports BadSignatureError (unless the mutation is another valid signature: impossible here
                    # except by an x-coordinate coincidence, which the independent verifier would confirm)
                    try:
                        ok = vk.verify(f, msg, hashfunc=hf, sigdecode=dec)
                        if not (decoded and oc.verify((vk.pubkey.point.x(), vk.pubkey.point.y()), oc.e_of(hf(msg).digest()), rs[0], rs[1])):
                            ctx.fail("malformed-accepted", info, "verify -> %r" % (ok,))
                    except lib.keys.BadSignatureError:
                        pass
                    except Exception as ex:    # noqa
                        ctx.fail("malformed-wrong-error", info, "%s: %s" % (type(ex).__name__, ex))


def search_digest(ctx, lib, ocs):
    """digests longer than the order: the leftmost bits are used (FIPS 186-4), on sign and verify"""
    r = ctx.rng
    for oc in ocs:
        c, n = oc.curve, oc.n
        sk = lib.keys.SigningKey.from_secret_exponent(r.randrange(1, n), c)
        vk = sk.get_verifying_key()
        Q = (vk.pubkey.point.x(), vk.pubkey.point.y())
        for ln in sorted(set([1, c.baselen - 1, c.baselen, c.baselen + 1, 20, 64, 100] + ([] if ctx.quick() else [28, 32, 48, 66]))):
            if ln < 1:
                continue
            digest = rbytes(r, ln)
            ctx.case(("digest", oc.name, digest))
            info = {"curve": oc.name, "digest": digest, "d": sk.privkey.secret_multiplier}
            k = r.randrange(1, n)
            try:
                rr, ss = sk.sign_digest(digest, sigencode=lambda a, b, o: (a, b), k=k, allow_truncate=True)
            except lib.ecdsa.RSZeroError:
                continue
            except Exception as ex:   # noqa
                ctx.fail("sign-digest-raises", info, "%s: %s" % (type(ex).__name__, ex))
                continue
            e = oc.e_of(digest)          # leftmost min(qlen, 8*ln) bits
            if not oc.verify(Q, e, rr, ss):
                ctx.fail("digest-truncation", dict(info, r=rr, s=ss, k=k), "signature is not over the leftmost %d bits" % oc.qlen)
            try:
                vk.verify_digest((rr, ss), digest, sigdecode=lambda s, o: s, allow_truncate=True)
            except Exception as ex:    # noqa
                ctx.fail("digest-truncation-verify", dict(info, r=rr, s=ss), "%s: %s" % (type(ex).__name__, ex))
            # a change in the bits that are NOT used must not matter, a change in a used bit must
            if 8 * ln > oc.qlen:
                d2 = flip(digest, 8 * ln - 1) if (8 * min(ln, c.baselen) - oc.qlen) >= 1 or ln > c.baselen else None
                if d2 is not None:
                    try:
                        vk.verify_digest((rr, ss), d2, sigdecode=lambda s, o: s, allow_truncate=True)
                    except Exception as ex:    # noqa
                        ctx.fail("digest-unused-bit-matters", dict(info, r=rr, s=ss), "%s: %s" % (type(ex).__name__, ex))
            d3 = flip(digest, min(8 * ln, oc.qlen) - 1)
            try:
                vk.verify_digest((rr, ss), d3, sigdecode=lambda s, o: s, allow_truncate=True)
                if oc.verify(Q, oc.e_of(d3), rr, ss) is False:
                    ctx.fail("digest-used-bit-ignored", dict(info, r=rr, s=ss), "last used bit flipped, still verifies")
            except lib.keys.BadSignatureError:
                pass
            # without allow_truncate an over-long digest is BadDigestError
            if ln > c.baselen:
                got = run_s(lib, vk.verify_digest, (rr, ss), digest, lambda s, o: s, False)
                if got[:2] != ("err", "SBadDigest"):
                    ctx.fail("long-digest-not-refused", info, repr(got))


def search_vectors(ctx, lib, ocs):
    """RFC 6979 Appendix A.2.3 - A.2.7"""
    for key, (kk, rr, ss) in sorted(RFC_VECTORS.items()):
        cname, hn, msg = key.split("/")
        oc = [o for o in ocs if o.name == cname][0]
        sk = lib.keys.SigningKey.from_secret_exponent(RFC_KEYS[cname], oc.curve)
        ctx.case(("rfc-vector", key))
        info = {"curve": cname, "hash": hn, "msg": msg}
        hf = getattr(hashlib, hn)
        got = run_impl(sk.sign_deterministic, msg.encode(), hf, lambda a, b, o: (a, b))
        if got != ("ok", (int(rr, 16), int(ss, 16))):
            ctx.fail("rfc6979-vector", info, "sign_deterministic -> %r, RFC 6979: r=%s s=%s" % (got, rr, ss))
        k = run_impl(lib.rfc6979.generate_k, oc.n, RFC_KEYS[cname], hf, hf(msg.encode()).digest())
        if k != ("ok", int(kk, 16)):
            ctx.fail("rfc6979-vector-k", info, "generate_k -> %r, RFC 6979: k=%s" % (k, kk))
        vk = sk.get_verifying_key()
        try:
            vk.verify((int(rr, 16), int(ss, 16)), msg.encode(), hashfunc=hf, sigdecode=lambda s, o: s)
        except Exception as ex:    # noqa
            ctx.fail("rfc6979-vector-verify", info, "%s: %s" % (type(ex).__name__, ex))


def search_generate_k(ctx, lib):
    """generate_k against the independent section 3.2 stream on small orders, where
    unsuitable candidates (0, >= q) are frequent"""
    r = ctx.rng
    orders = [t[5] for t in TOY] + [2, 3, 4, 8, 9, 15, 16, 255, 256, 257, 65535, 65537]
    for _ in range(ctx.budget(300, 6000) * (4 if ctx.brokens else 1)):
        q = r.choice(orders)
        x = r.randrange(1, q) if q > 1 else 0
        hn = r.choice(HASHES)
        h1 = rbytes(r, r.choice([1, 2, 20, 32]))
        extra = r.choice([b"", b"", rbytes(r, 4)])
        skip = r.choice([0, 0, 0, 1, 2])
        ctx.case(("generate_k", q, x, hn, h1, extra, skip))
        with deadline():
            got = run_impl(lib.rfc6979.generate_k, q, x, getattr(hashlib, hn), h1, skip, extra)
        want = o_generate_k(q, x, h1, hn, extra, skip)
        if got != ("ok", want):
            ctx.fail("generate_k-differs", {"order": q, "secexp": x, "hash": hn, "data": h1, "extra": extra, "retry_gen": skip},
                     "generate_k -> %r, RFC 6979 stream: %d" % (got, want))


def search_toy(ctx, lib):
    """sign/verify on every toy curve: every key, every nonce"""
    r = ctx.rng
    for t, cv in zip(TOY, toy_curves(lib)):
        (p, a, b, gx, gy, n) = t
        if n > ctx.budget(40, 300):
            continue
        oc = OC(cv)
        for d in range(1, n):
            sk = lib.keys.SigningKey.from_secret_exponent(d, cv)
            vk = sk.get_verifying_key()
            Q = oc.mulG(d)
            for k in range(1, n):
                e = r.randrange(0, 4 * n)
                ctx.evaluations += 1
                got = run_s(lib, sk.sign_number, e, None, k)
                if got[0] == "err":
                    if got[1] != "SRSZero":
                        ctx.fail("toy-sign-raises", {"n": n, "d": d, "k": k, "e": e}, got[2])
                    continue
                rr, ss = got[1]
                x = oc.mulG(k)[0] % n
                if rr != x or not oc.verify(Q, e, rr, ss) or vk.pubkey.verifies(e, lib.ecdsa.Signature(rr, ss)) is not True:
                    ctx.fail("toy-sign-verify", {"n": n, "d": d, "k": k, "e": e, "r": rr, "s": ss}, "x(kG) mod n = %d" % x)
        ctx.nontrivial.add(("toy", n))


def search_toy_deterministic(ctx, lib):
    """sign_digest_deterministic on toy curves, where r = 0 or s = 0 (RSZeroError and the
    retry with the next suitable candidate) really happens: equals RFC 6979 section 3.2
    continued until a candidate gives r, s != 0, and verifies"""
    r = ctx.rng
    hangs = 0
    for t, cv in zip(TOY, toy_curves(lib)):
        n = t[5]
        oc = OC(cv)
        for _ in range(ctx.budget(12, 150) * (3 if ctx.brokens else 1)):
            d = r.randrange(1, n)
            sk = lib.keys.SigningKey.from_secret_exponent(d, cv)
            hn = r.choice(HASHES)
            digest = rbytes(r, r.choice([1, 2, 20, 32]))
            ctx.case(("toy-det", n, d, hn, digest))
            info = {"n": n, "d": d, "hash": hn, "digest": digest}
            with deadline(20):
                got = run_s(lib, sk.sign_digest_deterministic, digest, getattr(hashlib, hn), lambda a, b, o: (a, b), b"", True)
            e = oc.e_of(digest)
            want = None
            for i, k in enumerate(o_candidates(n, d, digest, hn)):
                if i > 2000:
                    break
                if 1 <= k <= n - 1:
                    r0 = oc.mulG(k)[0] % n
                    s0 = pow(k, -1, n) * (e + d * r0) % n
                    if r0 and s0:
                        want = (r0, s0)
                        break
            if want is None:
                continue
            if got != ("ok", want):
                ctx.fail("toy-deterministic-differs", info, "sign_digest_deterministic -> %r, RFC 6979 with retry: %r" % (got, want))
                hangs += got[0] == "err" and got[2] == "Hang"
                if hangs >= 3:
                    return
            elif not oc.verify(oc.mulG(d), e, *want):
                ctx.fail("toy-deterministic-differs", info, "RFC 6979 signature %r does not verify" % (want,))


# ---- call sequences on long-lived key objects (state independence) ----------------

def seq_make_ops(r, lib, oc, d, default_hn, nops):
    """a list of JSON-able operations; signatures to be verified are made here by FRESH key objects"""
    n, c = oc.n, oc.curve

    def fresh_sk():
        return lib.keys.SigningKey.from_secret_exponent(d, c, hashfunc=getattr(hashlib, default_hn))

    def pick_hash(force=None):
        if force == "default":
            return None
        others = [h for h in HASHES if h != default_hn]
        return r.choice(others) if force == "explicit" else r.choice([None, None] + others)

    def mk(opname, force=None):
        if opname == "precompute":
            # VerifyingKey.precompute(lazy): the public point becomes a generator-style point with a multiplication table
            return {"op": "precompute", "lazy": r.random() < 0.5, "hash": None, "enc": "string", "canon": False, "msg": ""}
        kind = r.choice(["string", "strings", "der"])
        canon = r.random() < 0.3
        hn = pick_hash(force)
        msg = rbytes(r, r.choice([0, 3, 20, 64]))
        op = {"op": opname, "hash": hn, "enc": kind, "canon": canon, "msg": msg.hex()}
        eff = hn or default_hn
        if opname == "sign":
            op["k"] = r.randrange(1, n)
            op["allow"] = True
        elif opname == "sign_deterministic":
            op["extra"] = r.choice([b"", b"", rbytes(r, 5)]).hex()
        elif opname in ("sign_digest", "sign_digest_deterministic"):
            op["digest"] = hashlib.new(eff, msg).digest().hex() if r.random() < 0.7 else rbytes(r, r.choice([c.baselen, c.baselen + 3, 20])).hex()
            op["allow"] = r.random() < 0.6
            op["k"] = r.randrange(1, n)
        elif opname in ("verify", "verify_digest"):
            # the signature: valid for the effective hash (mostly), or made with another hash / damaged
            flavour = "valid" if force else r.choice(["valid", "valid", "valid", "other-hash", "damaged"])
            sig_hn = eff if flavour != "other-hash" else r.choice([h for h in HASHES if h != eff])
            enc, _ = enc_pair(lib, kind, canon)
            sig = fresh_sk().sign_deterministic(msg, hashfunc=getattr(hashlib, sig_hn), sigencode=enc)
            flat = sig_to_flat(kind, sig)
            if flavour == "damaged":
                flat = flip(flat, r.randrange(8 * len(flat)))
            op["sig"] = flat.hex()
            op["siglen0"] = len(sig[0]) if kind == "strings" else None
            op["flavour"] = flavour
            op["allow"] = True if opname == "verify" else r.random() < 0.8
            if opname == "verify_digest":
                op["digest"] = hashlib.new(eff, msg).digest().hex()
        return op
    names = ["sign", "sign_deterministic", "sign_digest", "sign_digest_deterministic", "verify", "verify", "verify_digest"]
    ops = [mk(r.choice(names)) for _ in range(nops)]
    if r.random() < 0.6:
        ops.insert(r.randrange(len(ops) + 1), mk("precompute"))
    # the same digest signed deterministically twice, under two different hash functions (the nonce depends on both)
    o1 = mk("sign_digest_deterministic", "explicit")
    o2 = dict(o1, hash=r.choice([h for h in HASHES if h != o1["hash"]]))
    ops += [o1, o2, dict(o1)]
    # every hashing entry point once with an explicit non-default hash and then with the default
    for nm in ("verify", "sign", "sign_deterministic", "sign_digest_deterministic"):
        ops.append(mk(nm, "explicit"))
        ops.append(mk(nm, "default"))
    return ops


def seq_run_op(lib, sk, vk, c, op):
    hf = getattr(hashlib, op["hash"]) if op["hash"] else None
    enc, dec = enc_pair(lib, op["enc"], op["canon"])
    msg = bytes.fromhex(op["msg"])
    nm = op["op"]
    if nm == "precompute":
        return run_s(lib, vk.precompute, op["lazy"])
    if nm == "sign":
        res = run_s(lib, sk.sign, msg, None, hf, enc, op["k"], op["allow"])
    elif nm == "sign_deterministic":
        with deadline():
            res = run_s(lib, sk.sign_deterministic, msg, hf, enc, bytes.fromhex(op["extra"]))
    elif nm == "sign_digest":
        res = run_s(lib, sk.sign_digest, bytes.fromhex(op["digest"]), None, enc, op["k"], op["allow"])
    elif nm == "sign_digest_deterministic":
        with deadline():
            res = run_s(lib, sk.sign_digest_deterministic, bytes.fromhex(op["digest"]), hf, enc, b"", op["allow"])
    else:
        flat = bytes.fromhex(op["sig"])
        sig = (flat[:op["siglen0"]], flat[op["siglen0"]:]) if op["enc"] == "strings" else flat
        if nm == "verify":
            res = run_s(lib, vk.verify, sig, msg, hf, dec, op["allow"])
        else:
            res = run_s(lib, vk.verify_digest, sig, bytes.fromhex(op["digest"]), dec, op["allow"])
    if res[0] == "ok" and isinstance(res[1], tuple):
        res = ("ok", tuple(bytes(x) for x in res[1]))
    return res


def seq_expected(lib, oc, d, default_hn, op, res):
    """what an independent implementation says about the result (None: no opinion)"""
    n, c = oc.n, oc.curve
    if op["op"] == "precompute":
        return None
    eff = op["hash"] or default_hn
    msg = bytes.fromhex(op["msg"])
    _, dec = enc_pair(lib, op["enc"], op["canon"])
    Q = oc.mulG(d)
    if op["op"] in ("verify", "verify_digest"):
        digest = hashlib.new(eff, msg).digest() if op["op"] == "verify" else bytes.fromhex(op["digest"])
        if not op["allow"] and len(digest) > c.baselen:
            return ("err", "SBadDigest")
        flat = bytes.fromhex(op["sig"])
        sig = (flat[:op["siglen0"]], flat[op["siglen0"]:]) if op["enc"] == "strings" else flat
        try:
            rr, ss = dec(sig, n)
        except Exception:   # noqa
            return ("err", "SBadSig")
        e = oc.e_of(digest) if op["allow"] else int.from_bytes(digest, "big")
        return ("ok", True) if oc.verify(Q, e, rr, ss) else ("err", "SBadSig")
    # signing: when it succeeded, the signature must verify independently over the effective hash
    if res[0] != "ok":
        return None
    if op["op"] in ("sign", "sign_deterministic"):
        digest, allow = hashlib.new(eff, msg).digest(), True
    else:
        digest, allow = bytes.fromhex(op["digest"]), op["allow"]
    rr, ss = dec(res[1], n)
    e = oc.e_of(digest) if allow else int.from_bytes(digest, "big")
    if not oc.verify(Q, e, rr, ss):
        return ("sig-does-not-verify",)
    if op["op"] == "sign_deterministic" or (op["op"] == "sign_digest_deterministic" and allow):
        # ... and is the one RFC 6979 (3.2, with the additional data of 3.6 when given) determines
        extra = bytes.fromhex(op.get("extra", "")) if op["op"] == "sign_deterministic" else b""
        for skip in range(4):
            k = o_generate_k(n, d, digest, eff, extra, skip)
            R = oc.mulG(k)
            r0 = R[0] % n if R is not None else 0
            s0 = pow(k, -1, n) * (e + d * r0) % n
            if r0 and s0:
                break
        if op["canon"] and s0 > n // 2:
            s0 = n - s0
        if (rr, ss) != (r0, s0):
            return ("not-the-rfc6979-signature (extra data %s): got r=%x s=%x, RFC 6979 gives r=%x s=%x" % (extra.hex() or "none", rr, ss, r0, s0),)
    return res


def seq_play(lib, oc, d, default_hn, ops, verbose=False):
    """run ops on one long-lived (sk, vk) pair; each result is compared with the same call on
    fresh key objects and with the independent expectation.  Returns (index, why) or None."""
    c = oc.curve
    dh = getattr(hashlib, default_hn)
    sk0 = lib.keys.SigningKey.from_secret_exponent(d, c, hashfunc=dh)
    how = (d + len(ops)) % 6      # the long-lived key comes from one of the constructors that take a default hash
    SK, VK = lib.keys.SigningKey, lib.keys.VerifyingKey
    sk = [lambda: sk0, lambda: SK.from_string(sk0.to_string(), c, hashfunc=dh), lambda: SK.from_der(sk0.to_der(), hashfunc=dh),
          lambda: SK.from_pem(sk0.to_pem(), hashfunc=dh), lambda: SK.from_pem(sk0.to_pem(format="pkcs8"), hashfunc=dh),
          lambda: SK.from_der(sk0.to_der(format="pkcs8"), hashfunc=dh)][how]()
    vk = sk.get_verifying_key()
    vk2 = [lambda: VK.from_string(vk.to_string(), c, hashfunc=dh), lambda: VK.from_der(vk.to_der(), hashfunc=dh),
           lambda: VK.from_pem(vk.to_pem(), hashfunc=dh)][how % 3]()     # a second long-lived object
    if verbose:
        print("   long-lived SigningKey constructor #%d, VerifyingKey constructor #%d" % (how, how % 3))
    for i, op in enumerate(ops):
        fsk = lib.keys.SigningKey.from_secret_exponent(d, c, hashfunc=dh)
        fresh = seq_run_op(lib, fsk, fsk.get_verifying_key(), c, op)
        longl = seq_run_op(lib, sk, vk, c, op)
        long2 = seq_run_op(lib, sk, vk2, c, op) if op["op"].startswith("verify") else longl
        want = seq_expected(lib, oc, d, default_hn, op, longl)
        if verbose:
            print("   step %d %s hash=%s enc=%s%s: long-lived -> %r | fresh -> %r | independent -> %r" % (
                i, op["op"], op["hash"], op["enc"], "+canon" if op["canon"] else "", longl[:2], fresh[:2], want and want[:2]))
        if longl[:2] != fresh[:2] or long2[:2] != fresh[:2]:
            return i, "long-lived key object answers %r, a fresh key object %r" % (longl, fresh)
        if want is not None and longl[:2] != want[:2]:
            return i, "key object answers %r, independent implementation %r" % (longl, want)
        for obj, nm in ((sk, "SigningKey"), (vk, "VerifyingKey"), (vk2, "VerifyingKey")):
            if obj.default_hashfunc is not dh:
                return i, "%s.default_hashfunc changed to %r" % (nm, obj.default_hashfunc)
        if sk.privkey.secret_multiplier != d or vk.pubkey.point.x() != oc.mulG(d)[0] or sk.curve is not c or vk.curve is not c:
            return i, "key material of the object changed"
    return None


def search_sequences(ctx, lib, ocs):
    r = ctx.rng
    for oc in ocs:
        for _ in range(ctx.budget(1, 6) * (3 if ctx.brokens else 1)):
            d = r.randrange(1, oc.n)
            default_hn = r.choice(["sha1", "sha1", "sha256", "sha512"])
            ops = seq_make_ops(r, lib, oc, d, default_hn, ctx.budget(4, 16))
            ctx.case(("sequence", oc.name, d, default_hn, repr(ops)))
            ctx.evaluations += len(ops)
            for op in ops:
                ctx.dist["sequence-op:%s/%s" % (op["op"], "explicit" if op["hash"] else "default")] += 1
            bad = seq_play(lib, oc, d, default_hn, ops)
            if bad is not None:
                i, why = bad
                ctx.fail("stateful-key-object", {"curve": oc.name, "d": d, "default_hash": default_hn, "ops": ops[:i + 1]},
                         "step %d (%s, hashfunc=%s): %s" % (i, ops[i]["op"], ops[i]["hash"], why))


def search_openssl(ctx, lib, ocs):
    exe = openssl_bin()
    if exe is None or ctx.quick():
        ctx.extra["openssl"] = "not run (%s)" % ("quick tier" if exe else "no openssl binary")
        return
    r = ctx.rng
    tmp = tempfile.mkdtemp(prefix="c18ossl")
    n_ok = 0
    try:
        probe = subprocess.run([exe, "ecparam", "-list_curves"], capture_output=True, timeout=30)
        known = probe.stdout.decode("latin-1")
        for oc in ocs:
            c = oc.curve
            oname = c.openssl_name
            if not oname or (oname + " ") not in known.replace(":", " :"):
                ctx.dist["openssl-skip:" + oc.name] += 1
                continue
            sk = lib.keys.SigningKey.from_secret_exponent(r.randrange(1, oc.n), c)
            vk = sk.get_verifying_key()
            kp, pp, mp, sp = (os.path.join(tmp, x) for x in ("k.pem", "p.pem", "m.bin", "s.der"))
            with open(kp, "wb") as f:
                f.write(sk.to_pem())
            with open(pp, "wb") as f:
                f.write(vk.to_pem())
            chk = subprocess.run([exe, "pkey", "-in", kp, "-noout"], capture_output=True, timeout=30)
            if chk.returncode != 0:
                ctx.dist["openssl-skip:" + oc.name] += 1     # key format is C19's subject
                continue
            for hn in HASHES:
                msg = rbytes(r, r.choice([0, 1, 33, 200]))
                with open(mp, "wb") as f:
                    f.write(msg)
                info = {"curve": oc.name, "hash": hn, "msg": msg, "d": sk.privkey.secret_multiplier}
                hf = getattr(hashlib, hn)
                # library -> OpenSSL
                sig = sk.sign(msg, entropy=Entropy(r), hashfunc=hf, sigencode=lib.util.sigencode_der)
                with open(sp, "wb") as f:
                    f.write(sig)
                v = subprocess.run([exe, "dgst", "-" + hn, "-verify", pp, "-signature", sp, mp], capture_output=True, timeout=30)
                ctx.case(("openssl", oc.name, hn, msg))
                if v.returncode != 0 or b"Verified OK" not in v.stdout:
                    if b"nsupported" in v.stderr or b"unknown" in v.stderr.lower():
                        ctx.dist["openssl-skip:" + oc.name + "/" + hn] += 1
                        continue
                    ctx.fail("openssl-rejects-library-signature", dict(info, sig=sig), (v.stdout + v.stderr).decode("latin-1")[-300:])
                    continue
                # OpenSSL -> library
                s = subprocess.run([exe, "dgst", "-" + hn, "-sign", kp, "-out", sp, mp], capture_output=True, timeout=30)
                if s.returncode != 0:
                    ctx.dist["openssl-skip:" + oc.name + "/" + hn] += 1
                    continue
                osig = open(sp, "rb").read()
                try:
                    vk.verify(osig, msg, hashfunc=hf, sigdecode=lib.util.sigdecode_der)
                except Exception as ex:    # noqa
                    ctx.fail("library-rejects-openssl-signature", dict(info, sig=osig), "%s: %s" % (type(ex).__name__, ex))
                # deterministic signatures agree when OpenSSL offers RFC 6979 nonces
                dsig = subprocess.run([exe, "pkeyutl", "-sign", "-rawin", "-digest", hn, "-in", mp, "-inkey", kp,
                                       "-pkeyopt", "nonce-type:1", "-out", sp], capture_output=True, timeout=30)
                if dsig.returncode == 0:
                    mine = sk.sign_deterministic(msg, hashfunc=hf, sigencode=lib.util.sigencode_der)
                    if open(sp, "rb").read() != mine:
                        ctx.fail("deterministic-differs-from-openssl", dict(info, sig=mine), "openssl: " + open(sp, "rb").read().hex())
                n_ok += 1
    except (OSError, subprocess.SubprocessError) as ex:
        ctx.notes.append("openssl run aborted: %r" % (ex,))
    finally:
        shutil.rmtree(tmp, ignore_errors=True)
    ctx.extra["openssl"] = "%s: %d (curve, hash) combinations checked in both directions" % (exe, n_ok)


def search(ctx):
    lib = L()
    ocs = [OC(c) for c in real_curves(lib)]
    search_vectors(ctx, lib, ocs)
    search_generate_k(ctx, lib)
    search_toy(ctx, lib)
    search_toy_deterministic(ctx, lib)
    search_range(ctx, lib, ocs)
    search_infinity(ctx, lib, ocs)
    search_digest(ctx, lib, ocs)
    search_malformed(ctx, lib, ocs)
    search_matrix(ctx, lib, ocs)
    search_sequences(ctx, lib, ocs)
    search_openssl(ctx, lib, ocs)
    ctx.extra["rule"] = (
        "correspondence: integer helpers, codecs (valid, boundary, float-threshold, malformed and crafted DER), generate_k "
        "(toy and shipped orders, retry_gen, extra_entropy, bad arguments; hmac as recorded oracle table), sign/verifies/"
        "sign_digest/verify_digest/sign_digest_deterministic on 16 toy curves (complete x tables) and the 17 shipped curves "
        "(per-case x entries from an independent affine implementation), RFC 6979 A.2 vectors through the model; "
        "search (real implementation): RFC 6979 A.2.3-A.2.7 vectors, generate_k vs an independent section-3.2 stream on small "
        "orders, exhaustive (key, nonce) on toy curves, out-of-range r,s via every decoder, crafted r = -e/d (point at infinity) on all "
        "17 curves x 3 encodings, digest truncation = leftmost bits, "
        "truncated/extended/junk/crafted encodings, the matrix 17 curves x 5 hashes x 3 encodings x canonize x {random, "
        "deterministic} with independent SEC 1 verification, other key, single-bit flips of message and signature "
        "(sampled in quick; exhaustive for one (hash, encoding) per curve in thorough), call sequences on long-lived SigningKey / "
        "VerifyingKey objects (sign, sign_deterministic, sign_digest(_deterministic), verify, verify_digest with explicit / default "
        "hashfunc, all codecs, allow_truncate) each compared with a fresh key object and the independent verifier, "
        "OpenSSL both directions (thorough). "
        "non-trivial = everything except empty inputs; distinct by full input tuple")


def _hx(v):
    return bytes.fromhex(v["hex"]) if isinstance(v, dict) and "hex" in v else v


def replay_one(lib, by, f):
    """re-evaluate the violated predicate on the recorded input; True if it still fails"""
    d, kind = f["data"], f["kind"]
    if kind in ("out-of-range-verifies", "out-of-range-accepted", "out-of-range-wrong-error", "valid-signature-rejected"):
        c = by[d["curve"]]
        vk = lib.keys.SigningKey.from_secret_exponent(d["d"], c).get_verifying_key()
        if kind == "valid-signature-rejected":
            sk = lib.keys.SigningKey.from_secret_exponent(d["d"], c)
            rr, ss = sk.sign_digest(_hx(d["digest"]), sigencode=lambda a, b, o: (a, b), k=d["k"], allow_truncate=True)
            if d.get("twin"):
                ss = c.order - ss
            got = run_s(lib, vk.verify_digest, (rr, ss), _hx(d["digest"]), lambda s, o: s, True)
            print("  sign_digest(k) gives r=%d s=%d%s; verify_digest ->" % (rr, ss, " (s replaced by n-s)" if d.get("twin") else ""), got, " expected True")
            return got != ("ok", True)
        got = run_s(lib, vk.verify_digest, (d["r"], d["s"]), _hx(d["digest"]), lambda s, o: s, True)
        print("  verify_digest((r, s)) ->", got, " expected BadSignatureError")
        return got[:2] != ("err", "SBadSig")
    if kind == "stateful-key-object":
        bad = seq_play(lib, OC(by[d["curve"]]), d["d"], d["default_hash"], d["ops"], verbose=True)
        print("  ->", "all steps agree" if bad is None else "step %d: %s" % bad)
        return bad is not None
    if kind == "infinity-signature-error-type":
        c = by[d["curve"]]
        vk = lib.keys.SigningKey.from_secret_exponent(d["d"], c).get_verifying_key()
        digest = _hx(d["digest"])
        v = run_impl(vk.pubkey.verifies, OC(c).e_of(digest), lib.ecdsa.Signature(d["r"], d["s"]))
        print("  Public_key.verifies ->", v, " expected False")
        bad = v != ("ok", False)
        for knd in ("string", "strings", "der"):
            enc, dec = enc_pair(lib, knd, False)
            got = run_s(lib, vk.verify_digest, enc(d["r"], d["s"], c.order), digest, dec, True)
            print("  verify_digest(%s) ->" % knd, got, " expected BadSignatureError")
            bad |= got[:2] != ("err", "SBadSig")
        return bad
    if kind == "generate_k-differs":
        got = run_impl(lib.rfc6979.generate_k, d["order"], d["secexp"], getattr(hashlib, d["hash"]),
                       _hx(d["data"]), d["retry_gen"], _hx(d["extra"]))
        want = o_generate_k(d["order"], d["secexp"], _hx(d["data"]), d["hash"], _hx(d["extra"]), d["retry_gen"])
        print("  generate_k ->", got, " RFC 6979 stream ->", want)
        return got != ("ok", want)
    if kind.startswith("rfc6979-vector"):
        key = "%s/%s/%s" % (d["curve"], d["hash"], d["msg"])
        kk, rr, ss = RFC_VECTORS[key]
        sk = lib.keys.SigningKey.from_secret_exponent(RFC_KEYS[d["curve"]], by[d["curve"]])
        got = run_impl(sk.sign_deterministic, d["msg"].encode(), getattr(hashlib, d["hash"]), lambda a, b, o: (a, b))
        print("  sign_deterministic ->", got, "\n  RFC 6979        -> r=%s s=%s" % (rr, ss))
        return got != ("ok", (int(rr, 16), int(ss, 16)))
    if kind == "toy-deterministic-differs":
        cv = [c for t, c in zip(TOY, toy_curves(lib)) if t[5] == d["n"]][0]
        oc = OC(cv)
        sk = lib.keys.SigningKey.from_secret_exponent(d["d"], cv)
        digest, n = _hx(d["digest"]), d["n"]
        with deadline(20):
            got = run_s(lib, sk.sign_digest_deterministic, digest, getattr(hashlib, d["hash"]), lambda a, b, o: (a, b), b"", True)
        e = oc.e_of(digest)
        want = None
        for i, k in enumerate(o_candidates(n, d["d"], digest, d["hash"])):
            if i > 2000:
                break
            if 1 <= k <= n - 1:
                r0 = oc.mulG(k)[0] % n
                s0 = pow(k, -1, n) * (e + d["d"] * r0) % n
                if r0 and s0:
                    want = (r0, s0)
                    break
        print("  sign_digest_deterministic ->", got, " RFC 6979 with retry ->", want)
        return got != ("ok", want)
    if kind.startswith("toy-"):
        cv = [c for t, c in zip(TOY, toy_curves(lib)) if t[5] == d["n"]][0]
        oc = OC(cv)
        sk = lib.keys.SigningKey.from_secret_exponent(d["d"], cv)
        got = run_s(lib, sk.sign_number, d["e"], None, d["k"])
        x = oc.mulG(d["k"])[0] % d["n"]
        print("  sign_number ->", got, " x(kG) mod n =", x)
        if got[0] != "ok":
            return got[1] != "SRSZero"
        return got[1][0] != x or not oc.verify(oc.mulG(d["d"]), d["e"], *got[1]) or \
            sk.get_verifying_key().pubkey.verifies(d["e"], lib.ecdsa.Signature(*got[1])) is not True
    if kind.startswith("digest-") or kind in ("sign-digest-raises", "long-digest-not-refused"):
        c = by[d["curve"]]
        oc = OC(c)
        sk = lib.keys.SigningKey.from_secret_exponent(d["d"], c)
        vk = sk.get_verifying_key()
        digest = _hx(d["digest"])
        if kind == "long-digest-not-refused":
            got = run_s(lib, vk.verify_digest, (1, 1), digest, lambda s, o: s, False)
            print("  verify_digest(allow_truncate=False) ->", got, " expected BadDigestError")
            return got[:2] != ("err", "SBadDigest")
        got = run_s(lib, sk.sign_digest, digest, None, lambda a, b, o: (a, b), d.get("k", 1), True)
        print("  sign_digest ->", got)
        if got[0] != "ok":
            return got[1] != "SRSZero"
        Q = (vk.pubkey.point.x(), vk.pubkey.point.y())
        ok = oc.verify(Q, oc.e_of(digest), *got[1])
        print("  signature is over the leftmost %d bits of the digest: %s" % (oc.qlen, ok))
        v = run_s(lib, vk.verify_digest, got[1], digest, lambda s, o: s, True)
        print("  verify_digest ->", v)
        return (not ok) or v != ("ok", True)
    if kind.startswith(("decoder-", "malformed-")):
        c = by[d["curve"]]
        vk = lib.keys.SigningKey.from_secret_exponent(d["d"], c).get_verifying_key()
        enc, dec = enc_pair(lib, d["enc"], False)
        sig = tuple(_hx(x) for x in d["sig"]) if d["enc"] == "strings" else _hx(d["sig"])
        dr = run_s(lib, dec, sig, c.order)
        vr = run_s(lib, vk.verify, sig, _hx(d["msg"]), getattr(hashlib, d["hash"]), dec)
        print("  %s ->" % ENC[d["enc"]][1], dr)
        print("  verify ->", vr, " expected BadSignatureError")
        bad = vr[:2] != ("err", "SBadSig")
        if dr[0] == "ok":
            if d["enc"] == "der":
                canon = dr[1][0] >= 0 and dr[1][1] >= 0 and lib.util.sigencode_der(dr[1][0], dr[1][1], c.order) == sig
                print("  accepted DER is the canonical encoding of its value:", canon)
                bad |= not canon
            else:
                bad |= sum(len(x) for x in (sig if d["enc"] == "strings" else [sig])) != 2 * lib.util.orderlen(c.order)
        else:
            want = "(SBase EUnexpectedDER)" if d["enc"] == "der" else "SMalformed"
            bad |= dr[1] != want
        return bad
    if "msg" in d and d.get("curve") in by and "hash" in d and "enc" in d:
        c = by[d["curve"]]
        oc = OC(c)
        sk = lib.keys.SigningKey.from_secret_exponent(d["d"], c)
        vk = sk.get_verifying_key()
        msg = _hx(d["msg"])
        enc, dec = enc_pair(lib, d["enc"], d.get("canon", False))
        hf = getattr(hashlib, d["hash"])
        if d.get("mode") == "random" and d.get("k"):
            sig = sk.sign(msg, hashfunc=hf, sigencode=enc, k=d["k"])
        else:
            sig = sk.sign_deterministic(msg, hashfunc=hf, sigencode=enc)
        ok = run_s(lib, vk.verify, sig, msg, hf, dec)
        print("  signature:", sig_to_flat(d["enc"], sig).hex())
        print("  verify ->", ok)
        bad = ok != ("ok", True)
        rs = run_s(lib, dec, sig, c.order)
        if rs[0] == "ok":
            Q = (vk.pubkey.point.x(), vk.pubkey.point.y())
            e = oc.e_of(hf(msg).digest())
            iv = oc.verify(Q, e, *rs[1])
            print("  independent SEC 1 verification:", iv)
            bad |= not iv
            if d.get("canon"):
                print("  canonical: s <= n/2:", 2 * rs[1][1] <= c.order)
                bad |= 2 * rs[1][1] > c.order
            if d.get("mode") != "random":
                k = o_generate_k(c.order, d["d"], hf(msg).digest(), d["hash"])
                r0 = oc.mulG(k)[0] % c.order
                s0 = pow(k, -1, c.order) * (e + d["d"] * r0) % c.order
                if d.get("canon") and 2 * s0 > c.order:
                    s0 = c.order - s0
                print("  RFC 6979: r=%d s=%d; library: r=%d s=%d" % (r0, s0, rs[1][0], rs[1][1]))
                bad |= (r0, s0) != tuple(rs[1])
        if "bit" in d:
            if kind.startswith("message"):
                got = run_s(lib, vk.verify, sig, flip(msg, d["bit"]), hf, dec)
            else:
                flat = sig_to_flat(d["enc"], sig)
                got = run_s(lib, vk.verify, sig_from_flat(d["enc"], flip(flat, d["bit"]), sig), msg, hf, dec)
            print("  with bit %d flipped ->" % d["bit"], got, " expected BadSignatureError")
            bad |= got[:2] != ("err", "SBadSig")
        if kind.startswith("other-key"):
            print("  (the other key is not recorded; see the detail above)")
            bad = True
        return bad
    print("  (no specific replay for this kind; the recorded detail above is the observation)")
    return True


def replay(ctx, data):
    lib = L()
    rc = 0
    by = {c.name: c for c in real_curves(lib)}
    for f in data.get("fails", []):
        print(f["kind"], "|", f["detail"])
        print("  input:", {k: (v if not isinstance(v, dict) else v.get("hex")) for k, v in f["data"].items()})
        try:
            rc |= bool(replay_one(lib, by, f))
        except Exception as ex:    # noqa
            print("  replay raised", repr(ex))
            rc |= 1
    for b in data.get("broken", []):
        print("broken:", b["what"])
        print("   ", str(b.get("detail", ""))[:1500])
    return 1 if rc else 0
