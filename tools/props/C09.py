"""C09 - ECC auth block is decryptable by an independent ECIES implementation.
Tie: Model/Bec2.v (ECC abstract) + correspondence on ECC blocks under the toy
plug-ins; search on the real implementation: layout, decryption by an INDEPENDENT
ECIES recipient (textbook affine P-256 arithmetic written here + raw AES block
function), optional OpenSSL differential, default recipients observed through a
recording plug-in, rejection of invalid ephemeral points."""
import hashlib
import io
import os
import shutil
import subprocess
import tempfile

from vlib import qN, qbytes, qlist, qopt, qres, qbool, run_impl
from props import toycipher, toyecc
from props import bf3common as B
from props import bec2common as C

GEN_DEPS = ("Consts.v", "gen_consts", "Crc.v", "gen_crc")
MODEL_TARGETS = ["Model/Bec2.vo", "Model/Bec2Eq.vo", "Model/Bf3Eq.vo", "Model/Cbc.vo"]
IMPORTS = C.IMPORTS

# ---- independent textbook P-256 (FIPS 186-4 D.1.2.3), affine coordinates -------------------
P = 0xffffffff00000001000000000000000000000000ffffffffffffffffffffffff
A = P - 3
Bc = 0x5ac635d8aa3a93e7b3ebbd55769886bc651d06b0cc53b0f63bce3c3e27d2604b
GX = 0x6b17d1f2e12c4247f8bce6e563a440f277037d812deb33a0f4a13945d898c296
GY = 0x4fe342e2fe1a7f9b8ee7eb4a7c0f9e162bce33576b315ececbb6406837bf51f5
N_ORDER = 0xffffffff00000000ffffffffffffffffbce6faada7179e84f3b9cac2fc632551


# (recipient scalar, ephemeral scalar) pairs whose ECDH shared x-coordinate starts with 0x00 byte(s)
# (found offline with the textbook arithmetic below; the shared secret must still be 32 bytes)
LEADING_ZERO_PAIRS = [
    (0xb938451ee325faa633406bc44dc2a627940eee3cba6f875c2e84496e7857dd87,
     0xa2da95a83ec33dd6887e840043e58844c2354e2bb7740a63c1d8fac168fb912a),
    (0xb938451ee325faa633406bc44dc2a627940eee3cba6f875c2e84496e7857dd87,
     0xa2da95a83ec33dd6887e840043e58844c2354e2bb7740a63c1d8fac168fb916d),
    (0xb938451ee325faa633406bc44dc2a627940eee3cba6f875c2e84496e7857dd87,
     0xa2da95a83ec33dd6887e840043e58844c2354e2bb7740a63c1d8fac168fb918f),
]


# BALTECH's published public keys per selector (DER, P-256), pinned here: "the published key for that selector" is a
# fact outside the code; a block without explicit recipient must be addressed to THESE keys
PUBLISHED_KEYS = {
    0: "3059301306072a8648ce3d020106082a8648ce3d03010703420004057b565d976a3306e8bd094a4671138198707d0bb67c88a45e8f375dcb1416c9519884e2109a02792072af237911a612eb16213836e90fdd421b479ebd98158e",
    1: "3059301306072a8648ce3d020106082a8648ce3d03010703420004d7b1b5cbd0587ae22e91aee229b9534a920c905f58513cb4391f8c3f5a1b464ccc05917e5c59c3ae3e1197992b2fbb24f34238d1e4bbc62dc0dbc8f36903e92b",
    2: "3059301306072a8648ce3d020106082a8648ce3d030107034200040cd731ed3730e53f7244ee71d8d54f5300885ff645ec8fd27fa3d9d1c4629faf6536a1f5b46f0c7ca923ee284c115b9d6514edef9aa1fdbf1f54030b49aef8a6",
    3: "3059301306072a8648ce3d020106082a8648ce3d03010703420004b6bc3d318417ae9099a228c29a0de85ac053eab5b3aa508bf4a438bf15ff8b551a04004051801a3d08a6055715c9dff38fd2efaa311c8154bd9a302597c86053",
}
# ephemeral scalars whose public point X||Y has a special byte pattern: contains 00 04 (the bytes that end the fixed
# DER header), X or Y with a leading zero byte, ends with 04 (found offline with the library's own arithmetic)
PATTERN_EPHEMERALS = [
    0x9387b68357834e8b1feb109370442bc36794985214730728c4dbc51678485f91,
    0x2a8d9e2aef6d465dc56c8b039bd444c235514aa6ee92f8fbe885b05e05dcb43b,
    0x0fd1ac5589935546f0535fd27a2d8d14fc863e97b88d6f73e43c6f08aac52856,
    0x686c5b53b9ba41da7487755508519a5f7f8363f8bd4f75749ca06fa69affe689,
    0x92b0efb6bd35c8f7f9289d904664daefa54439a281f5d5ed7b26addedf08894c,
]


def on_curve(x, y):
    return 0 <= x < P and 0 <= y < P and (y * y - (x * x * x + A * x + Bc)) % P == 0


def ec_add(p1, p2):
    if p1 is None:
        return p2
    if p2 is None:
        return p1
    x1, y1 = p1
    x2, y2 = p2
    if x1 == x2 and (y1 + y2) % P == 0:
        return None
    if p1 == p2:
        lam = (3 * x1 * x1 + A) * pow(2 * y1, -1, P) % P
    else:
        lam = (y2 - y1) * pow(x2 - x1, -1, P) % P
    x3 = (lam * lam - x1 - x2) % P
    return x3, (lam * (x1 - x3) - y1) % P


def ec_mul(k, pt):
    acc = None
    while k:
        if k & 1:
            acc = ec_add(acc, pt)
        pt = ec_add(pt, pt)
        k >>= 1
    return acc


def indep_cbc_decrypt(key, ct):
    from register_crypto_plugin.pyaes import aes
    a = aes.AES(key)
    prev, out = bytes(16), b""
    for i in range(0, len(ct), 16):
        c = ct[i:i + 16]
        out += bytes(x ^ y for x, y in zip(a.decrypt(c), prev))
        prev = c
    return out


def indep_recipient(d, block):
    """ECIES recipient written from the property text; returns (selector, session key)"""
    sel, marker, X, Y, ct = block[0], block[1], block[2:34], block[34:66], block[66:]
    if marker != 4 or len(ct) != 16:
        raise ValueError("layout")
    x, y = int.from_bytes(X, "big"), int.from_bytes(Y, "big")
    if not on_curve(x, y):
        raise ValueError("ephemeral point not on the curve")
    shared = ec_mul(d, (x, y))
    secret = shared[0].to_bytes(32, "big")
    return sel, indep_cbc_decrypt(hashlib.sha256(secret).digest()[:16], ct)


def openssl_bin():
    for c in (shutil.which("openssl"), "/root/miniconda/bin/openssl"):
        if c and os.path.exists(c):
            return c
    return None


def openssl_recipient(ossl, d, block, tmp):
    """derive with OpenSSL (pkeyutl -derive) and decrypt with openssl enc"""
    from register_crypto_plugin.ecdsa import SigningKey, VerifyingKey, NIST256p
    sk = SigningKey.from_secret_exponent(d, NIST256p)
    priv, peer, sec = [os.path.join(tmp, n) for n in ("priv.pem", "peer.pem", "sec.bin")]
    open(priv, "wb").write(sk.to_pem())
    vk = VerifyingKey.from_string(block[2:66], NIST256p)
    open(peer, "wb").write(vk.to_pem())
    subprocess.run([ossl, "pkeyutl", "-derive", "-inkey", priv, "-peerkey", peer, "-out", sec],
                   check=True, capture_output=True, timeout=30)
    key = hashlib.sha256(open(sec, "rb").read()).digest()[:16]
    p = subprocess.run([ossl, "enc", "-d", "-aes-128-cbc", "-nopad", "-K", key.hex(), "-iv", "00" * 16],
                       input=block[66:], check=True, capture_output=True, timeout=30)
    return p.stdout


def correspondence(ctx):
    from bec2format.bec2file import InitEccAuthBlock, EccEncryptor, EccDecryptor
    r = ctx.rng
    exprs, descr = [], []
    C.SHA.clear()
    n = ctx.budget(150, 3000) * (4 if ctx.brokens else 1)
    with toycipher.registered(), C.sha_recording(), toyecc.registered() as (ToyPub, ToyPriv):
        for i in range(n):
            sel = r.choice([0, 1, 2, 3, 3, 7, 255, 256])
            d = toyecc.keygen(2000 + r.randrange(100))
            key = r.choice([C.gen_key(r), C.gen_key(r), bytes(r.randrange(256) for _ in range(r.choice([0, 1, 15, 17, 32])))])
            style = r.choice(["explicit", "explicit", "default", "othersel", "pubonly", "ring", "ring", "reuse"])
            d2 = toyecc.keygen(2200 + r.randrange(100))
            others = [("ecc", (sel + k) % 256, None, toyecc.pub_of(toyecc.keygen(2300 + k))) for k in r.sample(range(1, 6), r.randrange(1, 4))]
            ring = others + [("ecc", sel, None, toyecc.pub_of(d))]
            if r.random() < 0.7:
                ring = others[:1] + [("ecc", sel, None, toyecc.pub_of(d))] + others[1:]    # the matching one is not first
            if r.random() < 0.3:
                ring.append(("ecc", sel, None, toyecc.pub_of(d2)))                          # a later match must not win
            encs = {"explicit": [("ecc", sel, None, toyecc.pub_of(d))], "default": [],
                    "othersel": [("ecc", (sel + 1) % 256, None, toyecc.pub_of(d))],
                    "pubonly": [("ecc", sel, None, toyecc.pub_of(d)), ("csc", b"12345678")],
                    "ring": ring, "reuse": [("ecc", sel, None, toyecc.pub_of(d))]}[style]
            toyecc.reset()
            nk0 = r.randrange(5)
            toyecc.STATE["nk"] = nk0
            if style == "reuse":
                # one long-lived block object packed before for another recipient / selector / key: the
                # second output must depend on the second call's arguments only
                def reuse():
                    blk = InitEccAuthBlock(r.choice([sel, sel, (sel + 1) % 4]))
                    k0 = r.choice([key, key, C.gen_key(r)])
                    try:
                        blk.pack(k0, [C.mk_encryptor(("ecc", blk.key_selector, None, toyecc.pub_of(d2)), ToyPub, ToyPriv)])
                    except Exception:   # noqa
                        pass
                    blk.key_selector = sel
                    toyecc.STATE["nk"] = nk0
                    return blk.pack(key, [C.mk_encryptor(e, ToyPub, ToyPriv) for e in encs])
                w = run_impl(reuse)
            else:
                w = run_impl(lambda: InitEccAuthBlock(sel).pack(key, [C.mk_encryptor(e, ToyPub, ToyPriv) for e in encs]))
            nk = toyecc.STATE["nk"]
            qe = qlist([C.q_encryptor(e) for e in encs], "encryptor")
            exprs.append("res_eqb (prod_eqb bytes_eqb N.eqb) (pack toy_enc sha_oracle toy_pub_of toy_ecdh toy_keygen "
                         "(ABEcc %s) %s %s %s) %s" % (qN(sel), qbytes(key), qe, qN(nk0),
                                                      qres(w, lambda v: "(%s, %s)" % (qbytes(v), qN(nk)))))
            descr.append(("pack", sel, key, encs, nk0))
            ctx.case(("pack", sel, key, repr(encs), nk0))
            ctx.dist["pack:%s->%s" % (style, "ok" if w[0] == "ok" else w[1])] += 1
            # unpack of the block and of damaged variants
            raw = w[1] if w[0] == "ok" else bytes(r.randrange(256) for _ in range(r.choice([0, 1, 2, 66, 82])))
            variants = [raw]
            if len(raw) >= 82:
                v = bytearray(raw)
                v[1] ^= 1
                variants.append(bytes(v))                                   # wrong marker
                variants.append(raw[:1] + b"\x04" + bytes(64) + raw[66:])   # invalid point (toy: value 0 mod P)
                variants.append(raw[:r.randrange(0, len(raw))])             # truncated
                variants.append(raw + b"\x00\x01")                          # extended
                v = bytearray(raw)
                v[0] = (v[0] + 1) % 256
                variants.append(bytes(v))                                   # other selector
            for rv in variants:
                decs = r.choice([[("ecc", sel, d, toyecc.pub_of(d))], [("ecc", sel, None, toyecc.pub_of(d))], [],
                                 [("ecc", sel, toyecc.keygen(3), toyecc.pub_of(toyecc.keygen(3)))]])
                u = run_impl(lambda: InitEccAuthBlock.unpack(rv, [C.mk_encryptor(e, ToyPub, ToyPriv) for e in decs]))
                qd = qlist([C.q_encryptor(e) for e in decs], "encryptor")
                want = qres(u, lambda v: "(%s, %s)" % (C.q_block_obj(v[0]), qbytes(v[1])))
                exprs.append("res_eqb (prod_eqb authblock_eqb bytes_eqb) (unpack toy_dec sha_oracle toy_valid_pub toy_ecdh "
                             "TAG_ECC %s %s) %s" % (qbytes(rv), qd, want))
                descr.append(("unpack", rv, decs))
                ctx.case(("unpack", rv, repr(decs)))
                ctx.dist["unpack->" + ("ok" if u[0] == "ok" else u[1])] += 1
            if i == 0 and w[0] == "ok":
                ctx.sample({"selector": sel, "session_key": key, "block": w[1], "note": "toy ECC"})
    bad = ctx.coq_eval("c09", IMPORTS, exprs, preamble=C.preamble(), shard=200)
    if bad is None:
        return
    ctx.traces += len(exprs)
    for i in bad[:10]:
        ctx.broken("correspondence: Model.Bec2 (ECC block) differs from the implementation on %s" % descr[i][0],
                   repr(descr[i])[:1500])


def search(ctx):
    import bec2format
    import register_crypto_plugin as plug
    from bec2format.bec2file import InitEccAuthBlock, EccEncryptor, EccDecryptor, Bec2File
    from register_crypto_plugin.ecdsa import SigningKey, NIST256p
    r = ctx.rng
    ossl = openssl_bin() if not ctx.quick() else None
    ctx.extra["openssl"] = ossl or ("not used in the quick tier" if ctx.quick() else "absent")
    scalars = [1, 2, N_ORDER - 2, N_ORDER - 1] + [r.randrange(1, N_ORDER) for _ in range(ctx.budget(3, 30))]
    tmp = tempfile.mkdtemp(prefix="verif_c09_", dir="/var/tmp")
    try:
        for d in scalars:
            priv = plug.PrivateEccKeyProxy(SigningKey.from_secret_exponent(d, NIST256p))
            for _ in range(ctx.budget(2, 6)):
                sel = r.randrange(4)
                key = C.gen_key(r)
                ctx.case(("recipient", d, sel, key))
                blk = run_impl(lambda: InitEccAuthBlock(sel).pack(key, [EccEncryptor(sel, priv.public_key)]))
                if blk[0] != "ok":
                    ctx.fail("ecc-pack-raises", {"d": hex(d), "sel": sel, "key": key}, blk[1])
                    continue
                block = blk[1]
                if len(block) != 82 or block[0] != sel or block[1] != 4 or \
                        not on_curve(int.from_bytes(block[2:34], "big"), int.from_bytes(block[34:66], "big")):
                    ctx.fail("ecc-layout", {"d": hex(d), "sel": sel, "key": key, "block": block}, "layout / ephemeral point")
                    continue
                got = run_impl(indep_recipient, d, block)
                if got != ("ok", (sel, key)):
                    ctx.fail("ecies-independent-recipient", {"d": hex(d), "sel": sel, "key": key, "block": block}, repr(got)[:200])
                lib = run_impl(lambda: InitEccAuthBlock.unpack(block, [EccDecryptor(sel, priv)]))
                if lib[0] != "ok" or lib[1][1] != key:
                    ctx.fail("ecc-unpack", {"d": hex(d), "sel": sel, "key": key}, repr(lib)[:200])
                # key ring: several recipients with other selectors around the addressed one, and a
                # long-lived block object that was packed before for somebody else
                d_other = r.randrange(1, N_ORDER)
                opriv = plug.PrivateEccKeyProxy(SigningKey.from_secret_exponent(d_other, NIST256p))
                osels = [x for x in range(4) if x != sel]
                ringl = [EccEncryptor(x, opriv.public_key) for x in r.sample(osels, r.randrange(1, 4))]
                ringl.insert(r.randrange(1, len(ringl) + 1), EccEncryptor(sel, priv.public_key))
                ctx.case(("ring", d, sel, key, tuple(e.key_selector for e in ringl)))
                blk2 = run_impl(lambda: InitEccAuthBlock(sel).pack(key, ringl))
                got2 = run_impl(indep_recipient, d, blk2[1]) if blk2[0] == "ok" else blk2
                if got2 != ("ok", (sel, key)):
                    ctx.fail("ecies-recipient-in-ring", {"d": hex(d), "sel": sel, "key": key, "other": hex(d_other),
                                                         "ring_selectors": [e.key_selector for e in ringl]}, repr(got2)[:200])
                # a decryptor object that has unwrapped a block (from another sender) is afterwards used as the explicit
                # recipient: the new block must be addressed to the decryptor's own key pair
                dec = EccDecryptor(sel, priv)
                foreign = run_impl(lambda: InitEccAuthBlock(sel).pack(C.gen_key(r), [EccEncryptor(sel, priv.public_key)]))
                ctx.case(("decryptor-as-recipient", d, sel, key))
                if foreign[0] == "ok":
                    un = run_impl(lambda: InitEccAuthBlock.unpack(foreign[1], [dec]))
                    if r.random() < 0.5:
                        run_impl(lambda: InitEccAuthBlock.unpack(foreign[1], [dec]))
                    blk5 = run_impl(lambda: InitEccAuthBlock(sel).pack(key, [dec]))
                    got5 = run_impl(indep_recipient, d, blk5[1]) if blk5[0] == "ok" else blk5
                    if got5 != ("ok", (sel, key)):
                        ctx.fail("ecies-recipient-after-unwrap", {"d": hex(d), "sel": sel, "key": key, "unwrapped_first": foreign[1]},
                                 "EccDecryptor used to unwrap a block (%r) and then as recipient: %s" % (un[0], repr(got5)[:200]))
                blkobj = InitEccAuthBlock(sel)
                first = run_impl(lambda: blkobj.pack(key, [EccEncryptor(sel, opriv.public_key)]))
                again = run_impl(lambda: blkobj.pack(key, [EccEncryptor(sel, priv.public_key)]))
                got3 = run_impl(indep_recipient, d, again[1]) if again[0] == "ok" else again
                ctx.case(("reuse", d, sel, key))
                if got3 != ("ok", (sel, key)):
                    ctx.fail("ecies-recipient-after-reuse", {"d": hex(d), "sel": sel, "key": key, "first_recipient": hex(d_other)},
                             repr(got3)[:200])
                fobj = Bec2File(B.build({}, []), [InitEccAuthBlock(sel)], key)
                bins = [run_impl(lambda: fobj.to_binary([EccEncryptor(sel, kk.public_key)])) for kk in (opriv, priv)]
                if bins[1][0] == "ok":
                    from props.C02 import parse_header
                    hb = [v for t, v in parse_header(bins[1][1])[0] if t == 3]
                    got4 = run_impl(indep_recipient, d, hb[0]) if hb else ("err", "no ecc block")
                    if got4 != ("ok", (sel, key)):
                        ctx.fail("ecies-recipient-after-file-reuse", {"d": hex(d), "sel": sel, "key": key,
                                                                      "first_recipient": hex(d_other)}, repr(got4)[:200])
                if ossl:
                    try:
                        o = openssl_recipient(ossl, d, block, tmp)
                        ctx.extra["openssl_cases"] = ctx.extra.get("openssl_cases", 0) + 1
                        if o != key:
                            ctx.fail("ecies-openssl", {"d": hex(d), "sel": sel, "key": key, "block": block}, o.hex())
                    except (subprocess.SubprocessError, OSError) as e:
                        ctx.notes.append("openssl run failed: %r" % e)
                        ossl = None
        # shared secrets with leading zero bytes: ephemeral keys chosen through the plug-in API
        for d, e in LEADING_ZERO_PAIRS:
            class FixedPriv(plug.PrivateEccKeyProxy):
                @classmethod
                def generate(cls):
                    return cls(SigningKey.from_secret_exponent(e, NIST256p))
            bec2format.register_PrivateEccKey(FixedPriv)
            try:
                priv = plug.PrivateEccKeyProxy(SigningKey.from_secret_exponent(d, NIST256p))
                key = C.gen_key(r)
                ctx.case(("leading-zero-secret", d, e, key))
                blk = run_impl(lambda: InitEccAuthBlock(2).pack(key, [EccEncryptor(2, priv.public_key)]))
                shared = ec_mul(d, ec_mul(e, (GX, GY)))[0]
                assert shared < 2 ** 248
                got = run_impl(indep_recipient, d, blk[1]) if blk[0] == "ok" else blk
                if got != ("ok", (2, key)):
                    ctx.fail("ecies-independent-recipient", {"d": hex(d), "ephemeral": hex(e), "key": key,
                                                              "note": "shared x-coordinate has a leading zero byte"}, repr(got)[:200])
            finally:
                bec2format.register_PrivateEccKey(plug.PrivateEccKeyProxy)
        # ephemeral public keys with special byte patterns (00 04 inside, leading zero bytes): the block must still be
        # selector, 04, X, Y, 16 bytes and unwrap at the independent recipient
        for e in PATTERN_EPHEMERALS:
            class FixedPriv2(plug.PrivateEccKeyProxy):
                @classmethod
                def generate(cls):
                    return cls(SigningKey.from_secret_exponent(e, NIST256p))
            bec2format.register_PrivateEccKey(FixedPriv2)
            try:
                d = r.randrange(1, N_ORDER)
                priv = plug.PrivateEccKeyProxy(SigningKey.from_secret_exponent(d, NIST256p))
                key = C.gen_key(r)
                sel = r.randrange(4)
                ctx.case(("pattern-ephemeral", e, d, key))
                blk = run_impl(lambda: InitEccAuthBlock(sel).pack(key, [EccEncryptor(sel, priv.public_key)]))
                ex, ey = ec_mul(e, (GX, GY))
                want_head = bytes([sel, 4]) + ex.to_bytes(32, "big") + ey.to_bytes(32, "big")
                got = run_impl(indep_recipient, d, blk[1]) if blk[0] == "ok" else blk
                if blk[0] != "ok" or len(blk[1]) != 82 or blk[1][:66] != want_head or got != ("ok", (sel, key)):
                    ctx.fail("ecies-independent-recipient", {"d": hex(d), "ephemeral": hex(e), "sel": sel, "key": key,
                                                              "note": "ephemeral public key with a special byte pattern"},
                             "block %s; independent recipient: %s" % (blk[1].hex() if blk[0] == "ok" else blk, repr(got)[:120]))
            finally:
                bec2format.register_PrivateEccKey(plug.PrivateEccKeyProxy)
        # default recipients: observe the public key handed to ECDH through a recording plug-in
        seen = []

        class RecPriv(plug.PrivateEccKeyProxy):
            def compute_dh_secret(self, public_key):
                seen.append(public_key.to_der_fmt())
                return super().compute_dh_secret(public_key)
        bec2format.register_PrivateEccKey(RecPriv)
        try:
            from bec2format.bec2file import EccEncryptor as EE
            for sel in range(4):
                for _ in range(ctx.budget(2, 10)):
                    del seen[:]
                    ctx.case(("default", sel, len(seen)))
                    blk = run_impl(lambda: InitEccAuthBlock(sel).pack(C.gen_key(r), []))
                    if blk[0] != "ok" or seen != [bytes.fromhex(PUBLISHED_KEYS[sel])] or blk[1][0] != sel:
                        ctx.fail("default-recipient", {"sel": sel, "seen": [s.hex() for s in seen]},
                                 "ECDH peer is not the published key of selector %d: %s" % (sel, repr(blk)[:120]))
                    # "without an explicit recipient": key rings that hold encryptors, none of them an ECC encryptor
                    # for this selector (customer key, security code, ECC recipients of other selectors)
                    from bec2format.bec2file import SoftwareCustKeyEncryptor, ConfigSecurityCodeEncryptor
                    okey = plug.PrivateEccKeyProxy(SigningKey.from_secret_exponent(r.randrange(1, N_ORDER), NIST256p)).public_key
                    rings = [[ConfigSecurityCodeEncryptor(b"12345678")], [SoftwareCustKeyEncryptor(bytes(16))],
                             [EE((sel + 1) % 4, okey)], [SoftwareCustKeyEncryptor(bytes(16)), EE((sel + 2) % 4, okey)]]
                    ring = r.choice(rings)
                    del seen[:]
                    ctx.case(("default-with-ring", sel, tuple(type(x).__name__ for x in ring)))
                    blk = run_impl(lambda: InitEccAuthBlock(sel).pack(C.gen_key(r), ring))
                    if blk[0] != "ok" or seen != [bytes.fromhex(PUBLISHED_KEYS[sel])] or blk[1][0] != sel:
                        ctx.fail("default-recipient", {"sel": sel, "seen": [x.hex() for x in seen],
                                                       "ring": [type(x).__name__ + (":%d" % x.key_selector if hasattr(x, "key_selector") else "")
                                                                for x in ring]},
                                 "key ring without an ECC recipient for selector %d: %s" % (sel, repr(blk)[:120]))
                    # a block object whose key_selector attribute is changed after construction is a block for the NEW
                    # selector: selector byte and recipient both follow the attribute
                    other = (sel + 1 + r.randrange(3)) % 4
                    bobj = InitEccAuthBlock(other)
                    bobj.key_selector = sel
                    del seen[:]
                    ctx.case(("selector-changed", other, sel))
                    blk = run_impl(lambda: bobj.pack(C.gen_key(r), []))
                    if blk[0] != "ok" or seen != [bytes.fromhex(PUBLISHED_KEYS[sel])] or blk[1][0] != sel:
                        ctx.fail("default-recipient", {"sel": sel, "seen": [x.hex() for x in seen], "constructed_with": other},
                                 "block constructed for selector %d, key_selector then set to %d: selector byte %s, ECDH peer %s" % (
                                     other, sel, blk[1][0] if blk[0] == "ok" else blk,
                                     "published key of %d" % sel if seen == [bytes.fromhex(PUBLISHED_KEYS[sel])] else "another key"))
                    # a file object that already has an ECC block and gets ANOTHER one through add_auth_block (one block per
                    # kind): the file carries the new block - selector byte and published recipient of the new selector
                    from props.C02 import parse_header as _ph
                    fx = Bec2File(B.build({}, []), [InitEccAuthBlock(other)], C.gen_key(r))
                    fx.add_auth_block(InitEccAuthBlock(sel))
                    del seen[:]
                    ctx.case(("add-auth-block-replaces", other, sel))
                    wx = run_impl(lambda: fx.to_binary([]))
                    hb = [v for t, v in _ph(wx[1])[0] if t == 3] if wx[0] == "ok" else []
                    if wx[0] != "ok" or len(hb) != 1 or hb[0][0] != sel or seen != [bytes.fromhex(PUBLISHED_KEYS[sel])]:
                        ctx.fail("default-recipient", {"sel": sel, "seen": [x.hex() for x in seen], "constructed_with": other,
                                                       "via": "add_auth_block over an existing ECC block"},
                                 "file built with an ECC block for selector %d, add_auth_block(InitEccAuthBlock(%d)): written blocks %r"
                                 % (other, sel, [(b[0], len(b)) for b in hb]))
                    # a file READ with a decryptor and written again WITHOUT encryptors: the ECC block is re-wrapped for the
                    # published key of its selector, not for whoever opened the file
                    rp = plug.PrivateEccKeyProxy(SigningKey.from_secret_exponent(r.randrange(1, N_ORDER), NIST256p))
                    f0 = Bec2File(B.build({}, []), [InitEccAuthBlock(sel)], C.gen_key(r))
                    t0 = io.StringIO()
                    f0.write_file(t0, [EccEncryptor(sel, rp.public_key)])
                    g0 = run_impl(lambda: Bec2File.read_file(io.StringIO(t0.getvalue()), [EccDecryptor(sel, rp)], True))
                    if g0[0] == "ok":
                        del seen[:]
                        ctx.case(("read-then-write-default", sel))
                        w0 = run_impl(lambda: g0[1].to_binary([]))
                        w1 = run_impl(lambda: g0[1].to_binary())
                        if w0[0] != "ok" or w1[0] != "ok" or seen != [bytes.fromhex(PUBLISHED_KEYS[sel])] * 2:
                            ctx.fail("default-recipient", {"sel": sel, "seen": [x.hex() for x in seen], "via": "read_file then to_binary without encryptors"},
                                     "a file read with an EccDecryptor and written again without encryptors is not addressed to the published key")
                    # a file written that way carries that block
                    s = io.StringIO()
                    del seen[:]
                    Bec2File(B.build({}, []), [InitEccAuthBlock(sel)], C.gen_key(r)).write_file(s, [])
                    if seen != [bytes.fromhex(PUBLISHED_KEYS[sel])]:
                        ctx.fail("default-recipient", {"sel": sel, "via": "Bec2File.write_file"}, "")
        finally:
            bec2format.register_PrivateEccKey(plug.PrivateEccKeyProxy)
        # rejection of invalid ephemeral points
        priv = plug.PrivateEccKeyProxy(SigningKey.from_secret_exponent(scalars[-1], NIST256p))
        good = InitEccAuthBlock(1).pack(bytes(16), [EccEncryptor(1, priv.public_key)])
        bad_points = [bytes(64), (P).to_bytes(32, "big") + good[34:66], good[2:34] + (P + 1).to_bytes(32, "big"),
                      good[2:34] + bytes(32), bytes(32) + good[34:66]]
        # coordinates >= p that are CONGRUENT to an on-curve point (x + p with small x; p = 3 mod 4)
        for x in range(0, 200):
            rhs = (x * x * x + A * x + Bc) % P
            y = pow(rhs, (P + 1) // 4, P)
            if y * y % P == rhs and x + P < 2 ** 256:
                bad_points.append((x + P).to_bytes(32, "big") + y.to_bytes(32, "big"))
                if len([1 for b_ in bad_points if int.from_bytes(b_[:32], "big") >= P]) > 12:
                    break
        for _ in range(ctx.budget(40, 600)):
            x = r.randrange(P)
            y = r.randrange(P)
            if not on_curve(x, y):
                bad_points.append(x.to_bytes(32, "big") + y.to_bytes(32, "big"))
            v = bytearray(good[2:66])
            v[r.randrange(64)] ^= 1 << r.randrange(8)
            if not on_curve(int.from_bytes(v[:32], "big"), int.from_bytes(v[32:], "big")):
                bad_points.append(bytes(v))
        for pt in bad_points:
            ctx.case(("badpoint", pt))
            block = good[:2] + pt + good[66:]
            u = run_impl(lambda: InitEccAuthBlock.unpack(block, [EccDecryptor(1, priv)]))
            if u[0] == "ok":
                ctx.fail("offcurve-accepted", {"point": pt}, repr(u)[:200])
            elif u[1] not in ("EValue", "EBec2"):
                ctx.fail("offcurve-error-type", {"point": pt}, u[1])
            # the same forged block inside a FILE that has a second, decryptable block: reading must refuse the invalid
            # point (an error), not skip the ECC block and open the file through the other block
            from bec2format.bec2file import UpdateAuthBlock, ConfigSecurityCodeEncryptor
            from props.C02 import parse_header
            fobj = Bec2File(B.build({}, []), [InitEccAuthBlock(1), UpdateAuthBlock(b"12345678", 1)], bytes(16))
            fb = run_impl(lambda: fobj.to_binary([EccEncryptor(1, priv.public_key)]))
            if fb[0] == "ok":
                hb = [v for t, v in parse_header(fb[1])[0] if t == 3]
                if hb and len(hb[0]) == 82:
                    forged = fb[1].replace(hb[0][1:66], b"\x04" + pt, 1)
                    text = "\n" + forged.hex().upper() + "\n"
                    ctx.case(("badpoint-file", pt))
                    g = run_impl(lambda: Bec2File.read_file(io.StringIO(text), [EccDecryptor(1, priv), ConfigSecurityCodeEncryptor(b"12345678")], True))
                    if g[0] == "ok":
                        ctx.fail("offcurve-accepted", {"point": pt, "file": forged},
                                 "a BEC2 file whose ECC block carries an invalid ephemeral point is read without error (a second block opens it)")
                    elif g[1] not in ("EValue", "EBec2"):
                        ctx.fail("offcurve-error-type", {"point": pt, "file": forged}, g[1])
        # the key ring handed over as a one-shot iterable (generator / iterator): the explicit recipient must still be used
        for mk in (lambda l: iter(l), lambda l: (x for x in l), lambda l: tuple(l)):
            d = r.randrange(1, N_ORDER)
            rp = plug.PrivateEccKeyProxy(SigningKey.from_secret_exponent(d, NIST256p))
            key, sel = C.gen_key(r), r.randrange(4)
            ctx.case(("iterable-ring", d, sel, key))
            blk = run_impl(lambda: InitEccAuthBlock(sel).pack(key, mk([EccEncryptor(sel, rp.public_key)])))
            got = run_impl(indep_recipient, d, blk[1]) if blk[0] == "ok" else blk
            if got != ("ok", (sel, key)):
                ctx.fail("ecies-independent-recipient", {"d": hex(d), "sel": sel, "key": key, "note": "encryptors given as a one-shot iterable"},
                         "InitEccAuthBlock.pack with an iterator of encryptors: %s" % repr(got)[:160])
            fobj = Bec2File(B.build({}, []), [InitEccAuthBlock(sel)], key)
            fb = run_impl(lambda: fobj.to_binary(mk([EccEncryptor(sel, rp.public_key)])))
            if fb[0] == "ok":
                from props.C02 import parse_header
                hb = [v for t, v in parse_header(fb[1])[0] if t == 3]
                got = run_impl(indep_recipient, d, hb[0]) if hb else ("err", "no ecc block")
            else:
                got = fb
            if got != ("ok", (sel, key)):
                ctx.fail("ecies-independent-recipient", {"d": hex(d), "sel": sel, "key": key, "note": "Bec2File.to_binary with a one-shot iterable of encryptors"},
                         "the file's ECC block is not addressed to the explicit recipient: %s" % repr(got)[:160])
    finally:
        shutil.rmtree(tmp, ignore_errors=True)
    ctx.extra["rule"] = ("correspondence (toy plug-ins): pack of ECC blocks (explicit / default / other-selector / public-only encryptors, "
                         "selectors incl. 7,255,256, keys of odd lengths) and unpack of the block and of damaged variants (marker, invalid "
                         "point, truncated, extended, other selector) under right / public-only / wrong / no decryptor; search (real "
                         "plug-ins): recipient scalars {1,2,n-2,n-1,random}, selectors 0..3, layout and ephemeral point on P-256 by an "
                         "independent curve equation, session key recovered by an independent textbook-affine ECIES recipient (and OpenSSL "
                         "pkeyutl/enc in the thorough tier when a binary exists), default recipient per selector observed through a "
                         "recording plug-in, invalid points (all-zero, coordinates >= p, random off-curve, bit-flipped) refused")
    ctx.extra["partial"] = "agreement with OpenSSL is an external oracle (thorough tier, skipped when no binary)"


def replay(ctx, data):
    """re-runs the recorded recipients / selectors / session keys on /repo (fresh ephemeral keys are drawn, the
    predicate is evaluated again by the independent recipient)"""
    import bec2format
    import register_crypto_plugin as plug
    from bec2format.bec2file import InitEccAuthBlock, EccEncryptor, EccDecryptor
    from register_crypto_plugin.ecdsa import SigningKey, NIST256p
    hx = lambda v: bytes.fromhex(v["hex"]) if isinstance(v, dict) else v
    rc = 0
    for f in data.get("fails", []):
        d = f["data"]
        print(f["kind"], f["detail"][:400])
        try:
            if f["kind"] == "default-recipient" and "sel" in d:
                seen = []

                class RecPriv(plug.PrivateEccKeyProxy):
                    def compute_dh_secret(self, public_key):
                        seen.append(public_key.to_der_fmt())
                        return super().compute_dh_secret(public_key)
                bec2format.register_PrivateEccKey(RecPriv)
                try:
                    from bec2format.bec2file import SoftwareCustKeyEncryptor, ConfigSecurityCodeEncryptor
                    ok = plug.PrivateEccKeyProxy(SigningKey.from_secret_exponent(7, NIST256p)).public_key
                    rings = [[], [ConfigSecurityCodeEncryptor(b"12345678")], [SoftwareCustKeyEncryptor(bytes(16))],
                             [EccEncryptor((d["sel"] + 1) % 4, ok)]]
                    for ring in rings:
                        del seen[:]
                        blk = run_impl(lambda: InitEccAuthBlock(d["sel"]).pack(bytes(16), ring))
                        bad = blk[0] != "ok" or seen != [bytes.fromhex(PUBLISHED_KEYS[d["sel"]])]
                        print(" key ring %r -> %s, ECDH peer is the published key: %s" % (
                            [type(x).__name__ for x in ring], blk[0] if blk[0] == "ok" else blk, not bad))
                        rc |= bad
                finally:
                    bec2format.register_PrivateEccKey(plug.PrivateEccKeyProxy)
            elif "d" in d and "sel" in d and "key" in d:
                dd, sel, key = int(d["d"], 16), d["sel"], hx(d["key"])
                priv = plug.PrivateEccKeyProxy(SigningKey.from_secret_exponent(dd, NIST256p))
                if f["kind"] == "ecies-recipient-after-unwrap":
                    dec = EccDecryptor(sel, priv)
                    foreign = InitEccAuthBlock(sel).pack(bytes(range(16)), [EccEncryptor(sel, priv.public_key)])
                    InitEccAuthBlock.unpack(foreign, [dec])
                    blk = run_impl(lambda: InitEccAuthBlock(sel).pack(key, [dec]))
                else:
                    blk = run_impl(lambda: InitEccAuthBlock(sel).pack(key, [EccEncryptor(sel, priv.public_key)]))
                got = run_impl(indep_recipient, dd, blk[1]) if blk[0] == "ok" else blk
                lib = run_impl(lambda: InitEccAuthBlock.unpack(blk[1], [EccDecryptor(sel, priv)])) if blk[0] == "ok" else blk
                print(" block:", blk[1].hex() if blk[0] == "ok" else blk)
                print(" independent recipient recovers:", got, " library unpack:", lib if lib[0] != "ok" else lib[1][1].hex())
                rc |= got != ("ok", (sel, key)) or lib[0] != "ok" or lib[1][1] != key
            else:
                print(" (recorded input is not re-executable; data: %r)" % (d,))
                rc |= 1
        except Exception as e:   # noqa
            print(" replay raised", repr(e))
            rc |= 1
    for b in data.get("broken", []):
        print("broken:", b["what"])
    return 1 if rc else 0
