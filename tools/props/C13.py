"""C13 - BF2 import preserves firmware bytes and rejects what BF3 cannot represent.
Tie: hand model coq/Model/Bf2Import.v + Model/Bf2Str.v (tables from Gen/Consts.v, which the
translator regenerates from bf3file.py / hwcids.py) + correspondence on unit level
(bf2_unpack_payload, bf2_convert_payload, exec_bf2instrs, pfid2_filter_to_str, annotations,
hex2bin, parse_bf2_file), token level (bf2_import with the parser replaced by a token list)
and text level (bf2_import on grammar-generated BF2 texts; whole files of the text grammar of
Model/Bf2Render.v - header comments, instruction lines, data groups - whose text is checked in Coq to be
render_file's, plus a stream violating one clause of item_ok per file).  The search evaluates the property
on the real implementation against the memory image the generator started from, and the text round trip
(C13_text_file / C13_text_lines) against the items the text was rendered from."""
import copy
import io
import re

from vlib import qN, qZ, qbytes, qlist, qopt, qres, qstr, qbool, run_impl, canon_exc

GEN_DEPS = ("Consts.v", "gen_consts", "TagTypes.v", "gen_tagtypes")
MODEL_TARGETS = ["Model/Bf2Import.vo", "Model/Bf2Render.vo"]
IMPORTS = "From Bec2 Require Import Gen.Consts Model.Bf2Str Model.Bf2Import Model.Bf2Render."

# ---------------------------------------------------------------------------
# What the property text says about tag types (written down here, not read from the
# implementation): mapped section types, their kind, hardware id, interface and the tag types
# that continue a section on the following 64 KiB pages.

LOADER, PERIPHERAL, MAIN = 0, 1, 2
BLOB, MEMIMG, COMPAT = 0, 1, 2
NFC = 5
SPEC = {
    0x35: dict(kind="blob", type=PERIPHERAL, hw=0x9B, hwname="SM4200", intf=NFC, last=0x38),
    0x39: dict(kind="blob", type=PERIPHERAL, hw=0xBE, hwname="BGM12X", intf=None, last=0x3C),
    0x3D: dict(kind="blob", type=PERIPHERAL, hw=0xAD, hwname="PN5180", intf=NFC, last=0x3E),
    0x40: dict(kind="blob", type=PERIPHERAL, hw=0xC0, hwname="SM6300", intf=NFC, last=0x47),
    0x70: dict(kind="compat", type=LOADER, hw=None, hwname=None, intf=None, last=0x73),
    0x83: dict(kind="compat", type=LOADER, hw=None, hwname=None, intf=None, last=0x83),
    0x84: dict(kind="compat", type=MAIN, hw=None, hwname=None, intf=None, last=0xA3),
}
IGNORED = (0x34, 0x48)
KNOWN_RANGES = [(0x34, 0x34), (0x35, 0x38), (0x39, 0x3C), (0x3D, 0x3E), (0x40, 0x47), (0x48, 0x48),
                (0x70, 0x73), (0x83, 0x83), (0x84, 0xA3)]
INTERFACES = {"BRP": 0, "BRP-SER": 1, "BRP-CCID": 2, "BRP-TCP": 3, "BRP-OSDP": 4, "ISO7816-4": 5}
INTF_NAMES = {0: "BRP_HID", 1: "BRP_SER", 2: "BRP_CCID", 3: "BRP_TCP", 4: "OSDP", 5: "NFC"}
TAG = dict(FMT=0xC1, ENC=0xC2, TYPE=0xC3, HWCID=0xC4, REBOOT=0xC5, INTF=0xC6, CRC=0xC7, FWVER=0xC8, PFID2=0xC9)


def is_known(t):
    return any(a <= t <= b for a, b in KNOWN_RANGES)


UNKNOWN_TYPES = [t for t in range(0, 0xFE) if not is_known(t)]
KNOWN_UNMAPPED = [t for t in range(256) if is_known(t) and t not in SPEC and t not in IGNORED]

# ---------------------------------------------------------------------------
# Coq literals


def qs(s):
    if len(s) > 6 and all(ord(c) < 256 for c in s):
        return "(L1 %s)" % qbytes(s.encode("latin-1"))
    return qstr(s)


def qpval(p):
    if isinstance(p, str):
        return "(PStr %s)" % qs(p)
    return "(PDict %s)" % qlist(["(%s, %s)" % (qs(k), qs(v)) for k, v in p.items()], "(str * str)")


def qsdict(d):
    return qlist(["(%s, %s)" % (qs(k), qpval(v)) for k, v in d.items()], "(str * pval)")


def qline(l):
    return "(mkLine %s %s %s %s)" % (qN(l[0]), qN(l[1]), qbytes(l[2]), qbytes(l[3]))


def qlines(ls):
    return qlist([qline(l) for l in ls], "line")


def qtok(t):
    if t[0] == "load" and isinstance(t[1], list):
        return "(Load %s)" % qlines(t[1])
    return "(Instr %s %s)" % (qs(t[0]), qpval(t[1]))


def qtoks(ts):
    return qlist([qtok(t) for t in ts], "token")


def qdesc(d):
    return qlist(["(%s, %s)" % (qN(k), qbytes(v)) for k, v in d.items()], "(N * bytes)")


def qcomp(c):
    return "(mkComp %s %s)" % (qdesc(c[0]), qbytes(c[1]))


def qfile(f):
    return "(%s, %s)" % (qsdict(f[0]), qlist([qcomp(c) for c in f[1]], "comp"))


def qblocks(b):
    return qlist(["(%s, %s)" % (qZ(k), qbytes(v)) for k, v in b], "(Z * bytes)")


def modelable(x):
    """can the value be written as a model literal? (str/dict-of-str params, bytes tags)"""
    if isinstance(x, str):
        return True
    if isinstance(x, dict):
        return all(isinstance(k, str) and isinstance(v, str) for k, v in x.items())
    return False


# ---------------------------------------------------------------------------
# implementation access

def M():
    import bec2format.bf3file as m
    return m


def mk_binlines(ls):
    m = M()
    return [m.Bf2BinLine(t, n, tag, raw) for (t, n, tag, raw) in ls]


def canon_file(f):
    return (dict(f.comments), [(dict(c.description), bytes(c.blob)) for c in f.components])


def impl_import_tokens(toks, enforce=True):
    """bf2_import with parse_bf2_file replaced by a fixed token list"""
    m = M()
    tk = []
    for t in toks:
        if t[0] == "load" and isinstance(t[1], list):
            tk.append(("load", mk_binlines(t[1])))
        else:
            tk.append((t[0], copy.deepcopy(t[1])))

    class TokFile(m.Bf3File):
        @classmethod
        def parse_bf2_file(cls, fobj):
            return iter(tk)
    r = run_impl(TokFile.bf2_import, io.StringIO(""), enforce)
    return ("ok", canon_file(r[1])) if r[0] == "ok" else r


def impl_import_text(text, enforce=True):
    m = M()
    r = run_impl(m.Bf3File.bf2_import, io.StringIO(text), enforce)
    return ("ok", canon_file(r[1])) if r[0] == "ok" else r


def impl_parse(text):
    m = M()
    r = run_impl(lambda: list(m.Bf3File.parse_bf2_file(io.StringIO(text))))
    if r[0] != "ok":
        return r
    out = []
    for name, p in r[1]:
        if name == "load" and isinstance(p, list):
            out.append(("load", [(l.fwtagtype, l.fwtagndx, bytes(l.fwtag), bytes(l.rawdata)) for l in p]))
        else:
            out.append((name, p))
    return ("ok", out)


# ---------------------------------------------------------------------------
# generator: sections from memory images

def rbytes(r, n):
    return bytes(r.getrandbits(8) for _ in range(n)) if n < 4096 else r.randbytes(n)


def line_of(ndx, t, tag, extra=b""):
    raw = (ndx & 0xFFFF).to_bytes(2, "big") + bytes([t, len(tag)]) + tag + extra
    return (t, ndx & 0xFFFF, tag, raw)


def image_lines(r, image, base, size_fn, start=0, gap=None, straddle=False, extra_fn=None, ndx0=0):
    """data lines for an image placed at address `start` (page = address >> 16, tag type =
    base + page).  gap = (line index, bytes skipped before that line).  Returns (lines,
    extents) with extents = [(address, bytes)] as laid out, in address order."""
    lines, extents = [], []
    addr, pos, idx = start, 0, 0
    while pos < len(image):
        if gap is not None and idx == gap[0]:
            addr += gap[1]
        n = min(size_fn(), len(image) - pos)
        if not straddle:
            n = min(n, 0x10000 - (addr & 0xFFFF))
        payload = image[pos:pos + n]
        tag = bytes([n + 2]) + (addr & 0xFFFF).to_bytes(2, "big") + payload
        extra = extra_fn() if extra_fn else b""
        lines.append(line_of(ndx0 + idx, base + (addr >> 16), tag, extra))
        if extents and extents[-1][0] + len(extents[-1][1]) == addr:
            extents[-1] = (extents[-1][0], extents[-1][1] + payload)
        else:
            extents.append((addr, payload))
        addr += n
        pos += n
        idx += 1
    return lines, extents


def group_lines(r, lines, base):
    """split the lines of one section into load groups: all lines of the first page (mapped
    tag type) stay in one group, later pages may be split anywhere"""
    groups = [[]]
    for l in lines:
        if groups[-1] and l[0] != base and (l[0] != groups[-1][-1][0] or r.random() < 0.05):
            groups.append([])
        groups[-1].append(l)
    return [g for g in groups if g]


def size_chooser(r):
    style = r.choice(["fixed", "fixed", "max", "one", "rand", "mixed"])
    if style == "fixed":
        k = r.choice([16, 32, 64, 128, 200, 249, 250, r.randrange(1, 251)])
        return style, (lambda: k)
    if style == "max":
        return style, (lambda: 250)
    if style == "one":
        return style, (lambda: 1)
    if style == "rand":
        return style, (lambda: r.randrange(1, 251))
    return style, (lambda: r.choice([1, 2, 3, 16, 249, 250, r.randrange(1, 251)]))


class Sec:
    """one firmware section as the generator laid it out"""

    def __init__(self, base, image, lines, extents, groups, defect=None):
        self.base, self.image, self.lines, self.extents, self.groups, self.defect = \
            base, image, lines, extents, groups, defect
        self.instrs = []      # instruction lines before the data: (name, params)
        self.reboot = False   # closed by #>REBOOT


def gen_section(r, base, nbytes, defect=None, straddle=False, limit_lines=None):
    """defect: None | 'gap' | 'nonzero'"""
    sp = SPEC.get(base)
    if base in IGNORED:
        # prepare/activate tags: no address structure required
        lines = [line_of(i, base, rbytes(r, r.randrange(0, 12))) for i in range(r.randrange(1, 4))]
        return Sec(base, b"", lines, [], [lines])
    npages = (sp["last"] - base + 1) if sp else 1
    nbytes = max(1, min(nbytes, npages * 0x10000 - 600))
    image = rbytes(r, nbytes)
    sname, size_fn = size_chooser(r)
    if limit_lines and nbytes > limit_lines:
        k = max(1, min(250, -(-nbytes // limit_lines)))
        size_fn = (lambda: max(k, 1)) if k >= 250 else size_fn
    start, gap = 0, None
    if defect == "nonzero":
        start = r.choice([1, 2, 16, 0x100, r.randrange(1, 500)])
    nlines_est = None
    lines0, _ = image_lines(r, image, base, size_fn, start)
    if defect == "gap":
        # a gap before any line but the first
        if len(lines0) < 2:
            image = image + rbytes(r, 300)
            lines0, _ = image_lines(r, image, base, size_fn, start)
        gi = r.choice([1, len(lines0) - 1, r.randrange(1, len(lines0))])
        gap = (gi, r.choice([1, 1, 2, 16, 250, r.randrange(1, 400)]))
    extra_fn = r.choice([None, None, (lambda: rbytes(r, 1)), (lambda: rbytes(r, 2))])
    # regenerate deterministically with the chosen sizes: record the sizes used
    sizes = [l[2][0] - 2 for l in lines0]
    it = iter(sizes)
    lines, extents = image_lines(r, image, base, lambda: next(it, 250), start, gap, straddle, extra_fn)
    last_type = max(l[0] for l in lines)
    if sp and last_type > sp["last"]:
        # does not fit the page range of this tag type any more: drop the defect
        lines, extents = image_lines(r, image, base, lambda: 250, 0, None, False, extra_fn)
        defect = None
    if sp and sp["kind"] != "blob":
        defect = None      # BF2-compatible sections are raw lines: address layout does not matter
    return Sec(base, image, lines, extents, group_lines(r, lines, base), defect)


def hexline(r, raw, style):
    h = raw.hex().upper()
    if style == "lower":
        h = raw.hex()
    elif style == "spaced":
        h = " ".join(h[i:i + 2] for i in range(0, len(h), 2))
    return ":" + h


def render_group(r, g, eol, style="upper"):
    t0 = g[0][0]
    out = [":0000FE00"]
    out += [hexline(r, l[3], style) for l in g]
    out.append(":0000FF00")
    return "".join(x + eol for x in out)


def render_instr(name, p):
    if isinstance(p, dict):
        if p:
            return "#>%s %s" % (name, ",".join("%s=%s" % kv for kv in p.items()))
        return "#>%s" % name
    return "##%s: %s" % (name, p)


def render_file(r, header, secs, eol=None, style=None, junk=True):
    eol = eol or r.choice(["\r\n", "\n"])
    style = style or r.choice(["upper", "upper", "lower", "spaced"])
    out = []
    if junk:
        out.append("# BALTECH firmware file" + eol)
        out.append("#" + eol)
    for name, p in header:
        out.append(render_instr(name, p) + eol)
    if junk and r.random() < 0.5:
        out.append(eol)
    for s in secs:
        for name, p in s.instrs:
            out.append(render_instr(name, p) + eol)
        for g in s.groups:
            out.append(render_group(r, g, eol, style))
        if s.reboot:
            out.append("#>REBOOT" + eol)
        if junk and r.random() < 0.2:
            out.append("# ---" + eol)
    return "".join(out)


def tokens_of(header, secs):
    toks = [(n, p) for n, p in header]
    for s in secs:
        toks += [(n, p) for n, p in s.instrs]
        toks += [("load", list(g)) for g in s.groups]
        if s.reboot:
            toks.append(("REBOOT", {}))
    return toks


def fw_value(r, debug):
    fid = "%04d" % r.choice([1100, 1053, 1, 9999, r.randrange(0, 10000)])
    if debug:
        ver = "D-%02d.%02d" % (r.randrange(100), r.randrange(100))
    else:
        ver = "%d.%02d.%02d" % (r.randrange(10), r.randrange(100), r.randrange(100))
    name = r.choice(["IDE ZBA  ", "BALTECHOS", "X        "])
    return fid, ver, "%s %s %s" % (fid, name, ver)


def periph_filter(r, base):
    sp = SPEC[base]
    if base == 0x39 and r.random() < 0.6:
        return r.choice(["01 01 00 B6", "01 02 80 B6 00 BE", "01 02 80 BE 00 B6", "01 01 00 BE"])
    hw = r.choice([sp["hw"], sp["hw"], r.randrange(1, 0x3FFF)])
    return "01 01 %02X %02X" % (hw >> 8, hw & 0xFF)


def any_filter(r, terminated=True):
    n = r.choice([1, 1, 2, 3, 4, r.randrange(1, 9)])
    es = []
    for i in range(n):
        hw = r.choice([0x9B, 0xBE, 0xB6, 0xC0, 0xAD, 0x0B, 0x0C, 0x93, r.randrange(0, 0x4000)])
        e = hw | (0x4000 if r.random() < 0.3 else 0) | (0x8000 if r.random() < 0.45 else 0)
        es.append(e)
    if terminated:
        es[-1] &= 0x7FFF
    return bytes([1, n]) + b"".join(e.to_bytes(2, "big") for e in es)


def filter_text(r, f):
    return r.choice([f.hex(" ").upper(), f.hex(" ").upper(), f.hex().upper(), f.hex(" ")])


def gen_file(r, mode=None, nsec=None, max_bytes=1500, defects=True, big=False):
    """A BF2 file in one of the shapes in which 'the tags the instructions state' is
    unambiguous.  mode 'reboot': every section carries its own instructions and is closed by
    #>REBOOT; 'plain': instructions only in the header, sections closed by the next section;
    'fwver': every section starts with #>CHECK_FWVER (which closes the previous one).
    Returns (header, secs, info)."""
    mode = mode or r.choice(["reboot", "reboot", "plain", "fwver"])
    nsec = nsec or r.choice([1, 1, 2, 3, 4, 5])
    marker = r.random() < 0.85
    debug = r.random() < 0.3
    header = []
    fid, ver, fwv = fw_value(r, debug)
    with_fw = r.random() < 0.9
    if with_fw:
        header.append(("Firmware", fwv))
    if r.random() < 0.7:
        header.append(("Creator", r.choice(["bf2tool 1.0", "x", "Baltech FwPacker 2.11"])))
    if marker:
        header.append(("Bf3Update", r.choice(["1", "yes", "true"])))
    r.shuffle(header)
    secs = []
    defect_at = None
    if defects and r.random() < 0.25:
        defect_at = r.randrange(nsec)
    bases = list(SPEC) * 2 + list(IGNORED)
    for k in range(nsec):
        base = r.choice(bases)
        if defect_at == k:
            dk = r.choice(["gap", "nonzero", "unknown", "unmapped"])
        else:
            dk = None
        if dk in ("unknown", "unmapped"):
            base = r.choice(UNKNOWN_TYPES) if dk == "unknown" else r.choice(KNOWN_UNMAPPED)
            lines, ext = image_lines(r, rbytes(r, r.randrange(1, 300)), base, lambda: 100)
            # an unmapped (but known) type continues the previous section: only the first
            # section of a file can start with it
            if dk == "unmapped" and k > 0:
                base = r.choice(UNKNOWN_TYPES)
                lines, ext = image_lines(r, rbytes(r, r.randrange(1, 300)), base, lambda: 100)
                dk = "unknown"
            s = Sec(base, b"", lines, ext, [lines], dk)
        else:
            if big:
                nbytes = r.choice([0x10000, 0x10001, 0xFFFF, 70000, 131072, 200000, r.randrange(60000, 200001)])
            else:
                nbytes = r.choice([1, 2, 250, 251, 500, r.randrange(1, max_bytes + 1), r.randrange(1, 64)])
            s = gen_section(r, base, nbytes, dk, straddle=(r.random() < 0.1),
                            limit_lines=None)
        secs.append(s)
    # instructions
    proto = None
    if any(SPEC.get(s.base, {}).get("type") == LOADER for s in secs) or r.random() < 0.3:
        proto = r.choice(list(INTERFACES))
    if mode == "plain":
        if proto:
            header.append(("SELECT_IF", {"PROTOCOL": proto}))
        # a header SELECT applies to every section: only usable if no peripheral needs its own
        if not any(SPEC.get(s.base, {}).get("type") == PERIPHERAL for s in secs) and r.random() < 0.5:
            header.append(("SELECT", {"FILTER": filter_text(r, any_filter(r))}))
    else:
        select_seen = False
        for s in secs:
            sp = SPEC.get(s.base)
            ins = []
            if mode == "fwver":
                ins.append(("CHECK_FWVER", {"VERSIONDESC": check_fwver_value(r, s.base == 0x39)}))
            if sp is None:
                s.instrs = ins
                s.reboot = (mode == "reboot")
                continue
            if sp["type"] == PERIPHERAL:
                if select_seen or r.random() < 0.7:
                    ins.append(("SELECT", {"FILTER": periph_filter(r, s.base)}))
                    select_seen = True
            elif r.random() < 0.6:
                ins.append(("SELECT", {"FILTER": filter_text(r, any_filter(r))}))
                select_seen = True
            if sp["type"] == LOADER or r.random() < 0.2:
                ins.append(("SELECT_IF", {"PROTOCOL": r.choice(list(INTERFACES) + ["*"]) if sp["type"] != LOADER
                                          else r.choice(list(INTERFACES))}))
            if mode == "reboot" and r.random() < 0.5:
                ins.append(("CHECK_FWVER", {"VERSIONDESC": check_fwver_value(r, s.base == 0x39)}))
            if mode == "reboot" and r.random() < 0.5:
                ins.append(("CRC", "0x%08X" % r.getrandbits(32)))
            if mode == "reboot":
                r.shuffle(ins)
            s.instrs = ins
            s.reboot = (mode == "reboot")
        if mode == "fwver" and proto:
            header.append(("SELECT_IF", {"PROTOCOL": proto}))
    return header, secs, dict(mode=mode, marker=marker)


def check_fwver_value(r, text_only=False):
    """text_only: the version of a BGM12X section is printed as text by the importer; random
    bytes there raise UnicodeDecodeError out of bf2_import (a C14 matter, not generated here)"""
    if r.random() < 0.2:
        return "*"
    n = r.choice([0, 1, 3, 4, 7, 8])
    body = rbytes(r, n) if r.random() < 0.6 and not text_only else bytes(r.choice(b"0123456789.") for _ in range(n))
    tail = rbytes(r, r.choice([0, 0, 2]))
    return (rbytes(r, 2) + bytes([n]) + body + tail).hex(" ").upper()


# ---------------------------------------------------------------------------
# independent description of what the import must produce (search oracle)

def spec_filter_eval(f, hw):
    """value of the filter bytes over a set of hardware ids: groups AND-ed, entries of a group
    OR-ed, bit 0x4000 negates, bit 0x8000 = more entries in this group"""
    n = f[1]
    result, grp, pending = True, False, False
    for i in range(n):
        e = int.from_bytes(f[2 + 2 * i:4 + 2 * i], "big")
        v = ((e & 0x3FFF) in hw) != bool(e & 0x4000)
        grp = grp or v
        pending = True
        if not e & 0x8000:
            result = result and grp
            grp, pending = False, False
    if pending:
        result = result and grp
    return result


def hw_names():
    import bec2format.hwcids as h
    return dict(h.HWCID_MAP)


def expr_eval(s, hw, names):
    """evaluate the rendered expression text: '&' of groups, group = atom or '(' atom ' | ' ... ')',
    atom = ['!'] (name | 0xHHHH).  Raises ValueError when the text is not of that form."""
    s = s.strip()
    if s == "":
        return True

    def atom(a):
        a = a.strip()
        neg = a.startswith("!")
        if neg:
            a = a[1:]
        if re.fullmatch(r"0x[0-9A-F]{4}", a):
            v = int(a, 16)
        elif a in names:
            v = names[a]
        else:
            raise ValueError("atom " + a)
        return (v in hw) != neg
    res = True
    for g in s.split(" & "):
        g = g.strip()
        if g.startswith("("):
            if not g.endswith(")"):
                raise ValueError("group " + g)
            val = any([atom(a) for a in g[1:-1].split(" | ")])
        else:
            if "|" in g:
                raise ValueError("group " + g)
            val = atom(g)
        res = res and val
    return res


def filter_ids(f):
    return sorted({int.from_bytes(f[2 + 2 * i:4 + 2 * i], "big") & 0x3FFF for i in range(f[1])})


def hw_sets(r, f, extra=6):
    ids = filter_ids(f)
    sets = [set(), set(ids)]
    if len(ids) <= 4:
        for mask in range(1 << len(ids)):
            sets.append({ids[i] for i in range(len(ids)) if mask >> i & 1})
    else:
        for _ in range(extra + 10):
            sets.append({i for i in ids if r.random() < 0.5})
    return sets


def spec_hex(s):
    """bytes written as hex text (separators blank , - . / :)"""
    c = re.sub(r"[\s,\-./:]", "", s)
    if len(c) % 2:
        c = c[:-1] + "0" + c[-1]
    return bytes.fromhex(c)


def expected_components(header, secs):
    """For a file from gen_file without defects: the list of expected (description, blob,
    section) in file order, computed from the section records and the instruction texts."""
    persist = {}
    out = []
    for n, p in header:
        persist[n] = p
    pending = dict((n, p) for n, p in header if n in ("CRC", "CHECK_FWVER", "REBOOT"))
    for s in secs:
        cons = dict(pending)
        for n, p in s.instrs:
            if n in ("CRC", "CHECK_FWVER"):
                cons[n] = p
            else:
                persist[n] = p
        if s.reboot:
            cons["REBOOT"] = {}
        sp = SPEC.get(s.base)
        if sp is None:
            pending = cons     # an ignored section consumes nothing
            continue
        pending = {}
        d = {TAG["FMT"]: bytes([BLOB if sp["kind"] == "blob" else COMPAT]), TAG["TYPE"]: bytes([sp["type"]])}
        if sp["hw"] is not None:
            d[TAG["HWCID"]] = sp["hw"].to_bytes(2, "big")
        if sp["intf"] is not None:
            d[TAG["INTF"]] = bytes([sp["intf"]])
        if "REBOOT" in cons:
            d[TAG["REBOOT"]] = b"\x01"
        if "CRC" in cons:
            d[TAG["CRC"]] = int(cons["CRC"][2:], 16).to_bytes(4, "big")
        if "SELECT" in persist:
            f = spec_hex(persist["SELECT"]["FILTER"])
            d[TAG["PFID2"]] = f
            if sp["type"] == PERIPHERAL:
                if f.hex(" ").upper() in ("01 01 00 B6", "01 02 80 B6 00 BE", "01 02 80 BE 00 B6"):
                    d[TAG["HWCID"]] = (0xBE).to_bytes(2, "big")
                else:
                    d[TAG["HWCID"]] = f[-2:]
        if "CHECK_FWVER" in cons and cons["CHECK_FWVER"]["VERSIONDESC"] != "*":
            v = spec_hex(cons["CHECK_FWVER"]["VERSIONDESC"])
            d[TAG["FWVER"]] = v[3:3 + v[2]]
        if "Firmware" in persist:
            fw = persist["Firmware"]
            fid, ver = fw[:4], fw[15:22]
            if not ver.startswith("D-") and sp["type"] in (LOADER, MAIN):
                d[TAG["FWVER"]] = int(fid).to_bytes(2, "big") + bytes(int(x) for x in ver.split("."))
        if "SELECT_IF" in persist and persist["SELECT_IF"]["PROTOCOL"] != "*":
            d[TAG["INTF"]] = bytes([INTERFACES[persist["SELECT_IF"]["PROTOCOL"]]])
        blob = s.image if sp["kind"] == "blob" else b"".join(l[3] for l in s.lines)
        out.append((d, blob, s))
    return out, persist


# ---------------------------------------------------------------------------
# correspondence

class Cases:
    def __init__(self, ctx):
        self.ctx, self.exprs, self.descr = ctx, [], []

    def add(self, kind, expr, info, key=None, trivial=False, judge=None):
        """judge: optional callable -> (problems, data): the property predicate on the
        implementation for this very input (used when model and implementation disagree)"""
        self.exprs.append(expr)
        self.descr.append((kind, info, judge))
        self.ctx.case((kind, key if key is not None else expr), trivial)
        self.ctx.dist["corr:" + kind] += 1


def weird_lines(r):
    """line lists that exercise every branch of bf2_unpack_payload"""
    style = r.choice(["image", "image", "gap", "nonzero", "dup0", "overlap", "backward", "neglen", "short",
                      "extra", "empty", "lowtype", "emptylist", "collide", "straddle", "random"])
    base = r.choice([0x35, 0x39, 0x40, 0x84, 0x10])
    size = r.choice([1, 2, 7, 16, 250])
    n = r.choice([1, 2, 5, 40, r.randrange(1, 120)])
    img = rbytes(r, n)
    if style in ("image", "gap", "nonzero", "straddle"):
        start = 0 if style not in ("nonzero",) else r.choice([1, 5, 0x100])
        if style == "straddle":
            start = 0x10000 - r.randrange(1, 5)
        gap = (r.randrange(0, max(1, -(-n // size))), r.randrange(1, 9)) if style == "gap" else None
        ls, _ = image_lines(r, img, base, lambda: size, start, gap, straddle=(style == "straddle"))
    elif style == "emptylist":
        ls = []
    else:
        ls, _ = image_lines(r, img, base, lambda: size)
        k = r.randrange(len(ls))

        def mk(addr, payload, t=None, lenbyte=None, cut=None, tail=b""):
            tag = bytes([len(payload) + 2 if lenbyte is None else lenbyte]) + (addr & 0xFFFF).to_bytes(2, "big") + payload + tail
            if cut is not None:
                tag = tag[:cut]
            return line_of(k, base + (addr >> 16) if t is None else t, tag)
        if style == "dup0":
            ls = ls + [mk(0, rbytes(r, r.randrange(0, 9)))] + ([mk(0, b"zz")] if r.random() < 0.3 else [])
        elif style == "overlap":
            ls.insert(k, mk(r.randrange(0, n + 1), rbytes(r, r.randrange(1, 9))))
        elif style == "backward":
            ls = ls[k:] + ls[:k]
        elif style == "neglen":
            ls.insert(k, mk(r.randrange(0, n + 1), rbytes(r, r.randrange(0, 6)), lenbyte=r.choice([0, 1])))
            if r.random() < 0.5:
                ls.append(mk(0xFFFE, b"q", t=base - 1))
        elif style == "short":
            ls.insert(k, mk(r.randrange(0, n + 1), rbytes(r, 5), cut=r.randrange(0, 8)))
        elif style == "extra":
            ls[k] = line_of(k, ls[k][0], ls[k][2] + rbytes(r, r.randrange(1, 4)))
        elif style == "empty":
            ls.insert(k, mk(r.choice([0, n, r.randrange(0, n + 3)]), b""))
        elif style == "lowtype":
            ls.append(mk(r.randrange(0, 0x10000), rbytes(r, 3), t=base - r.randrange(1, 3)))
        elif style == "collide":
            a = r.randrange(n + 2, n + 50)
            ls = ls + [mk(a, b"AB"), mk(a + 9, b"C"), mk(a, b"DEF")]
        elif style == "random":
            ls = [line_of(i, r.choice([base, base + 1]), rbytes(r, r.randrange(0, 9))) for i in range(r.randrange(1, 5))]
    return style, ls


def corr_unpack(cs, n):
    r = cs.ctx.rng
    m = M()
    for _ in range(n):
        style, ls = weird_lines(r)
        bl = mk_binlines(ls)
        u = run_impl(lambda: list(m.Bf3File.bf2_unpack_payload(bl).items()))
        jd = None
        if style in ("image", "gap", "nonzero", "straddle") and ls:
            ext = extents_of_lines(ls)
            jd = (lambda ls=ls, ext=ext: (judge_lines(ls, ext, len(ext) == 1 and ext[0][0] == 0),
                                           {"lines": [list(map(jl, l)) for l in ls], "extents": jext(ext),
                                            "contig": len(ext) == 1 and ext[0][0] == 0}))
        cs.add("unpack", "res_eqb blocks_eqb (unpack %s) %s" % (qlines(ls), qres(u, qblocks)), (style, ls),
               trivial=not ls, judge=jd)
        cs.ctx.dist["unpack:" + style] += 1
        for fmt in (0, 1, 2, 3):
            c = run_impl(m.Bf3File.bf2_convert_payload, bl, fmt)
            cs.add("convert", "res_eqb bytes_eqb (convert %s %s) %s" % (qlines(ls), qN(fmt), qres(c, qbytes)),
                   (style, fmt, ls), trivial=not ls, judge=jd)


VAL_POOL = {
    "CRC": ["0x12345678", "0xFFFFFFFF", "0x0", "0x", "12", "0x1_0", "0xG", "0x123456789", "0x-1", "  0x10 ", "ab 10", "0x+7",
            "0x0x10", "0X__1"],
    "Firmware": ["1100 IDE ZBA   1.02.03", "1053 BALTECHOS D-01.02", "0001 X         9.99.99", "99999 XXXXXXXXX1.2.3  ",
                 "abcd IDE ZBA   1.02.03", "1100 IDE ZBA   1.2.300", "1100 IDE ZBA   1..2", "1100", "", "-001 IDE ZBA   1.02.03",
                 "1_00 IDE ZBA   1_0.2.3", " 12  IDE ZBA   +1. 2.3 ", "1100 IDE ZBA   D-", "70000 DE ZBA   1.02.03"],
    "Creator": ["tool", "", "Baltech 1.0"],
    "Bf3Update": ["1", "", "yes"],
}


def rand_instrs(r):
    ins = {}
    keys = ["REBOOT", "CRC", "SELECT", "CHECK_FWVER", "Firmware", "Creator", "Bf3Update", "SELECT_IF", "FOO"]
    for k in keys:
        if r.random() < 0.45:
            continue
        wrong_type = r.random() < 0.06
        if k == "REBOOT":
            v = {} if r.random() < 0.8 else ""
        elif k == "SELECT":
            f = r.choice([filter_text(r, any_filter(r, r.random() < 0.8)), "01 01 00 9B", "01 01 00 B6",
                          "01 02 80 B6 00 BE", "01 02 80 BE 00 B6", "01 01", "01", "", "zz", "01 01 0", "0101009B",
                          "01-01.00/9b", "02 01 00 9B", "01 02 00 9B"])
            v = {"FILTER": f} if r.random() < 0.93 else r.choice([{}, {"filter": f}, {"FILTER": f, "X": "y"}])
        elif k == "CHECK_FWVER":
            vd = r.choice([check_fwver_value(r), check_fwver_value(r), "*", "", "01 02", "01 02 03", "zz", "01 02 09 41"])
            v = {"VERSIONDESC": vd} if r.random() < 0.93 else {}
        elif k == "SELECT_IF":
            p = r.choice(list(INTERFACES) + ["*", "FOO", "", "brp", "BRP "])
            v = {"PROTOCOL": p} if r.random() < 0.93 else {}
        elif k == "FOO":
            v = r.choice([{}, "x", {"A": "B"}])
        else:
            v = r.choice(VAL_POOL[k])
        if wrong_type:
            v = {"A": "1"} if isinstance(v, str) else "text"
        ins[k] = v
    items = list(ins.items())
    r.shuffle(items)
    return dict(items)


def rand_desc(r):
    ty = r.choice([0, 1, 2, 2, 1, 0, 3])
    d = {TAG["FMT"]: bytes([r.choice([0, 2])]), TAG["TYPE"]: bytes([ty])}
    if r.random() < 0.5:
        d[TAG["HWCID"]] = r.choice([0x9B, 0xBE, 0xC0, 0xAD]).to_bytes(2, "big")
    if r.random() < 0.5:
        d[TAG["INTF"]] = bytes([r.randrange(6)])
    if r.random() < 0.03:
        del d[TAG["TYPE"]]
    return d


def corr_exec(cs, n):
    r = cs.ctx.rng
    m = M()
    for _ in range(n):
        ins, d, cm = rand_instrs(r), rand_desc(r), {}
        if r.random() < 0.3:
            cm = {"FirmwareId": "0000", "Bf3Update": "old"}
        i2, d2, c2 = copy.deepcopy(ins), dict(d), dict(cm)
        try:
            m.Bf3File.exec_bf2instrs(i2, d2, c2)
            res = ("ok", (i2, c2, d2))
        except m.UnsupportedBf2InstrError:
            res = ("ok", (i2, c2, None))
        except Exception as e:          # noqa
            res = ("err", canon_exc(e))
        if res[0] == "err" and res[1].startswith("EOther"):
            continue
        cs.ctx.dist["exec->" + (res[1] if res[0] == "err" else "unsupported" if res[1][2] is None else "ok")] += 1
        exp = qres(res, lambda t: "(%s, %s, %s)" % (qsdict(t[0]), qsdict(t[1]), qopt(t[2], qdesc)))
        cs.add("exec", "res_eqb exec_eqb (exec %s %s %s) %s" % (qsdict(ins), qdesc(d), qsdict(cm), exp), (ins, d, cm))


def corr_filter(cs, n):
    r = cs.ctx.rng
    m = M()
    fs = [b"", b"\x01", b"\x01\x00", b"\x01\x01\x00\x9b", b"\x01\x01\x80\x9b", b"\x02\x01\x00\x9b", b"\x01\x02\x00\x9b",
          b"\x01\x01\x00\x9b\x00", bytes.fromhex("010280B600BE"), bytes.fromhex("0103809B40BE00C0"),
          bytes.fromhex("0102FFFF7FFF"), bytes.fromhex("01020000C000")]
    for _ in range(n):
        f = any_filter(r, r.random() < 0.8)
        if r.random() < 0.1:
            f = f[:r.randrange(len(f))] if r.random() < 0.5 else f + rbytes(r, r.randrange(1, 3))
        fs.append(f)
    for f in fs:
        res = run_impl(m.pfid2_filter_to_str, f)
        cs.add("filter", "res_eqb str_eqb (pfid2_filter_to_str %s) %s" % (qbytes(f), qres(res, qs)), f, trivial=(len(f) < 4))


def rand_comp_desc(r):
    ty = r.choice([0, 1, 2, 3, 1, 1])
    d = {TAG["FMT"]: b"\0", TAG["TYPE"]: bytes([ty]) if r.random() < 0.97 else r.choice([b"", b"\0\1"])}
    if ty == 1 or r.random() < 0.2:
        hw = r.choice([0x9B, 0xBE, 0xB6, 0xC0, 0xAD, 0xBD, 0xBF, 0x1234, 0, r.randrange(0, 0x10000)])
        d[TAG["HWCID"]] = hw.to_bytes(2, "big")
        if r.random() < 0.05:
            del d[TAG["HWCID"]]
    if ty == 0 or r.random() < 0.2:
        d[TAG["INTF"]] = bytes([r.choice([0, 1, 2, 3, 4, 5, 5, 6, 200])])
        if r.random() < 0.05:
            del d[TAG["INTF"]]
    if r.random() < 0.7:
        k = r.choice([0, 1, 3, 4, 5, 7, 8])
        v = r.choice([rbytes(r, k), bytes(r.choice(b"0123456789.ab") for _ in range(k)),
                      "1.2é€".encode()[:k] if k else b"", ("ü" * 4).encode()[:k], b"\xf0\x9f\x98\x80abc"[:k],
                      b"\xe0\x80\x80abcd"[:k], b"\xed\xa0\x80abcd"[:k], b"abc\xc3"[:k]])
        d[TAG["FWVER"]] = v
    if r.random() < 0.5:
        d[TAG["PFID2"]] = any_filter(r, r.random() < 0.8) if r.random() < 0.9 else rbytes(r, r.randrange(0, 5))
    return d


def corr_annot(cs, n):
    r = cs.ctx.rng
    m = M()
    for _ in range(n):
        comps = [(rand_comp_desc(r), rbytes(r, 2)) for _ in range(r.choice([1, 1, 2, 3, 11]))]
        res = run_impl(lambda: list(m.Bf3File.annotations([m.Bf3Component(dict(d), b) for d, b in comps])))
        exp = qres(res, lambda l: qlist(["(%s, (PStr %s))" % (qs(k), qs(v)) for k, v in l], "(str * pval)"))
        cs.add("annotations", "res_eqb sdict_eqb (annotations %s) %s" % (qlist([qcomp(c) for c in comps], "comp"), exp), comps)


def corr_int(cs, n):
    r = cs.ctx.rng
    alpha = "0123456789abcdefABCDEFxX_+- \t\n\x1c\xa0gz."
    fixed = ["", "0x", "0x_1", "_1", "1_", "1__2", "0x1_f", "+0x1f", "-0X1F", " 7 ", "0_x1", "0x0x1", "٣", "1\x00",
             "\x85 12 \xa0", "0b1", "00", "-0", "+", "-", "0x-1", "ff", "FF_ff"]
    for i in range(n):
        s = fixed[i] if i < len(fixed) else "".join(r.choice(alpha) for _ in range(r.choice([1, 2, 3, 4, 6])))
        if any(ord(c) > 255 for c in s):
            continue
        for base in (10, 16):
            res = run_impl(int, s, base)
            cs.add("int", "res_eqb Z.eqb (py_int %s %s) %s" % (qN(base), qstr(s), qres(res, qZ)), (s, base), key=(s, base))


def tok_fuzz(r):
    """token streams built from a generated file plus mutations that reach the less usual paths of
    the section state machine.  Returns (style, tokens, (header, secs) when unmodified)"""
    header, secs, info = gen_file(r, max_bytes=r.choice([40, 200, 600]), nsec=r.choice([1, 2, 3, 4]))
    toks = tokens_of(header, secs)
    style = r.choice(["asis", "asis", "asis", "mutate", "mutate", "mutate", "random_instrs"])
    if style == "asis":
        return style, toks, (header, secs)
    if style == "mutate":
        for _ in range(r.choice([1, 1, 2, 3])):
            k = r.randrange(len(toks) + 1)
            mut = r.choice(["reboot", "check", "check2", "unsup", "star", "del", "dup", "emptyload", "instrs", "crc",
                            "cont", "loadstr", "weirdlines", "select_bad", "nointf", "strparam", "strparam"])
            if mut == "reboot":
                toks.insert(k, ("REBOOT", r.choice([{}, ""])))
            elif mut == "check":
                toks.insert(k, ("CHECK_FWVER", {"VERSIONDESC": check_fwver_value(r)}))
            elif mut == "check2":
                toks.insert(k, ("CHECK_FWVER", {"VERSIONDESC": "*"}))
                toks.insert(k, ("CHECK_FWVER", {"VERSIONDESC": "01 02 01 41"}))
            elif mut == "unsup":
                toks.insert(k, ("SELECT_IF", {"PROTOCOL": r.choice(["FOO", "brp", ""])}))
            elif mut == "star":
                toks.insert(k, ("SELECT_IF", {"PROTOCOL": r.choice(["*", "BRP", "ISO7816-4"])}))
            elif mut == "del" and toks:
                del toks[r.randrange(len(toks))]
            elif mut == "dup" and toks:
                toks.insert(k, copy.deepcopy(toks[r.randrange(len(toks))]))
            elif mut == "emptyload":
                toks.insert(k, ("load", []))
            elif mut == "instrs":
                for kv in rand_instrs(r).items():
                    toks.insert(min(k, len(toks)), kv)
            elif mut == "crc":
                toks.insert(k, ("CRC", r.choice(VAL_POOL["CRC"])))
            elif mut == "cont":
                t = r.choice(KNOWN_UNMAPPED + UNKNOWN_TYPES[:3] + list(IGNORED))
                ls, _ = image_lines(r, rbytes(r, r.randrange(1, 40)), t, lambda: 16)
                toks.insert(k, ("load", ls))
            elif mut == "loadstr":
                # ("load", <str or dict>) tokens cannot come from the parser any more ("#>load" and
                # "##load:" are refused there): not generated; the text damage set has those lines
                pass
            elif mut == "weirdlines":
                toks.insert(k, ("load", weird_lines(r)[1] or [line_of(0, 0x35, b"\x03\x00\x00A")]))
            elif mut == "select_bad":
                toks.insert(k, ("SELECT", {"FILTER": r.choice(["01 02 00 9B 00 9C", "zz", "01 01 00", "02 01 00 9B", ""])}))
            elif mut == "strparam":
                # a "##" header named like an instruction: a string where a parameter dict is expected
                toks.insert(k, (r.choice(["SELECT", "CHECK_FWVER", "SELECT_IF"]), r.choice(["abc", "x", "", "*"])))
            elif mut == "nointf":
                toks = [t for t in toks if t[0] != "SELECT_IF"]
    elif style == "random_instrs":
        extra = list(rand_instrs(r).items())
        for kv in extra:
            toks.insert(r.randrange(len(toks) + 1), kv)
    return style, toks, None


def corr_tokens(cs, n):
    r = cs.ctx.rng
    for _ in range(n):
        style, toks, src = tok_fuzz(r)
        enforce = r.random() < 0.8
        jd = None
        if src is not None:
            def jd(src=src, enforce=enforce):
                import random
                text = render_file(random.Random(0), src[0], src[1], eol="\r\n", style="upper", junk=False)
                return judge_file(text, src[0], src[1], enforce, hw_names()), file_data(text, src[0], src[1], enforce)
        res = impl_import_tokens(toks, enforce)
        if res[0] == "err" and res[1].startswith("EOther"):
            continue
        if res[0] == "ok" and not all(modelable(v) for v in res[1][0].values()):
            continue
        cs.ctx.dist["tokens->" + (res[1] if res[0] == "err" else "ok%d" % len(res[1][1]))] += 1
        cs.add("import-tokens", "res_eqb file_eqb (bf2_import %s %s) %s" % (qtoks(toks), qbool(enforce), qres(res, qfile)),
               (style, enforce, toks), judge=jd)


def text_fuzz(r, text):
    """line-level damage of a BF2 text"""
    lines = text.split("\n")
    k = r.randrange(len(lines))
    mut = r.choice(["none"] * 9 + ["cutline", "oddhex", "badhex", "dropend", "dropstart", "cmdjunk", "metajunk",
                    "nocolon", "twocolon", "emptycmd", "ws", "params", "latin1", "truncate", "noeol", "sep"])
    if mut == "cutline" and lines[k].startswith(":"):
        lines[k] = lines[k][:r.randrange(1, len(lines[k]) + 1)]
    elif mut == "oddhex" and lines[k].startswith(":"):
        lines[k] = lines[k].rstrip("\r")[:-1]
    elif mut == "badhex" and lines[k].startswith(":"):
        p = r.randrange(1, len(lines[k]) + 1)
        lines[k] = lines[k][:p] + r.choice("gG#xé") + lines[k][p:]
    elif mut == "dropend":
        ends = [i for i, l in enumerate(lines) if l.startswith(":0000FF")]
        if ends:
            del lines[r.choice(ends)]
    elif mut == "dropstart":
        ends = [i for i, l in enumerate(lines) if l.startswith(":0000FE")]
        if ends:
            del lines[r.choice(ends)]
    elif mut == "cmdjunk":
        lines.insert(k, r.choice(["#>", "#> ", "#>X", "#>X Y", "#>X A=B=C", "#>X A=1,,B=2", "#>X A=1, ,B=2", "#>X  A = 1 , B=2 ",
                                  "#>REBOOT ", "#>\tREBOOT\t", "#>X A=1,A=2,B=3", "#>X =", "#>SELECT_IF PROTOCOL=*",
                                  "#>X A=1\x1c", "#>X\xa0A=1", "#>load", "#>load a=1", "#>load a", "#>Load", "#> load", "#>CRC 0x12345678"]))
    elif mut == "metajunk":
        lines.insert(k, r.choice(["##", "##:", "##A", "##A:B:C", "## A : B ", "##A:", "##Creator:\ttool\x1f ", "##REBOOT:",
                                  "##Bf3Update:1", "###x:y", "##CRC: 0x0000BEEF", "##CRC:0xBEEF", "##SELECT: text",
                                  "##load: x", "##load:", "##load", "## load: x", "##Load: x", "##load:x:y",
                                  "##CRC: 0x1FFFFFFFF", "##CRC: 0x-1", "##Firmware: 70000 DE ZBA   1.02.03",
                                  "##SELECT: abc", "##CHECK_FWVER: x", "##SELECT_IF: x", "##SELECT_IF: *", "##SELECT:",
                                  "#>Creator A=b", "#>Firmware X=1", "#>CRC A=0x10", "#>Bf3Update"]))
    elif mut == "nocolon":
        lines.insert(k, r.choice(["0000FE00", " :0000FF00", "#:", "# > REBOOT", "#", ""]))
    elif mut == "twocolon" and lines[k].startswith(":"):
        lines[k] = ":" + lines[k].replace("0", "0:", 2).replace("1", "-1.", 1)
    elif mut == "emptycmd":
        lines.insert(k, "#>" + r.choice(["", " ", "\t"]))
    elif mut == "ws":
        lines[k] = lines[k] + r.choice([" ", "\t", "\x0b", "\x1c", "\x85", "\xa0"])
    elif mut == "params":
        lines.insert(k, "#>SELECT FILTER=" + r.choice(["01 01 00 9B", "01,01,00,9B", "01-01-00-9B", "01:01:00:9B", "0101009b"]))
    elif mut == "latin1":
        lines.insert(k, r.choice(["# caf\xe9", "##Creator: caf\xe9 \xa0", "#>X \xe4=\xf6"]))
    elif mut == "truncate":
        lines = lines[:k]
    elif mut == "noeol":
        while lines and lines[-1] == "":
            lines.pop()
    elif mut == "sep":
        lines = [l.replace("\r", "") for l in lines]
    return mut, "\n".join(lines)


def corr_text(cs, n):
    r = cs.ctx.rng
    m = M()
    # hex2bin
    alpha = "0123456789abcdefABCDEF" * 3 + " ,-./:\t\r\n\x0b\x1c\x85\xa0gG+_é\x00"
    for i in range(max(20, n // 2)):
        s = "".join(r.choice(alpha) for _ in range(r.choice([0, 1, 2, 3, 4, 5, 8, 9, 31])))
        if any(ord(c) > 255 for c in s):
            continue
        res = run_impl(m.hex2bin, s)
        cs.add("hex2bin", "res_eqb bytes_eqb (hex2bin %s) %s" % (qstr(s), qres(res, qbytes)), s, key=s)
    for _ in range(n):
        header, secs, info = gen_file(r, max_bytes=r.choice([30, 120, 400, 1500]), nsec=r.choice([1, 1, 2, 3]))
        text = render_file(r, header, secs)
        mut, text = text_fuzz(r, text)
        if any(ord(c) > 255 for c in text):
            continue
        p = impl_parse(text)
        if p[0] == "err" and p[1].startswith("EOther"):
            continue
        cs.ctx.dist["text:" + mut] += 1
        if p[0] == "ok" and all(modelable(t[1]) or (t[0] == "load" and isinstance(t[1], list)) for t in p[1]):
            cs.add("parse", "res_eqb (list_eqb token_eqb) (parse_text %s) %s" % (qs(text), qres(p, qtoks)), (mut, text))
        elif p[0] == "err":
            cs.add("parse", "res_eqb (list_eqb token_eqb) (parse_text %s) %s" % (qs(text), qres(p, qtoks)), (mut, text))
        enforce = r.random() < 0.85
        res = impl_import_text(text, enforce)
        if res[0] == "err" and res[1].startswith("EOther"):
            continue
        if res[0] == "ok" and not all(modelable(v) for v in res[1][0].values()):
            continue
        cs.ctx.dist["text->" + (res[1] if res[0] == "err" else "ok%d" % len(res[1][1]))] += 1
        jd = None
        if mut == "none":
            jd = (lambda text=text, header=header, secs=secs, enforce=enforce:
                  (judge_file(text, header, secs, enforce, hw_names()), file_data(text, header, secs, enforce)))
        cs.add("import-text", "res_eqb file_eqb (bf2_import_text %s %s) %s" % (qs(text), qbool(enforce), qres(res, qfile)),
               (mut, enforce, text), judge=jd)


# ---------------------------------------------------------------------------
# text grammar (Model/Bf2Render.v): items, their rendering, well-formedness and the tokens they
# stand for, written here from the BF2 grammar (the Python twin of render_file / item_okb /
# tokens_of; the correspondence checks inside Coq that the twin's text IS render_file's text and
# that the twin's verdict IS item_okb's, so the text given to the real parser is the model's).
#   ("H", name, value)            ##name: value
#   ("I", name, [(k, v), ...])    #>name  |  #>name k=v,k=v
#   ("D", [line, ...])            :0000FE00 / :hex(raw) ... / :0000FF00

G_WS = "\t\n\x0b\x0c\r\x1c\x1d\x1e\x1f \x85\xa0"     # white space among the code points 0..255


def g_render(items, eol, final=True, blanks=None):
    """blanks: optional callable giving white space (no line feed) to put before each line end"""
    out = []
    for it in items:
        if it[0] == "H":
            out.append("##" + it[1] + ": " + it[2])
        elif it[0] == "I":
            out.append("#>" + it[1] + ((" " + ",".join(k + "=" + v for k, v in it[2])) if it[2] else ""))
        else:
            out.append(":0000FE00")
            out += [":" + l[3].hex().upper() for l in it[1]]
            out.append(":0000FF00")
    if blanks:
        out = [b + blanks() for b in out]
    return "".join(b + eol for b in out) if final else eol.join(out)


G_BLANKS = ["", "", " ", "\t", "  ", " \t", "\x0b", "\x0c", "\r", "\x1c", "\x1f", "\x85", "\xa0", "\xa0 \t\r"]


def g_line_ok(l):
    t, ndx, tag, raw = l
    return (0 <= ndx < 65536 and 0 <= t < 254 and len(tag) < 256
            and raw[:4 + len(tag)] == ndx.to_bytes(2, "big") + bytes([t, len(tag)]) + tag)


def g_item_ok(it):
    def lead_ok(x):
        return not x or x[0] not in G_WS

    def trail_ok(x):
        return not x or x[-1] not in G_WS
    if it[0] == "H":
        n, v = it[1], it[2]
        return (":" not in n and "\n" not in n and n != "load"
                and ":" not in v and "\n" not in v and lead_ok(v) and trail_ok(v))
    if it[0] == "I":
        n = it[1]
        if not n or any(c in G_WS for c in n) or n == "load":
            return False
        return all(not any(c in k for c in "\n,=") and lead_ok(k) and not any(c in v for c in "\n,=") and trail_ok(v)
                   for k, v in it[2])
    return bool(it[1]) and all(g_line_ok(l) for l in it[1])


def g_tokens(items):
    out = []
    for it in items:
        if it[0] == "H":
            out.append((it[1], it[2]))
        elif it[0] == "I":
            d = {}
            for k, v in it[2]:
                d[k] = v
            out.append((it[1], d))
        else:
            out.append(("load", list(it[1])))
    return out


def qitem(it):
    if it[0] == "H":
        return "(IHeader %s %s)" % (qs(it[1]), qs(it[2]))
    if it[0] == "I":
        return "(IInstr %s %s)" % (qs(it[1]), qlist(["(%s, %s)" % (qs(k), qs(v)) for k, v in it[2]], "(str * str)"))
    return "(IData %s)" % qlines(it[1])


def qitems(items):
    return qlist([qitem(it) for it in items], "item")


def items_json(items):
    return [[it[0], it[1], [list(kv) for kv in it[2]]] if it[0] == "I" else
            [it[0], it[1], it[2]] if it[0] == "H" else
            [it[0], [[l[0], l[1], l[2].hex(), l[3].hex()] for l in it[1]]] for it in items]


def items_from_json(j):
    out = []
    for it in j:
        if it[0] == "H":
            out.append(("H", it[1], it[2]))
        elif it[0] == "I":
            out.append(("I", it[1], [tuple(kv) for kv in it[2]]))
        else:
            out.append(("D", [(l[0], l[1], bytes.fromhex(l[2]), bytes.fromhex(l[3])) for l in it[1]]))
    return out


def items_of_file(header, secs):
    """the items of a file from gen_file (same layout as render_file(..., junk=False))"""
    def one(n, p):
        return ("I", n, list(p.items())) if isinstance(p, dict) else ("H", n, p)
    items = [one(n, p) for n, p in header]
    for s in secs:
        items += [one(n, p) for n, p in s.instrs]
        items += [("D", list(g)) for g in s.groups]
        if s.reboot:
            items.append(("I", "REBOOT", []))
    return items


G_ALPHA = "aZ09 _-.\t\r=,:#>!*/\xe9\xa0\x85\x1c" + "abcXYZ0123456789" * 2
G_NAMES = ["REBOOT", "CRC", "SELECT", "CHECK_FWVER", "Firmware", "Creator", "Bf3Update", "SELECT_IF", "Load", "LOAD", "loa", "loadx",
           "x", "#", ">", "A=B", "a,b", "\xe4\xf6"]


def g_str(r, forbidden, lead=True, trail=True, nonempty=False, maxlen=12):
    """random string over G_ALPHA minus `forbidden`; lead/trail False: may not start/end with white space"""
    n = r.choice([0, 1, 1, 2, 3, 5, 8, r.randrange(0, maxlen + 1)])
    if nonempty:
        n = max(n, 1)
    alpha = [c for c in G_ALPHA if c not in forbidden]
    t = [r.choice(alpha) for _ in range(n)]
    solid = [c for c in alpha if c not in G_WS]
    if t and not lead and t[0] in G_WS:
        t[0] = r.choice(solid)
    if t and not trail and t[-1] in G_WS:
        t[-1] = r.choice(solid)
    return "".join(t)


def g_data_item(r):
    lines = []
    for i in range(r.choice([1, 1, 2, 3, 6])):
        t = r.choice([0x35, 0x36, 0x39, 0x40, 0x70, 0x84, 0x85, 0x34, 0x48, 0, 1, 253, r.randrange(0, 254)])
        if r.random() < 0.6:
            n = r.choice([0, 1, 4, 16, r.randrange(0, 40)])
            tag = bytes([n + 2]) + r.randrange(0x10000).to_bytes(2, "big") + rbytes(r, n)
        else:
            tag = rbytes(r, r.choice([0, 1, 2, 3, 9, 255]))
        lines.append(line_of(r.choice([i, 0, 0xFFFF, r.randrange(0x10000)]), t, tag, rbytes(r, r.choice([0, 0, 0, 1, 2]))))
    return ("D", lines)


def g_header_item(r):
    name = r.choice(G_NAMES) if r.random() < 0.5 else g_str(r, ":\n")
    if name == "load":
        name = "Load"
    return ("H", name, g_str(r, ":\n", lead=False, trail=False, maxlen=24))


def g_instr_item(r):
    name = r.choice(G_NAMES) if r.random() < 0.5 else g_str(r, G_WS, nonempty=True)
    if name == "load":
        name = "load2"
    ps = []
    for _ in range(r.choice([0, 0, 1, 1, 2, 3, 5])):
        k = r.choice(["FILTER", "PROTOCOL", "VERSIONDESC", "A", ""]) if r.random() < 0.5 else g_str(r, "\n,=", lead=False)
        ps.append((k, g_str(r, "\n,=", trail=False)))
    if ps and r.random() < 0.2:
        ps.append((ps[0][0], g_str(r, "\n,=", trail=False)))      # a repeated key
    return ("I", name, ps)


def g_random_items(r):
    items = []
    for _ in range(r.choice([1, 1, 2, 3, 5, 8])):
        items.append(r.choice([g_header_item, g_header_item, g_instr_item, g_instr_item, g_data_item])(r))
    return items


def g_break(r, items):
    """violate exactly one clause of the grammar's side condition in one item; returns (what, items)"""
    items = list(items)
    kind = r.choice("HHHIIIIID")
    idx = [k for k, it in enumerate(items) if it[0] == kind]
    if not idx:
        items.insert(r.randrange(len(items) + 1), {"H": ("H", "Creator", "tool"), "I": ("I", "X", [("a", "v")]),
                                                   "D": ("D", [line_of(0, 0x35, b"\x03\x00\x00A")])}[kind])
        idx = [k for k, it in enumerate(items) if it[0] == kind]
    k = r.choice(idx)
    it = items[k]
    ws = r.choice(G_WS.replace("\n", ""))

    def ins(x, c):
        p = r.randrange(len(x) + 1)
        return x[:p] + c + x[p:]
    if kind == "H":
        what = r.choice(["name:", "name-nl", "name-load", "value:", "value-nl", "value-lead", "value-trail"])
        n, v = it[1], it[2]
        if what == "name:":
            n = ins(n, ":")
        elif what == "name-nl":
            n = ins(n, "\n")
        elif what == "name-load":
            n = "load"
        elif what == "value:":
            v = ins(v, ":")
        elif what == "value-nl":
            v = ins(v, "\n")
        elif what == "value-lead":
            v = ws + v
        else:
            v = v + ws
        items[k] = ("H", n, v)
    elif kind == "I":
        n, ps = it[1], list(it[2])
        what = r.choice(["name-empty", "name-ws", "name-load", "key-nl", "key,", "key=", "key-lead",
                         "val-nl", "val,", "val=", "val-trail"])
        if what.startswith(("key", "val")) and not ps:
            ps = [("a", "v")]
        j = r.randrange(len(ps)) if ps else 0
        if what == "name-empty":
            n = ""
        elif what == "name-ws":
            n = ins(n or "x", r.choice(G_WS))
        elif what == "name-load":
            n = "load"
        elif what == "key-nl":
            ps[j] = (ins(ps[j][0], "\n"), ps[j][1])
        elif what == "key,":
            ps[j] = (ins(ps[j][0], ","), ps[j][1])
        elif what == "key=":
            ps[j] = (ins(ps[j][0], "="), ps[j][1])
        elif what == "key-lead":
            ps[j] = (ws + ps[j][0], ps[j][1])
        elif what == "val-nl":
            ps[j] = (ps[j][0], ins(ps[j][1], "\n"))
        elif what == "val,":
            ps[j] = (ps[j][0], ins(ps[j][1], ","))
        elif what == "val=":
            ps[j] = (ps[j][0], ins(ps[j][1], "="))
        else:
            ps[j] = (ps[j][0], ps[j][1] + ws)
        items[k] = ("I", n, ps)
    else:
        ls = list(it[1])
        what = r.choice(["empty", "ndx", "typeFE", "typeFF", "taglen", "raw"])
        j = r.randrange(len(ls))
        t, ndx, tag, raw = ls[j]
        if what == "empty":
            ls = []
        elif what == "ndx":
            ls[j] = (t, ndx + 0x10000, tag, raw)
        elif what == "typeFE":
            ls[j] = line_of(ndx, 0xFE, tag)
        elif what == "typeFF":
            ls[j] = line_of(ndx, 0xFF, tag)
        elif what == "taglen":
            big = tag + rbytes(r, 256 - len(tag) + r.randrange(0, 3))
            ls[j] = (t, ndx, big, ndx.to_bytes(2, "big") + bytes([t, len(big) & 0xFF]) + big)
        else:
            ls[j] = (t, ndx, tag, raw[:2] + bytes([(raw[2] + 1) % 254]) + raw[3:])
        items[k] = ("D", ls)
    return kind + ":" + what, items


def g_roundtrip_problem(items, text):
    """the property predicate on the implementation: the real parser must return exactly the
    items' tokens for the text of well-formed items"""
    p = impl_parse(text)
    want = g_tokens(items)
    if p == ("ok", want):
        return None
    if p[0] != "ok":
        return "parse_bf2_file raised %s on a text of the grammar" % p[1]
    if len(p[1]) != len(want):
        return "parse_bf2_file returned %d tokens for %d items" % (len(p[1]), len(want))
    k = next(i for i in range(len(want)) if p[1][i] != want[i])
    return "token %d is %r, the item says %r" % (k, p[1][k] if p[1][k][0] != "load" else ("load", len(p[1][k][1])),
                                                 want[k] if want[k][0] != "load" else ("load", len(want[k][1])))


def g_data(items, eol, final, enforce=True, text=None):
    """text: given when it is not simply g_render(items, eol, final) (white space before the line ends)"""
    return {"items": items_json(items), "eol": eol, "final": final, "enforce": enforce, "text": text}


def corr_grammar(cs, n):
    """whole files of the text grammar: the text is render_file's (checked in Coq against the twin's),
    the real parser's tokens and the real importer's components are compared with the model's; a
    second stream violates one clause of item_ok per file (both sides may reject, but must agree)"""
    r = cs.ctx.rng
    for i in range(2 * n):
        excluded = i >= n
        header = secs = None
        if r.random() < 0.5:
            header, secs, info = gen_file(r, max_bytes=r.choice([20, 60, 200]), nsec=r.choice([1, 1, 2, 3]), defects=False)
            items = items_of_file(header, secs)
            if r.random() < 0.4:      # interleave lexically odd but well-formed lines
                for _ in range(r.choice([1, 2])):
                    items.insert(r.randrange(len(items) + 1), r.choice([g_header_item, g_instr_item])(r))
                header = None
        else:
            items = g_random_items(r)
        what = "grammar"
        if excluded:
            what, items = g_break(r, items)
            header = None
        eol = r.choice(["\r\n", "\n"])
        final = r.random() < 0.75
        ok = all(g_item_ok(it) for it in items)
        assert ok != excluded, (what, items)
        tails = ok and r.random() < 0.25       # white space before the line ends (C13_text_lines)
        text = g_render(items, eol, final, (lambda: r.choice(G_BLANKS)) if tails else None)
        if tails:
            header = None
        if any(ord(c) > 255 for c in text):
            continue
        cs.ctx.dist["grammar:" + (what if excluded else "ok")] += 1
        p = impl_parse(text)
        if p[0] == "err" and p[1].startswith("EOther"):
            continue
        data = g_data(items, eol, final, text=text if tails else None)
        jd = None
        if ok:
            jd = (lambda items=items, text=text, data=data:
                  ([("text-roundtrip", g_roundtrip_problem(items, text))] if g_roundtrip_problem(items, text) else [], data))
        rend = "(%s %s items)" % ("render_file" if final else "render_file_nonl", "CRLF" if eol == "\r\n" else "LF")
        cs.add("grammar-render",
               "(let items := %s in Bool.eqb (forallb item_okb items) %s && %s && %s)" % (
                   qitems(items), qbool(ok), "true" if tails else "str_eqb %s %s" % (rend, qs(text)),
                   ("res_eqb toks_eqb (Ok (tokens_of items)) %s" % qres(p, qtoks)) if ok else "true"),
               (what, eol, final, items), judge=jd)
        cs.add("grammar-parse", "res_eqb toks_eqb (parse_text %s) %s" % (qs(text), qres(p, qtoks)), (what, text), judge=jd)
        enforce = r.random() < 0.85
        res = impl_import_text(text, enforce)
        if res[0] == "err" and res[1].startswith("EOther"):
            continue
        if res[0] == "ok" and not all(modelable(v) for v in res[1][0].values()):
            continue
        cs.ctx.dist["grammar->" + (res[1] if res[0] == "err" else "ok%d" % len(res[1][1]))] += 1
        jd2 = jd
        if header is not None and final:
            jd2 = (lambda text=text, header=header, secs=secs, enforce=enforce:
                   (judge_file(text, header, secs, enforce, hw_names()), file_data(text, header, secs, enforce)))
        cs.add("grammar-import", "res_eqb file_eqb (bf2_import_text %s %s) %s" % (qs(text), qbool(enforce), qres(res, qfile)),
               (what, enforce, text), judge=jd2)
    # every code point 0..255 at the end of a header value and of a parameter value, before the line end
    for c in range(256):
        for text in ("##N: a%s\r\n" % chr(c), "#>X k=v%s\n" % chr(c)):
            p = impl_parse(text)
            if p[0] == "err" and p[1].startswith("EOther"):
                continue
            cs.add("grammar-char", "res_eqb toks_eqb (parse_text %s) %s" % (qs(text), qres(p, qtoks)), text)


def extents_of_lines(ls):
    """(address, data) extents of well-formed lines in file order, merged while contiguous"""
    ext = []
    for t, _, tag, _ in ls:
        a = (t - ls[0][0]) * 0x10000 + int.from_bytes(tag[1:3], "big")
        d = tag[3:3 + tag[0] - 2]
        if ext and ext[-1][0] + len(ext[-1][1]) == a:
            ext[-1] = (ext[-1][0], ext[-1][1] + d)
        else:
            ext.append((a, d))
    return ext


def correspondence(ctx):
    cs = Cases(ctx)
    q = ctx.quick()
    corr_unpack(cs, ctx.budget(120, 1500))
    corr_exec(cs, ctx.budget(300, 4000))
    corr_filter(cs, ctx.budget(100, 1500))
    corr_annot(cs, ctx.budget(150, 2000))
    corr_int(cs, ctx.budget(150, 1500))
    corr_tokens(cs, ctx.budget(220, 3000))
    corr_text(cs, ctx.budget(120, 1500))
    corr_grammar(cs, ctx.budget(110, 1500))
    ctx.sample({"op": cs.descr[0][0], "input": repr(cs.descr[0][1])[:300]})
    bad = ctx.coq_eval("c13", IMPORTS, cs.exprs, shard=60 if q else 120, timeout=1200)
    if bad is None:
        return
    ctx.traces += len(cs.exprs)
    nbroken = 0
    for i in bad:
        kind, info, judge = cs.descr[i]
        problems = None
        if judge is not None and len(ctx.fails) < 12:
            # the model and the implementation disagree on an input for which the property
            # predicate can be evaluated directly: a violation is reported as a failing input
            problems, data = judge()
            for pk, detail in problems[:2]:
                ctx.fail(pk, data, detail)
        if not problems and nbroken < 10:
            nbroken += 1
            ctx.broken("correspondence: Model.Bf2Import differs from the implementation on %s" % kind,
                       {"case": repr(info)[:3000], "expr": cs.exprs[i][:3000]})


# ---------------------------------------------------------------------------
# search: the property predicate on the real implementation

FORMAT_ERRS = ("EBf3", "EUnsupTagType", "EUnsupLegacy", "EUnsupBf2Instr")


def sec_to_json(s):
    idx = {id(l): k for k, l in enumerate(s.lines)}
    return {"base": s.base, "image": s.image.hex(), "defect": s.defect, "reboot": s.reboot,
            "lines": [[l[0], l[1], l[2].hex(), l[3].hex()] for l in s.lines],
            "groups": [[idx[id(l)] for l in g] for g in s.groups],
            "extents": [[a, d.hex()] for a, d in s.extents],
            "instrs": [[n, p] for n, p in s.instrs]}


def sec_from_json(j):
    lines = [(l[0], l[1], bytes.fromhex(l[2]), bytes.fromhex(l[3])) for l in j["lines"]]
    s = Sec(j["base"], bytes.fromhex(j["image"]), lines, [(a, bytes.fromhex(d)) for a, d in j["extents"]],
            [[lines[k] for k in g] for g in j["groups"]], j["defect"])
    s.reboot = j["reboot"]
    s.instrs = [(n, p) for n, p in j["instrs"]]
    return s


def judge_file(text, header, secs, enforce, names, r=None):
    """Run the real bf2_import on the text and compare with what the generator laid out.
    Returns a list of (kind, detail)."""
    import random
    r = r or random.Random(0)
    m = M()
    problems = []
    try:
        f = m.Bf3File.bf2_import(io.StringIO(text), enforce)
        res = ("ok", f)
    except Exception as e:      # noqa
        res = ("err", canon_exc(e), repr(e)[:200])
    defects = [s.defect for s in secs if s.defect]
    expected, persist = expected_components(header, secs)
    marker = "Bf3Update" in persist and len(expected) > 0
    if defects:
        if res[0] == "ok":
            return [("defect-accepted", "section with %s imported without error: %d components, blob lengths %s" % (
                defects, len(f.components), [len(c.blob) for c in f.components]))]
        if res[1] not in FORMAT_ERRS:
            return [("defect-wrong-error", "%s for a section with %s" % (res[1:], defects))]
        return []
    if enforce and not marker:
        if res[0] == "ok":
            return [("legacy-accepted", "no Bf3Update marker, import succeeded")]
        if res[1] != "EUnsupLegacy":
            return [("legacy-wrong-error", "%s instead of UnsupportedLegacyFirmwareError" % (res[1:],))]
        return []
    if res[0] != "ok":
        return [("valid-rejected", "%s on a defect-free file" % (res[1:],))]
    order = sorted(range(len(expected)), key=lambda k: expected[k][0][TAG["TYPE"]])
    exp = [expected[k] for k in order]
    if len(f.components) != len(exp):
        return [("component-count", "%d components, expected %d" % (len(f.components), len(exp)))]
    for n, (c, (d, blob, s)) in enumerate(zip(f.components, exp)):
        if bytes(c.blob) != blob:
            k = next((i for i in range(min(len(blob), len(c.blob))) if blob[i] != c.blob[i]), min(len(blob), len(c.blob)))
            problems.append(("payload", "component %d (tag type 0x%02X): payload differs from the %s at offset %d (len %d, expected %d)" % (
                n, s.base, "image" if SPEC[s.base]["kind"] == "blob" else "raw lines", k, len(c.blob), len(blob))))
        if c.actual_len != len(blob):
            problems.append(("actual-len", "component %d actual_len %r != %d" % (n, c.actual_len, len(blob))))
        if dict(c.description) != d:
            diff = {k: (c.description.get(k), d.get(k)) for k in set(d) | set(c.description) if c.description.get(k) != d.get(k)}
            problems.append(("tags", "component %d (tag type 0x%02X): tags differ {tag: (impl, stated)}: %r" % (n, s.base, diff)))
        cm = f.comments.get("Component%d" % n)
        sp = SPEC[s.base]
        if not isinstance(cm, str):
            problems.append(("comment-missing", "Component%d" % n))
            continue
        if sp["type"] == MAIN:
            kind_ok = cm.startswith("Main Firmware")
        elif sp["type"] == LOADER:
            kind_ok = "Loader Firmware" in cm and cm.startswith(INTF_NAMES[d[TAG["INTF"]][0]])
        else:
            hw = int.from_bytes(d[TAG["HWCID"]], "big")
            nm = [k for k, v in names.items() if v == hw]
            kind_ok = " Firmware" in cm and (cm.startswith(nm[0]) if nm else ("%X" % hw) in cm.split(" Firmware")[0])
        if not kind_ok:
            problems.append(("comment-kind", "Component%d = %r does not name the kind (type %d)" % (n, cm, sp["type"])))
        flt = d.get(TAG["PFID2"])
        mt = re.search(r"\[PFID2-Filter: (.*)\]$", cm)
        if flt is not None:
            if not mt:
                problems.append(("comment-filter-missing", "Component%d = %r" % (n, cm)))
            else:
                try:
                    for hwset in hw_sets(r, flt):
                        if expr_eval(mt.group(1), hwset, names) != spec_filter_eval(flt, hwset):
                            problems.append(("filter-expr", "filter %s rendered as %r: differs on hardware set %s" % (
                                flt.hex(), mt.group(1), sorted(hwset))))
                            break
                except ValueError as e:
                    problems.append(("filter-expr-syntax", "filter %s rendered as %r: %s" % (flt.hex(), mt.group(1), e)))
        elif mt:
            problems.append(("comment-filter-unexpected", cm))
    # file-level comments (written while a section is emitted: none if every section is ignored)
    if not exp:
        return problems
    if "Firmware" in persist:
        fw = persist["Firmware"]
        if f.comments.get("FirmwareId") != fw[:4] or f.comments.get("FirmwareVersion") != fw[15:22]:
            problems.append(("comment-firmware", "%r / %r for %r" % (f.comments.get("FirmwareId"), f.comments.get("FirmwareVersion"), fw)))
    if "Creator" in persist and f.comments.get("Creator") != persist["Creator"] + " + bf2-to-bf3-converter":
        problems.append(("comment-creator", repr(f.comments.get("Creator"))))
    if "Bf3Update" in persist and f.comments.get("Bf3Update") != persist["Bf3Update"]:
        problems.append(("comment-marker", repr(f.comments.get("Bf3Update"))))
    return problems


def judge_lines(lines, extents, contiguous_from_0):
    """direct calls of bf2_unpack_payload / bf2_convert_payload on one section's lines"""
    m = M()
    bl = mk_binlines(lines)
    problems = []
    u = run_impl(lambda: m.Bf3File.bf2_unpack_payload(bl))
    if u != ("ok", dict(extents)):
        problems.append(("unpack-extents", "blocks %s, laid out %s" % (
            [(a, len(d)) for a, d in u[1].items()] if u[0] == "ok" else u[1], [(a, len(d)) for a, d in extents])))
    mi = run_impl(m.Bf3File.bf2_convert_payload, bl, MEMIMG)
    want = b"".join(a.to_bytes(4, "big") + len(d).to_bytes(4, "big") + d for a, d in sorted(extents))
    if mi != ("ok", want):
        problems.append(("memimage", "memory image encoding differs from the extents laid out (%s)" % (
            "len %d vs %d" % (len(mi[1]), len(want)) if mi[0] == "ok" else mi[1])))
    b = run_impl(m.Bf3File.bf2_convert_payload, bl, BLOB)
    if contiguous_from_0:
        if b != ("ok", b"".join(d for _, d in extents)):
            problems.append(("blob", "contiguous image from 0 not returned as is: %s" % (b[1] if b[0] == "err" else "len %d" % len(b[1]))))
    else:
        if b[0] == "ok":
            problems.append(("blob-gap-accepted", "extents %s accepted as blob of %d bytes" % ([(a, len(d)) for a, d in extents], len(b[1]))))
        elif b[1] not in FORMAT_ERRS:
            problems.append(("blob-gap-wrong-error", b[1]))
    c = run_impl(m.Bf3File.bf2_convert_payload, bl, COMPAT)
    if c != ("ok", b"".join(l[3] for l in lines)):
        problems.append(("compat", "BF2-compatible payload is not the concatenation of the raw lines"))
    return problems


def line_addr(l, base):
    """(absolute address, payload bytes) a data line describes: page = tag type - first tag type"""
    t, _ndx, tag, _raw = l
    n = tag[0] - 2
    return ((t - base) << 16) + int.from_bytes(tag[1:3], "big"), tag[3:3 + n]


def judge_disorder(lines, base):
    """lines in an order (or multiplicity) an image rendered line by line would not have: a repeated line, two
    adjacent lines exchanged.  Judged by the memory image the lines describe (address -> byte, later lines win
    nowhere: only consistent descriptions are generated): a memory-image conversion must decode to exactly that
    image, a blob conversion - if it is accepted at all - must be exactly that image from address 0."""
    m = M()
    bl = mk_binlines(lines)
    img = {}
    for l in lines:
        a, d = line_addr(l, base)
        for i, x in enumerate(d):
            img[a + i] = x
    problems = []
    mi = run_impl(m.Bf3File.bf2_convert_payload, bl, MEMIMG)
    if mi[0] == "ok":
        got, pos, b = {}, 0, mi[1]
        try:
            while pos < len(b):
                a, n = int.from_bytes(b[pos:pos + 4], "big"), int.from_bytes(b[pos + 4:pos + 8], "big")
                for i, x in enumerate(b[pos + 8:pos + 8 + n]):
                    got[a + i] = x
                pos += 8 + n
        except Exception:   # noqa
            got = None
        if got != img:
            problems.append(("memimage", "memory image of out-of-order / repeated lines decodes to another image than the lines describe "
                                         "(%d bytes described, %s decoded)" % (len(img), len(got) if got is not None else "garbage")))
    elif mi[1] not in FORMAT_ERRS:
        problems.append(("memimage", "memory image conversion raised %s" % mi[1]))
    b = run_impl(m.Bf3File.bf2_convert_payload, bl, BLOB)
    if b[0] == "ok":
        want = bytes(img[i] for i in range(len(img))) if sorted(img) == list(range(len(img))) else None
        if b[1] != want:
            problems.append(("blob", "out-of-order / repeated lines accepted as a blob of %d bytes that is not the image they describe (%s bytes)"
                             % (len(b[1]), len(want) if want is not None else "not contiguous from 0")))
    elif b[1] not in FORMAT_ERRS:
        problems.append(("blob-gap-wrong-error", b[1]))
    return problems


def disorder_variants(r, lines):
    n = len(lines)
    out = []
    if n >= 1:
        i = r.choice([0, n - 1, r.randrange(n)])
        out.append(("repeat", lines[:i + 1] + [lines[i]] + lines[i + 1:]))
        out.append(("repeat-last", lines + [lines[-1]]))
    if n >= 2:
        i = r.choice([0, n - 2, r.randrange(n - 1)])
        out.append(("swap", lines[:i] + [lines[i + 1], lines[i]] + lines[i + 2:]))
        out.append(("reverse", lines[::-1]))
        out.append(("first-last", lines[1:] + lines[:1]))
    return out



def hole_section(r, base, first_len, skip, size):
    """a blob whose first part [0, first_len) lies on the first page and whose second part starts
    on page 1 + skip (tag type base + 1 + skip): `skip` whole tag types are missing in between"""
    img = rbytes(r, first_len + 600)
    nfirst = -(-first_len // size)
    sizes = iter([min(size, first_len - k * size) for k in range(nfirst)])
    lines, ext = image_lines(r, img, base, lambda: next(sizes, size),
                             gap=(nfirst, (1 + skip) * 0x10000 - first_len))
    s = Sec(base, img, lines, ext, group_lines(r, lines, base), "gap")
    return lines, ext, s


def report(ctx, problems, data):
    """record at most 4 failing inputs per kind of violation (small ones come first in the search)"""
    seen = ctx.extra.setdefault("_per_kind", {})
    for kind, detail in problems[:3]:
        seen[kind] = seen.get(kind, 0) + 1
        if seen[kind] <= 4:
            ctx.fail(kind, data, detail)


def file_data(text, header, secs, enforce):
    d = {"enforce": enforce, "header": [[n, p] for n, p in header], "secs": [sec_to_json(s) for s in secs]}
    d["text"] = text if len(text) < 400000 else None
    return d


def search_grammar(ctx, r, escalate):
    """text grammar: every text rendered from well-formed items must be read back by the real
    parser as exactly those items (both line ends, with and without final line end)"""
    def check(items, label):
        for eol in ("\r\n", "\n"):
            for final in (True, False):
                for tails in (False, True):
                    text = g_render(items, eol, final, (lambda: r.choice(G_BLANKS)) if tails else None)
                    ctx.case(("grammar", text))
                    pr = g_roundtrip_problem(items, text)
                    if pr:
                        report(ctx, [("text-roundtrip", "%s (%s, eol %r, final line end %s%s): %s" % (
                            label, items_json(items)[:3], eol, final, ", white space before the line ends" if tails else "", pr))],
                            g_data(items, eol, final, text=text if tails else None))
    # every code point 0..255 at every lexical position where the grammar allows it
    makers = [
        ("header-name", lambda x: ("H", x, "v")), ("header-value", lambda x: ("H", "N", x)),
        ("instr-name", lambda x: ("I", x, [])), ("instr-name-p", lambda x: ("I", x, [("k", "v")])),
        ("key", lambda x: ("I", "X", [(x, "v")])), ("value", lambda x: ("I", "X", [("k", x)])),
        ("key2", lambda x: ("I", "X", [("a", "b"), (x, "v")])), ("value1", lambda x: ("I", "X", [("k", x), ("a", "b")])),
    ]
    for c in range(256):
        for label, mk in makers:
            for x in (chr(c), "a" + chr(c), chr(c) + "a", "a" + chr(c) + "b"):
                it = mk(x)
                if g_item_ok(it):
                    ctx.dist["search:grammar-char"] += 1
                    check([it], label)
    # header comments directly before / after / between data groups, adjacent groups, empty parameter lists
    d1, d2 = ("D", [line_of(0, 0x35, b"\x03\x00\x00A")]), ("D", [line_of(1, 0x36, b"\x03\x00\x00B"), line_of(2, 0x36, b"")])
    h, i0, i1 = ("H", "Creator", "tool"), ("I", "REBOOT", []), ("I", "SELECT", [("FILTER", "01 01 00 9B")])
    for items in ([h, d1], [d1, h], [h, d1, h, d2, h], [d1, d2], [i0, d1, i0], [i1, d1, i1, d2], [h], [i0], [i1], [d1],
                  [h, h, i0, i1, d1, d2, i0, h]):
        check(items, "layout")
    n = ctx.budget(400, 5000) * (4 if escalate else 1)
    for k in range(n):
        if r.random() < 0.4:
            header, secs, info = gen_file(r, max_bytes=r.choice([20, 60, 200]), nsec=r.choice([1, 2, 3]), defects=False)
            items = items_of_file(header, secs)
        else:
            items = g_random_items(r)
        if not all(g_item_ok(it) for it in items):
            continue
        ctx.dist["search:grammar-file"] += 1
        check(items, "random")


def search(ctx):
    import random
    r = ctx.rng
    names = hw_names()
    escalate = bool(ctx.brokens)
    # 1. every line size 1..250 x every mapped blob type; gap at every line index
    sizes = range(1, 251)
    for base in [t for t in SPEC if SPEC[t]["kind"] == "blob"]:
        for size in sizes:
            if ctx.quick() and not escalate and size % 4 != base % 4 and size not in (1, 2, 249, 250):
                continue
            img = rbytes(r, r.choice([size * 3 + 1, size * 2, size + 1, 1, size]))
            lines, ext = image_lines(r, img, base, lambda: size)
            ctx.case(("lines", base, size, img))
            report(ctx, judge_lines(lines, ext, True), {"lines": [list(map(jl, l)) for l in lines], "extents": jext(ext), "contig": True})
    for nlines in (2, 3, 7, 12):
        for gi in range(0, nlines):
            for glen in (1, 250, 0x10000 - 3):
                base = r.choice([0x35, 0x39, 0x40])
                size = r.choice([1, 16, 250])
                img = rbytes(r, size * nlines)
                if gi == 0:
                    lines, ext = image_lines(r, img, base, lambda: size, start=glen)
                else:
                    lines, ext = image_lines(r, img, base, lambda: size, gap=(gi, glen))
                ctx.case(("gap", nlines, gi, glen, base, size))
                ctx.dist["search:gap-position"] += 1
                report(ctx, judge_lines(lines, ext, False), {"lines": [list(map(jl, l)) for l in lines], "extents": jext(ext), "contig": False})
    # 1b. page holes: the continuation pages of a blob are not consecutive tag types (one or two
    # tag types skipped), with the page before the hole full and not full: a gap of whole pages
    for base in (0x35, 0x39, 0x40):
        for first_len in (0x10000, 0x10000 - 250, 0x8000, 1):
            for skip in (1, 2):
                lines, ext, s = hole_section(r, base, first_len, skip, 250)
                ctx.case(("page-hole", base, first_len, skip))
                ctx.dist["search:page-hole"] += 1
                data = {"hole": [base, first_len, skip, 250]}
                pr = judge_lines(lines, ext, False)
                hdr = [("Bf3Update", "1")]
                pr += judge_file(render_file(r, hdr, [s], junk=False), hdr, [s], True, names)
                report(ctx, [("page-hole-" + k, d) for k, d in pr], data)
    # 2. page crossings: images around 64 KiB, lines ending at / straddling the boundary
    for base in (0x35, 0x39, 0x3D, 0x40):
        for total, size, straddle in ((0x10000, 250, False), (0x10001, 250, False), (0xFFFF, 249, False), (0x10000 + 7, 250, True),
                                      (0x10000 + 300, 199, True), (0x20000 - 1, 250, False), (0x20000, 128, False)):
            if ctx.quick() and not escalate and r.random() < 0.5:
                continue
            img = rbytes(r, total)
            lines, ext = image_lines(r, img, base, lambda: size, straddle=straddle)
            ctx.case(("page", base, total, size, straddle))
            ctx.dist["search:page-crossing"] += 1
            report(ctx, judge_lines(lines, ext, True), {"lines": None, "page": [base, total, size, straddle]})
            s = Sec(base, img, lines, ext, group_lines(r, lines, base))
            hdr = [("Bf3Update", "1")]
            text = render_file(r, hdr, [s], junk=False)
            report(ctx, judge_file(text, hdr, [s], True, names), {"page": [base, total, size, straddle], "text": None})
    # 3. random files in the unambiguous shapes
    n_files = ctx.budget(500, 6000) * (4 if escalate else 1)
    for k in range(n_files):
        header, secs, info = gen_file(r, max_bytes=r.choice([64, 300, 1500, 2000]))
        text = render_file(r, header, secs)
        enforce = r.random() < 0.85
        ctx.case(("file", text), trivial=False)
        ctx.dist["search:file:" + info["mode"]] += 1
        for s in secs:
            ctx.dist["search:sec:%s" % (s.defect or ("ignored" if s.base in IGNORED else SPEC[s.base]["kind"]))] += 1
        pr = judge_file(text, header, secs, enforce, names, r)
        if pr:
            report(ctx, pr, file_data(text, header, secs, enforce))
        if k < 2:
            ctx.sample({"bf2_text_head": text[:400], "sections": [(hex(s.base), len(s.image), s.defect) for s in secs]})
        # the same sections through the direct entry points
        for s in secs:
            if s.base in SPEC and SPEC[s.base]["kind"] == "blob" and s.defect in (None, "gap", "nonzero"):
                report(ctx, judge_lines(s.lines, s.extents, s.defect is None),
                       {"lines": [list(map(jl, l)) for l in s.lines], "extents": jext(s.extents), "contig": s.defect is None})
                if s.defect is None and len(s.lines) <= 400:
                    for label, ls in disorder_variants(r, s.lines):
                        ctx.case(("disorder", label, tuple(l[3] for l in ls)))
                        ctx.dist["search:disorder:" + label] += 1
                        report(ctx, judge_disorder(ls, s.base),
                               {"lines": [list(map(jl, l)) for l in ls], "disorder": label, "base": s.base})
    # 4. a few large images (up to 200000 bytes)
    n_big = ctx.budget(3, 40) * (2 if escalate else 1)
    for k in range(n_big):
        header, secs, info = gen_file(r, nsec=r.choice([1, 2]), big=True)
        text = render_file(r, header, secs, junk=False)
        ctx.case(("bigfile", len(text), k))
        ctx.dist["search:big-file"] += 1
        pr = judge_file(text, header, secs, True, names, r)
        if pr:
            report(ctx, pr, file_data(text, header, secs, True))
    # 5. text grammar round trip
    search_grammar(ctx, r, escalate)
    ctx.extra.pop("_per_kind", None)
    ctx.extra["rule"] = (
        "correspondence: unit level (bf2_unpack_payload/bf2_convert_payload on well-formed, gapped, overlapping, colliding, "
        "negative-length, truncated line lists; exec_bf2instrs on random instruction dicts incl. malformed values and wrong types; "
        "pfid2_filter_to_str; annotations incl. non-ASCII versions; hex2bin; int()), token level (bf2_import with the parser replaced by "
        "generated token streams and mutations of them: extra REBOOT/CHECK_FWVER, unsupported and '*' protocols, duplicated/deleted tokens, "
        "continuation groups, empty loads), text level (parse_bf2_file and bf2_import on rendered BF2 texts with line damage) and grammar "
        "level (item lists of header comments, instruction lines without/with key=value parameters and data groups: the text is "
        "Model.Bf2Render.render_file's - checked in Coq against the harness's twin - and goes through the real parse_bf2_file and bf2_import, "
        "CRLF/LF, with/without final line end; a second stream violates exactly one clause of item_ok per file; every code point 0..255 "
        "before the line end); "
        "search: every line size 1..250 for every blob tag type, a gap at every line index, images around 64/128 KiB with lines ending at "
        "and straddling the page boundary, random 1..5-section files over every mapped tag type plus unknown/unmapped types, ignored 0x34/0x48 "
        "sections, debug and release versions, with/without the marker, and a few images up to 200000 bytes; the real implementation's "
        "components are compared with the image the generator started from, the stated tags, the rejections, and the filter expression text is "
        "evaluated by an independent evaluator against the filter bytes; text grammar: every code point 0..255 at every lexical position "
        "the grammar allows, layouts of header comments around data groups, and random well-formed item lists must be read back by the "
        "real parser as exactly their items, with both line ends, with and without final line end, with and without white space before the "
        "line ends. non-trivial = everything except empty line lists / filters "
        "shorter than 4 bytes; distinct by input")


def jl(x):
    return x.hex() if isinstance(x, (bytes, bytearray)) else x


def jext(ext):
    return [[a, d.hex()] for a, d in ext]


def replay(ctx, data):
    names = hw_names()
    rc = 0
    for f in data.get("fails", []):
        d = f["data"]
        print("kind:", f["kind"])
        print("recorded:", f["detail"])
        if d.get("items") is not None:
            items = items_from_json(d["items"])
            text = d.get("text") or g_render(items, d["eol"], d["final"])
            print("BF2 text (%d chars):" % len(text))
            print(repr(text[:1500]))
            print("items:", items_json(items)[:6])
            print("implementation:", repr(impl_parse(text))[:1500])
            print("the items' tokens:", repr(g_tokens(items))[:1500])
            pr = g_roundtrip_problem(items, text) if all(g_item_ok(it) for it in items) else None
            if pr:
                print("  VIOLATED: text-roundtrip:", pr)
            rc |= bool(pr)
        elif d.get("secs") is not None:
            secs = [sec_from_json(j) for j in d["secs"]]
            header = [(n, p) for n, p in d["header"]]
            text = d.get("text")
            if text is None:
                import random
                text = render_file(random.Random(0), header, secs, eol="\r\n", style="upper", junk=False)
            print("BF2 text (%d chars), first lines:" % len(text))
            print("\n".join(text.split("\n")[:12]))
            res = impl_import_text(text, d["enforce"])
            if res[0] == "ok":
                print("implementation: ok,", [(dict((hex(k), v.hex()) for k, v in c[0].items()), len(c[1])) for c in res[1][1]])
            else:
                print("implementation:", res[1])
            exp, _ = expected_components(header, secs)
            print("generator: sections", [(hex(s.base), len(s.image), s.defect) for s in secs])
            pr = judge_file(text, header, secs, d["enforce"], names)
            for p in pr:
                print("  VIOLATED:", p)
            rc |= bool(pr)
        elif d.get("lines") and d.get("disorder"):
            lines = [(l[0], l[1], bytes.fromhex(l[2]), bytes.fromhex(l[3])) for l in d["lines"]]
            print("lines (%s):" % d["disorder"], [(hex(l[0]), l[2][:3].hex(), len(l[2]) - 3) for l in lines][:20])
            pr = judge_disorder(lines, d["base"])
            for p in pr:
                print("  VIOLATED:", p)
            rc |= bool(pr)
        elif d.get("lines"):
            lines = [(l[0], l[1], bytes.fromhex(l[2]), bytes.fromhex(l[3])) for l in d["lines"]]
            ext = [(a, bytes.fromhex(x)) for a, x in d["extents"]]
            print("lines:", [(hex(l[0]), l[2][:3].hex(), len(l[2]) - 3) for l in lines][:20])
            m = M()
            bl = mk_binlines(lines)
            print("implementation unpack:", run_impl(lambda: [(a, len(x)) for a, x in m.Bf3File.bf2_unpack_payload(bl).items()]))
            print("laid out:", [(a, len(x)) for a, x in ext])
            pr = judge_lines(lines, ext, d["contig"])
            for p in pr:
                print("  VIOLATED:", p)
            rc |= bool(pr)
        elif d.get("hole"):
            import random
            base, first_len, skip, size = d["hole"]
            r = random.Random(1)
            lines, ext, s = hole_section(r, base, first_len, skip, size)
            print("page-hole section: tag type 0x%02X, %d bytes on the first page, then tag type 0x%02X" % (
                base, first_len, base + 1 + skip))
            m = M()
            print("implementation unpack:", run_impl(lambda: [(a, len(x)) for a, x in m.Bf3File.bf2_unpack_payload(mk_binlines(lines)).items()]))
            print("laid out:", [(a, len(x)) for a, x in ext])
            hdr = [("Bf3Update", "1")]
            pr = judge_lines(lines, ext, False) + judge_file(render_file(r, hdr, [s], junk=False), hdr, [s], True, names)
            for p in pr:
                print("  VIOLATED:", p)
            rc |= bool(pr)
        elif d.get("page"):
            import random
            base, total, size, straddle = d["page"]
            r = random.Random(1)
            img = rbytes(r, total)
            lines, ext = image_lines(r, img, base, lambda: size, straddle=straddle)
            pr = judge_lines(lines, ext, True)
            s = Sec(base, img, lines, ext, group_lines(r, lines, base))
            hdr = [("Bf3Update", "1")]
            pr += judge_file(render_file(r, hdr, [s], junk=False), hdr, [s], True, names)
            print("page-crossing case", d["page"])
            for p in pr:
                print("  VIOLATED:", p)
            rc |= bool(pr)
    for b in data.get("broken", []):
        print("broken:", b["what"])
        print(b["detail"][:1500])
    return 1 if rc else 0
