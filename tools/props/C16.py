"""C16 - Bundled AES equals FIPS-197/SP 800-38A and the adapter is a pure zero-padded CBC.

Ties: the fourteen lookup tables, rcon and number_of_rounds are generated from
pyaes/aes.py (tools/gen/aes.py -> Gen/AesTables.v; the theorems about them are
re-checked on every run); the code (key schedule, rounds, modes, Counter, block
feeder, PKCS7, adapter) is modelled by hand in Model/Aes.v + Model/AesModes.v and
compared here with the running implementation inside Coq.  The search evaluates the
property itself on the implementation against an independent, definition-level
Python AES / SP 800-38A (written from the standards, no tables copied)."""
import itertools

from vlib import qN, qbytes, qlist, qopt, run_impl

GEN_DEPS = ("AesTables.v", "gen_aes_tables", "Consts.v", "gen_consts", "Pad.v", "gen_pad")
MODEL_TARGETS = ["Model/Aes.vo", "Model/AesModes.vo", "Model/Cbc.vo"]
IMPORTS = "From Bec2 Require Import Gen.AesTables Model.Cbc Model.Aes Model.AesModes."

PREAMBLE = """
Definition E := aes_E.
Definition D := aes_D.
(* both fail, or both succeed with the same bytes (the kind of exception raised by a
   mode object or a feeder on unusable input is not part of the property) *)
Definition res_sim (x y : result bytes) : bool :=
  match x, y with Ok a, Ok b => bytes_eqb a b | Err _, Err _ => true | _, _ => false end.
Definition fst_res (x : result (bytes * mstate)) : result bytes :=
  match x with Ok p => Ok (fst p) | Err e => Err e end.
Fixpoint hist_ok (m : mode) (k : bytes) (st : mstate) (ops : list (direction * bytes * result bytes)) : bool :=
  match ops with
  | [] => true
  | (d, x, r) :: t =>
    match mode_crypt E D d m k st x with
    | Ok (o, st') => res_sim (Ok o) r && hist_ok m k st' t
    | Err e => res_sim (Err e) r && hist_ok m k st t
    end
  end.
Definition mode_hist (m : mode) (k : bytes) (iv : option bytes) (ctr : N)
  (ops : list (direction * bytes * result bytes)) : bool :=
  match mode_init m k iv ctr with Ok st => hist_ok m k st ops | Err _ => false end.
Definition init_fails (m : mode) (k : bytes) (iv : option bytes) : bool :=
  match mode_init m k iv 1 with Ok _ => false | Err _ => true end.
"""

# ---------------------------------------------------------------------------
# independent AES and modes, from the definitions in FIPS-197 / SP 800-38A


def _xt(a):
    a <<= 1
    return (a ^ 0x11B) if a & 0x100 else a


def gmul(a, b):
    r = 0
    while a:
        if a & 1:
            r ^= b
        b = _xt(b)
        a >>= 1
    return r


def _ginv(a):
    r = 1
    for _ in range(254):
        r = gmul(r, a)
    return r if a else 0


def _affine(b):
    r = 0
    for i in range(8):
        bit = ((b >> i) ^ (b >> ((i + 4) % 8)) ^ (b >> ((i + 5) % 8)) ^ (b >> ((i + 6) % 8))
               ^ (b >> ((i + 7) % 8)) ^ (0x63 >> i)) & 1
        r |= bit << i
    return r


SBOX = [_affine(_ginv(x)) for x in range(256)]
ISBOX = [0] * 256
for _x, _y in enumerate(SBOX):
    ISBOX[_y] = _x


def ref_expand(key):
    nk = len(key) // 4
    nr = nk + 6
    w = [list(key[4 * i:4 * i + 4]) for i in range(nk)]
    rc = 1
    for i in range(nk, 4 * (nr + 1)):
        t = list(w[i - 1])
        if i % nk == 0:
            t = [SBOX[t[1]] ^ rc, SBOX[t[2]], SBOX[t[3]], SBOX[t[0]]]
            rc = _xt(rc)
        elif nk > 6 and i % nk == 4:
            t = [SBOX[x] for x in t]
        w.append([a ^ b for a, b in zip(w[i - nk], t)])
    return [sum(w[4 * r:4 * r + 4], []) for r in range(nr + 1)]


def _shift(s, inv=False):
    o = [0] * 16
    for c in range(4):
        for r in range(4):
            if inv:
                o[r + 4 * ((c + r) % 4)] = s[r + 4 * c]
            else:
                o[r + 4 * c] = s[r + 4 * ((c + r) % 4)]
    return o


def _mix(s, m):
    o = []
    for c in range(4):
        col = s[4 * c:4 * c + 4]
        for r in range(4):
            o.append(gmul(m[(0 - r) % 4], col[0]) ^ gmul(m[(1 - r) % 4], col[1])
                     ^ gmul(m[(2 - r) % 4], col[2]) ^ gmul(m[(3 - r) % 4], col[3]))
    return o


def ref_encrypt(key, blk):
    ks = ref_expand(key)
    s = [a ^ b for a, b in zip(blk, ks[0])]
    for r in range(1, len(ks)):
        s = _shift([SBOX[x] for x in s])
        if r != len(ks) - 1:
            s = _mix(s, [2, 3, 1, 1])
        s = [a ^ b for a, b in zip(s, ks[r])]
    return bytes(s)


def ref_decrypt(key, blk):
    ks = ref_expand(key)
    s = [a ^ b for a, b in zip(blk, ks[-1])]
    for r in range(len(ks) - 2, -1, -1):
        s = [ISBOX[x] for x in _shift(s, inv=True)]
        s = [a ^ b for a, b in zip(s, ks[r])]
        if r != 0:
            s = _mix(s, [14, 11, 13, 9])
    return bytes(s)


def xor(a, b):
    return bytes(x ^ y for x, y in zip(a, b))


def ref_mode(mode, direction, key, iv, ctr, data):
    """SP 800-38A on whole data (ECB/CBC: whole blocks; CFB: whole segments)."""
    m, seg = mode if isinstance(mode, tuple) else (mode, None)
    iv = bytes(16) if iv is None else iv
    out = b""
    if m == "ECB":
        f = ref_encrypt if direction == "enc" else ref_decrypt
        return b"".join(f(key, data[i:i + 16]) for i in range(0, len(data), 16))
    if m == "CBC":
        prev = iv
        for i in range(0, len(data), 16):
            blk = data[i:i + 16]
            if direction == "enc":
                prev = ref_encrypt(key, xor(blk, prev))
                out += prev
            else:
                out += xor(ref_decrypt(key, blk), prev)
                prev = blk
        return out
    if m == "CFB":
        reg = iv
        for i in range(0, len(data), seg):
            s = data[i:i + seg]
            o = xor(s, ref_encrypt(key, reg)[:seg])
            reg = (reg + (o if direction == "enc" else s))[-16:]
            out += o
        return out
    if m == "OFB":
        reg = iv
        for i in range(0, len(data), 16):
            reg = ref_encrypt(key, reg)
            out += xor(data[i:i + 16], reg)
        return out
    if m == "CTR":
        for j, i in enumerate(range(0, len(data), 16)):
            t = ((ctr + j) % (1 << 128)).to_bytes(16, "big")
            out += xor(data[i:i + 16], ref_encrypt(key, t))
        return out
    raise AssertionError(m)


ANY = object()      # no requirement (e.g. a ciphertext whose padding is not PKCS7)


def pkcs7(d):
    n = 16 - len(d) % 16
    return d + bytes([n]) * n


# ---------------------------------------------------------------------------
# the implementation under test

def impl():
    import register_crypto_plugin as plug
    from register_crypto_plugin.pyaes import aes, blockfeeder
    return plug, aes, blockfeeder


MODES = ["ECB", "CBC", ("CFB", 1), ("CFB", 2), ("CFB", 5), ("CFB", 8), ("CFB", 16), "OFB", "CTR"]


def mk_mode(aes, mode, key, iv, ctr):
    m, seg = mode if isinstance(mode, tuple) else (mode, None)
    if m == "ECB":
        return aes.AESModeOfOperationECB(key)
    if m == "CBC":
        return aes.AESModeOfOperationCBC(key) if iv is None else aes.AESModeOfOperationCBC(key, iv)
    if m == "CFB":
        return aes.AESModeOfOperationCFB(key, iv, segment_size=seg)
    if m == "OFB":
        return aes.AESModeOfOperationOFB(key) if iv is None else aes.AESModeOfOperationOFB(key, iv)
    if ctr is None:
        return aes.AESModeOfOperationCTR(key)
    return aes.AESModeOfOperationCTR(key, counter=aes.Counter(ctr))


def qmode(mode):
    if isinstance(mode, tuple):
        return "(CFB %s)" % qN(mode[1])
    return mode


PADS = {"default": "PadDefault", "none": "PadNone", "pkcs7": "PadOther"}


def run_feeder(aes, bf, mode, direction, padding, key, iv, ctr, chunks):
    """Encrypter/Decrypter over the chunks + feed(); ('ok', concatenation) or ('err', name)."""
    def go():
        mo = mk_mode(aes, mode, key, iv, ctr)
        f = (bf.Encrypter if direction == "enc" else bf.Decrypter)(mo, padding=padding)
        out = b""
        for c in chunks:
            out += f.feed(c)
        out += f.feed()
        return out
    return run_impl(go)


class ScriptedReader(object):
    """A file-like input stream whose read(n) returns the next scripted piece (never more than n
    bytes: a longer piece is cut and the rest kept for the next call), like a pipe or socket that
    delivers less than asked for before end-of-stream; b"" once everything has been delivered."""

    def __init__(self, pieces):
        self.pieces = [bytes(p) for p in pieces if p]

    def read(self, n=-1):
        if not self.pieces:
            return b""
        p = self.pieces.pop(0)
        if n is not None and n >= 0 and len(p) > n:
            self.pieces.insert(0, p[n:])
            p = p[:n]
        return p


BLOCK_SIZES = [1, 7, 16, 33, 64, 8192, None]      # None: the default argument (8192)


def short_pieces(r, data, block_size):
    """cut data into pieces of 1..block_size bytes: mostly short reads, some full ones"""
    bs = 8192 if block_size is None else block_size
    out, i = [], 0
    while i < len(data):
        n = bs if r.random() < 0.25 else r.randrange(1, min(bs, 40) + 1)
        out.append(data[i:i + n])
        i += n
    return out


def run_stream(aes, bf, mode, direction, padding, key, iv, ctr, pieces, block_size):
    """encrypt_stream / decrypt_stream from a short-reading input stream into a BytesIO"""
    import io

    def go():
        mo = mk_mode(aes, mode, key, iv, ctr)
        dst = io.BytesIO()
        fn = bf.encrypt_stream if direction == "enc" else bf.decrypt_stream
        if block_size is None:
            fn(mo, ScriptedReader(pieces), dst, padding=padding)
        else:
            fn(mo, ScriptedReader(pieces), dst, block_size=block_size, padding=padding)
        return dst.getvalue()
    return run_impl(go)


def stream_predicate(aes, bf, mode, direction, padding, key, iv, ctr, pieces, block_size):
    """what a stream delivers in pieces must come out as the standard result for the whole stream,
    and as what the same function returns when the stream delivers everything it is asked for"""
    import io
    data = b"".join(pieces)
    want = expected_stream(mode, direction, padding, key, iv, ctr, data)
    got = run_stream(aes, bf, mode, direction, padding, key, iv, ctr, pieces, block_size)
    whole = run_stream(aes, bf, mode, direction, padding, key, iv, ctr,
                       [data[i:i + 8192] for i in range(0, len(data), 8192)], 8192)
    if want is ANY:
        return None if sim(got, whole) else "short reads: %r, whole reads: %r" % (got, whole)
    if want is None:
        return None if got[0] == "err" else "accepted unusable input: %r" % (got,)
    if got != ("ok", want):
        return "short reads give %s, standard gives %s" % (got[1].hex() if got[0] == "ok" else got, want.hex())
    if whole != ("ok", want):
        return "whole reads give %r, standard gives %s" % (whole, want.hex())
    return None


def rbytes(r, n):
    return bytes(r.randrange(256) for _ in range(n))


def rkey(r, n=None):
    n = n or r.choice([16, 24, 32])
    return r.choice([rbytes(r, n), rbytes(r, n), bytes(n), b"\xff" * n,
                     bytes(r.choice([0x80, 0xff, 0x7f, 0x00]) if i % 4 == 0 else r.randrange(256) for i in range(n))])


def riv(r, mode=None):
    """iv None only where the constructor has a default for it (CBC, OFB; the adapter);
    CFB takes a mandatory iv (CFB(key, None) is unusable under Python 3, see Model/AesModes.v)"""
    if mode == "ECB":
        return None
    some = [rbytes(r, 16), rbytes(r, 16), bytes(16), b"\xff" * 16]
    return r.choice(some if isinstance(mode, tuple) else some + [None])


CTRS = [1, 0, 255, 256, (1 << 64) - 1, (1 << 120) - 1, (1 << 128) - 1, (1 << 128) - 2, (1 << 128) - 3,
        (1 << 128) - 256, (1 << 128), (1 << 128) + 5, (1 << 127), 0xf0f1f2f3f4f5f6f7f8f9fafbfcfdfeff]


def rctr(r):
    return r.choice(CTRS + [r.getrandbits(128), None])


def splits(n, kmax):
    """every way of cutting range(n) into 1..kmax non-empty consecutive chunks (as cut positions)"""
    for k in range(1, min(kmax, max(n, 1)) + 1):
        for cuts in itertools.combinations(range(1, n), k - 1):
            yield (0,) + cuts + (n,)


def cut(data, pos):
    return [data[a:b] for a, b in zip(pos, pos[1:])]


def rsplit(r, data, kmax=4, allow_empty=True):
    n = len(data)
    k = r.randrange(1, kmax + 1)
    pts = sorted(r.randrange(0, n + 1) for _ in range(k - 1))
    if not allow_empty:
        pts = sorted(set(p for p in pts if 0 < p < n))
    return cut(data, [0] + pts + [n])


ERRS = {"EBf3", "EBec2", "EValue", "EUnicode", "EIndex", "EKey", "EType", "EOverflow", "EAssert", "EBare", "ENotImpl"}


def qr(res):
    """a result as a Coq term; an exception class outside the model's enum becomes EFuel,
    which no model function returns on these inputs"""
    if res[0] == "ok":
        return "(Ok %s)" % qbytes(res[1])
    return "(Err %s)" % (res[1] if res[1] in ERRS else "EFuel")


def qdir(d):
    return "Enc" if d == "enc" else "Dec"


def sim(a, b):
    return (a[0] == "err" and b[0] == "err") or a == b


# ---------------------------------------------------------------------------

def correspondence(ctx):
    plug, aes, bf = impl()
    from bec2format.crypto import create_AES128
    r = ctx.rng
    exprs, descr = [], []

    def add(e, d):
        exprs.append(e)
        descr.append(d)

    # 1. raw block cipher, three key sizes (+ wrong key / block sizes)
    for n in (16, 24, 32):
        for _ in range(ctx.budget(14, 300)):
            k = rkey(r, n)
            b = r.choice([rbytes(r, 16), rbytes(r, 16), bytes(16), b"\xff" * 16])
            a = aes.AES(k)
            c = bytes(a.encrypt(b))
            p = bytes(a.decrypt(b))
            add("res_eqb bytes_eqb (aes_encrypt_block %s %s) (Ok %s) && res_eqb bytes_eqb (aes_decrypt_block %s %s) (Ok %s)"
                " && bytes_eqb (aes_E %s %s) %s && bytes_eqb (aes_D %s %s) %s"
                % (qbytes(k), qbytes(b), qbytes(c), qbytes(k), qbytes(b), qbytes(p),
                   qbytes(k), qbytes(b), qbytes(c), qbytes(k), qbytes(b), qbytes(p)), ("block", k, b))
            ctx.case(("block", k, b))
            ctx.dist["block:%d" % n] += 1
    ctx.sample({"op": "AES.encrypt", "key": bytes(range(16)), "block": bytes(16),
                "impl": bytes(aes.AES(bytes(range(16))).encrypt(bytes(16)))})
    for n in (0, 1, 15, 17, 23, 25, 31, 33, 48):
        k = rbytes(r, n)
        w = run_impl(aes.AES, k)
        add("res_sim (aes_encrypt_block %s %s) %s" % (qbytes(k), qbytes(bytes(16)),
                                                     "(Ok [])" if w[0] == "ok" else "(Err EValue)"), ("badkey", k))
        ctx.case(("badkey", n))
    for n in (0, 1, 15, 17, 32):
        b = rbytes(r, n)
        k = rkey(r)
        w = run_impl(lambda: bytes(aes.AES(k).encrypt(b)))
        w2 = run_impl(lambda: bytes(aes.AES(k).decrypt(b)))
        add("res_sim (aes_encrypt_block %s %s) %s && res_sim (aes_decrypt_block %s %s) %s" % (
            qbytes(k), qbytes(b), qr(w), qbytes(k), qbytes(b), qr(w2)), ("badblock", k, b))
        ctx.case(("badblock", n))

    # 2. mode objects: call histories on 1..3 objects, interleaved
    for _ in range(ctx.budget(60, 1500)):
        nobj = r.choice([1, 1, 2, 3])
        shared_key = rkey(r)
        objs = []
        for _o in range(nobj):
            mode = r.choice(MODES)
            k = shared_key if r.random() < 0.5 else rkey(r)
            iv, ctr = riv(r, mode), rctr(r)
            objs.append([mode, k, iv, ctr, mk_mode(aes, mode, k, iv, ctr), []])
        for _c in range(r.randrange(1, 9)):
            o = r.choice(objs)
            mode = o[0]
            m, seg = mode if isinstance(mode, tuple) else (mode, None)
            d = r.choice(["enc", "dec"])
            if m in ("ECB", "CBC"):
                n = r.choice([16] * 8 + [0, 15, 17, 32])
            elif m == "CFB":
                n = seg * r.randrange(0, 40 // seg + 1) if r.random() < 0.9 else r.randrange(0, 40)
            else:
                n = r.choice([0, 1, 15, 16, 17, 31, 32, 33, r.randrange(0, 41)])
            x = rbytes(r, n)
            res = run_impl(getattr(o[4], "encrypt" if d == "enc" else "decrypt"), x)
            o[5].append((d, x, res))
            ctx.dist["mode:%s" % m] += 1
            ctx.dist["mode-call->" + ("ok" if res[0] == "ok" else res[1])] += 1
        for mode, k, iv, ctr, _obj, ops in objs:
            if not ops:
                continue
            add("mode_hist %s %s %s %s %s" % (
                qmode(mode), qbytes(k), qopt(iv, qbytes), qN(1 if ctr is None else ctr),
                qlist(["(%s, %s, %s)" % (qdir(d), qbytes(x), qr(res)) for d, x, res in ops])),
                ("mode-history", mode, k, iv, ctr, ops))
            ctx.case(("mode-history", mode, k, iv, ctr, tuple((d, x) for d, x, _ in ops)))
    # constructor checks
    for mode in MODES:
        for k, iv in ((rbytes(r, 15), None), (rbytes(r, 16), rbytes(r, 15)), (rbytes(r, 16), rbytes(r, 17)),
                      (rbytes(r, 16), b""), (b"", None), (rbytes(r, 33), rbytes(r, 16))):
            if mode == "ECB" and iv is not None:
                continue
            if mode == "CTR":
                iv = None
            if isinstance(mode, tuple) and iv is None:
                iv = rbytes(r, 16)
            w = run_impl(mk_mode, aes, mode, k, iv, 1)
            add("Bool.eqb (init_fails %s %s %s) %s" % (qmode(mode), qbytes(k), qopt(iv, qbytes),
                                                        "true" if w[0] == "err" else "false"),
                ("mode-init", mode, k, iv))
            ctx.case(("mode-init", mode, len(k), None if iv is None else len(iv)))

    # 3. Encrypter / Decrypter: data lengths 1..40 (and 0, 41..80), splits into <= 4 chunks
    nfeed = ctx.budget(420, 12000)
    for i in range(nfeed):
        mode = MODES[i % len(MODES)]
        m, seg = mode if isinstance(mode, tuple) else (mode, None)
        d = r.choice(["enc", "dec"])
        padding = r.choice(["default"] * 5 + ["none"] * 4 + ["pkcs7"])
        k, iv, ctr = rkey(r), riv(r, mode), rctr(r)
        n = r.choice([r.randrange(1, 41)] * 6 + [0, 16, 32, 48, r.randrange(41, 81)])
        if m in ("ECB", "CBC") and padding == "none" and r.random() < 0.8:
            n = 16 * r.randrange(0, 4)
        data = rbytes(r, n)
        if d == "dec" and r.random() < 0.75:
            # a ciphertext that really decrypts (valid padding) ...
            w = run_feeder(aes, bf, mode, "enc", padding, k, iv, ctr, [data])
            if w[0] == "ok":
                data = w[1]
                if r.random() < 0.15 and data:      # ... or with a damaged last byte / block
                    data = data[:-1] + bytes([data[-1] ^ r.choice([1, 0x10, 0xff])])
        chunks = rsplit(r, data)
        res = run_feeder(aes, bf, mode, d, padding, k, iv, ctr, chunks)
        add("res_sim (stream_crypt E D %s %s %s %s %s %s %s) %s" % (
            qmode(mode), qdir(d), PADS[padding], qbytes(k), qopt(iv, qbytes), qN(1 if ctr is None else ctr),
            qlist([qbytes(c) for c in chunks], "bytes"), qr(res)),
            ("feeder", mode, d, padding, k, iv, ctr, chunks))
        ctx.case(("feeder", mode, d, padding, k, iv, ctr, tuple(chunks)), trivial=(n == 0))
        ctx.dist["feeder:%s/%s/%s" % (m, d, padding)] += 1
        ctx.dist["feeder->" + ("ok" if res[0] == "ok" else res[1])] += 1
        ctx.dist["feeder-chunks:%d" % len(chunks)] += 1
    ctx.sample({"op": "Encrypter(CBC).feed x3 + feed()", "chunks": [b"ab", b"", b"c" * 20]})

    # 3b. encrypt_stream / decrypt_stream from input streams that short-read (pieces of 1..block_size bytes)
    for i in range(ctx.budget(150, 4000)):
        mode = MODES[i % len(MODES)]
        m, seg = mode if isinstance(mode, tuple) else (mode, None)
        d = r.choice(["enc", "dec"])
        padding = r.choice(["default"] * 5 + ["none"] * 4 + ["pkcs7"])
        k, iv, ctr = rkey(r), riv(r, mode), rctr(r)
        bs = r.choice(BLOCK_SIZES)
        n = r.choice([r.randrange(1, 81)] * 6 + [0, 16, 32, 48, r.randrange(81, 200)])
        if m in ("ECB", "CBC") and padding == "none" and r.random() < 0.8:
            n = 16 * r.randrange(0, 6)
        data = rbytes(r, n)
        if d == "dec" and r.random() < 0.8:
            w = run_feeder(aes, bf, mode, "enc", padding, k, iv, ctr, [data])
            if w[0] == "ok":
                data = w[1]
        pieces = short_pieces(r, data, bs)
        res = run_stream(aes, bf, mode, d, padding, k, iv, ctr, pieces, bs)
        add("res_sim (crypt_stream E D %s %s %s %s %s %s %s) %s" % (
            qmode(mode), qdir(d), PADS[padding], qbytes(k), qopt(iv, qbytes), qN(1 if ctr is None else ctr),
            qlist([qbytes(c) for c in pieces], "bytes"), qr(res)),
            ("stream", mode, d, padding, k, iv, ctr, pieces, bs))
        ctx.case(("stream", mode, d, padding, k, iv, ctr, tuple(pieces), bs), trivial=(n == 0))
        ctx.dist["stream:%s/%s/%s" % (m, d, padding)] += 1
        ctx.dist["stream-block_size:%s" % bs] += 1
        ctx.dist["stream->" + ("ok" if res[0] == "ok" else res[1])] += 1
    ctx.sample({"op": "encrypt_stream(CBC, reader delivering 3+1+20 bytes, block_size=64)"})

    # 4. adapter: encrypt / decrypt / mac, both models (what the proxy does; zero-padded CBC of Model/Cbc.v)
    def adapter_case(k, iv, op, x):
        def go():
            a = create_AES128(k, iv) if r.random() < 0.5 else plug.AES128Proxy(k, iv)
            return getattr(a, op)(x)
        res = run_impl(go)
        fn = {"encrypt": "proxy_encrypt E D", "decrypt": "proxy_decrypt E D", "mac": "proxy_mac E D"}[op]
        fn2 = {"encrypt": "adapter_encrypt E", "decrypt": "adapter_decrypt D", "mac": "adapter_mac E"}[op]
        add("res_eqb bytes_eqb (%s %s %s %s) %s && res_eqb bytes_eqb (%s %s %s %s) %s" % (
            fn, qbytes(k), qopt(iv, qbytes), qbytes(x), qr(res),
            fn2, qbytes(k), qopt(iv, qbytes), qbytes(x), qr(res)), ("adapter", op, k, iv, x))
        ctx.case(("adapter", op, k, iv, x), trivial=(len(x) == 0))
        ctx.dist["adapter:%s->%s" % (op, "ok" if res[0] == "ok" else res[1])] += 1
        return res
    for n in list(range(0, 50)) + [63, 64, 65, 80, 100]:
        k = rkey(r, 16)
        iv = riv(r)
        x = r.choice([rbytes(r, n), rbytes(r, n), rbytes(r, max(n - 3, 0)) + bytes(min(n, 3))])
        res = adapter_case(k, iv, "encrypt", x)
        adapter_case(k, iv, "mac", x)
        adapter_case(k, iv, "decrypt", x)
        if res[0] == "ok":
            adapter_case(k, iv, "decrypt", res[1])
    for kn, ivn in ((0, None), (15, None), (17, None), (24, None), (32, 16), (16, 0), (16, 15), (16, 17), (33, 16), (15, 15)):
        k = rbytes(r, kn)
        iv = None if ivn is None else rbytes(r, ivn)
        for op in ("encrypt", "decrypt", "mac"):
            for x in (b"", rbytes(r, 5), rbytes(r, 16), rbytes(r, 32)):
                adapter_case(k, iv, op, x)

    # 5. call histories on 1..3 adapter objects: every result equals the pure function
    for _ in range(ctx.budget(40, 1200)):
        objs = []
        k0 = rkey(r, 16)
        for _o in range(r.choice([1, 2, 3])):
            k = k0 if r.random() < 0.6 else rkey(r, 16)
            iv = riv(r)
            objs.append((k, iv, create_AES128(k, iv)))
        parts = []
        last_ct = None
        for _c in range(r.randrange(2, 9)):
            k, iv, a = r.choice(objs)
            op = r.choice(["encrypt", "encrypt", "decrypt", "mac"])
            if op == "decrypt":
                x = last_ct if (last_ct is not None and r.random() < 0.6) else rbytes(r, 16 * r.randrange(0, 4))
            else:
                x = rbytes(r, r.choice([0, 1, 15, 16, 17, 31, 32, 33, r.randrange(0, 50)]))
            res = run_impl(getattr(a, op), x)
            if op == "encrypt" and res[0] == "ok":
                last_ct = res[1]
            fn = {"encrypt": "proxy_encrypt E D", "decrypt": "proxy_decrypt E D", "mac": "proxy_mac E D"}[op]
            parts.append("res_eqb bytes_eqb (%s %s %s %s) %s" % (fn, qbytes(k), qopt(iv, qbytes), qbytes(x),
                                                                qr(res)))
            ctx.dist["history-op:" + op] += 1
        add(" && ".join(parts), ("adapter-history", [(k, iv) for k, iv, _ in objs]))
        ctx.case(("adapter-history", tuple(parts)))

    # 6. crypto.pad
    from bec2format.crypto import pad
    for n in list(range(0, 34)) + [47, 48, 49]:
        x = rbytes(r, n)
        add("bytes_eqb (crypto_pad %s) %s && bytes_eqb (zero_pad %s) %s" % (
            qbytes(x), qbytes(pad(x)), qbytes(x), qbytes(pad(x))), ("pad", x))
        ctx.case(("pad", n), trivial=(n == 0))

    bad = ctx.coq_eval("c16", IMPORTS, exprs, preamble=PREAMBLE, shard=60)
    if bad is None:
        return
    ctx.traces += len(exprs)
    for i in bad[:12]:
        d = descr[i]
        viol = classify(d)
        if viol:
            ctx.fail(viol[0], viol[1], viol[2])
        else:
            ctx.broken("correspondence: the model of pyaes/the adapter differs from the implementation on %s" % d[0],
                       {"case": repr(d)[:1500]})


def classify(d):
    """does the implementation's behaviour on a disagreeing case also violate the property?"""
    plug, aes, bf = impl()
    try:
        if d[0] == "block":
            _, k, b = d
            a = aes.AES(k)
            if bytes(a.encrypt(b)) != ref_encrypt(k, b) or bytes(a.decrypt(b)) != ref_decrypt(k, b):
                return ("block-differs-from-fips197", {"key": k, "block": b}, "")
        if d[0] == "feeder":
            _, mode, dr, padding, k, iv, ctr, chunks = d
            why = feeder_predicate(aes, bf, mode, dr, padding, k, iv, ctr, chunks)
            if why:
                return ("feeder-differs-from-sp800-38a", {"mode": repr(mode), "dir": dr, "padding": padding, "key": k,
                                                          "iv": iv, "ctr": ctr, "chunks": chunks}, why)
        if d[0] == "stream":
            _, mode, dr, padding, k, iv, ctr, pieces, bs = d
            why = stream_predicate(aes, bf, mode, dr, padding, k, iv, ctr, pieces, bs)
            if why:
                return ("stream-differs-from-sp800-38a", {"mode": repr(mode), "dir": dr, "padding": padding, "key": k,
                                                          "iv": iv, "ctr": ctr, "pieces": pieces, "block_size": bs}, why)
        if d[0] == "adapter":
            _, op, k, iv, x = d
            why = adapter_predicate(plug, k, iv, x)
            if why:
                return ("adapter-not-zero-padded-cbc", {"key": k, "iv": iv, "data": x}, why)
    except Exception as e:      # noqa
        return None
    return None


# ---------------------------------------------------------------------------
# the property predicate on the implementation

def expected_stream(mode, direction, padding, key, iv, ctr, data):
    """What SP 800-38A (+ PKCS7 / the feeder's documented padding options) gives for the whole
    input, or None when the input is not acceptable (wrong length / padding; then only
    'raises something' is required)."""
    m, seg = mode if isinstance(mode, tuple) else (mode, None)
    c = 1 if ctr is None else ctr
    if padding not in ("default", "none"):
        return None
    if m in ("ECB", "CBC"):
        if direction == "enc":
            if padding == "default":
                return ref_mode(mode, "enc", key, iv, c, pkcs7(data))
            return ref_mode(mode, "enc", key, iv, c, data) if (len(data) % 16 == 0 and data) else None
        if len(data) % 16 or not data:
            return None
        p = ref_mode(mode, "dec", key, iv, c, data)
        if padding == "none":
            return p
        return p[:len(p) - p[-1]] if 1 <= p[-1] <= 16 else ANY
    if m == "CFB":
        if padding != "default":
            return None
        padded = data + bytes(-len(data) % seg)
        return ref_mode(mode, direction, key, iv, c, padded)[:len(data)]
    return ref_mode(mode, direction, key, iv, c, data)


def feeder_predicate(aes, bf, mode, direction, padding, key, iv, ctr, chunks):
    data = b"".join(chunks)
    want = expected_stream(mode, direction, padding, key, iv, ctr, data)
    got = run_feeder(aes, bf, mode, direction, padding, key, iv, ctr, chunks)
    if want is ANY:
        return None
    if want is None:
        return None if got[0] == "err" else "accepted unusable input: %r" % (got,)
    if got != ("ok", want):
        return "got %s, standard gives %s" % (got[1].hex() if got[0] == "ok" else got, want.hex())
    return None


def adapter_predicate(plug, key, iv, x):
    """encrypt = CBC(zero-padded x) with the given/zero IV, mac = last block,
    decrypt(encrypt(x)) = zero-padded x; all on fresh objects."""
    if len(key) not in (16, 24, 32) or (iv is not None and len(iv) != 16):
        return None
    padded = x + bytes(-len(x) % 16)
    want = ref_mode("CBC", "enc", key, iv, 0, padded)
    c = run_impl(plug.AES128Proxy(key, iv).encrypt, x)
    if c != ("ok", want):
        return "encrypt: got %r, zero-padded CBC gives %s" % (c, want.hex())
    mres = run_impl(plug.AES128Proxy(key, iv).mac, x)
    if mres != ("ok", want[-16:]):
        return "mac: got %r, last ciphertext block is %s" % (mres, want[-16:].hex())
    p = run_impl(plug.AES128Proxy(key, iv).decrypt, want)
    if p != ("ok", padded):
        return "decrypt(encrypt(x)): got %r, zero-padded data is %s" % (p, padded.hex())
    return None


P_F = bytes.fromhex("6bc1bee22e409f96e93d7e117393172aae2d8a571e03ac9c9eb76fac45af8e51"
                    "30c81c46a35ce411e5fbc1191a0a52eff69f2445df4f9b17ad2b417be66c3710")
K_F = {128: bytes.fromhex("2b7e151628aed2a6abf7158809cf4f3c"),
       192: bytes.fromhex("8e73b0f7da0e6452c810f32b809079e562f8ead2522c6b7b"),
       256: bytes.fromhex("603deb1015ca71be2b73aef0857d77811f352c073b6108d72d9810a30914dff4")}
IV_F = bytes(range(16))
CTR_F = 0xf0f1f2f3f4f5f6f7f8f9fafbfcfdfeff
# (mode, key bits) -> ciphertext of P_F (CFB8: of the first 18 bytes); NIST SP 800-38A appendix F
SP_F = {
    ("ECB", 128): "3ad77bb40d7a3660a89ecaf32466ef97f5d3d58503b9699de785895a96fdbaaf43b1cd7f598ece23881b00e3ed0306887b0c785e27e8ad3f8223207104725dd4",
    ("ECB", 192): "bd334f1d6e45f25ff712a214571fa5cc974104846d0ad3ad7734ecb3ecee4eefef7afd2270e2e60adce0ba2face6444e9a4b41ba738d6c72fb16691603c18e0e",
    ("ECB", 256): "f3eed1bdb5d2a03c064b5a7e3db181f8591ccb10d410ed26dc5ba74a31362870b6ed21b99ca6f4f9f153e7b1beafed1d23304b7a39f9f3ff067d8d8f9e24ecc7",
    ("CBC", 128): "7649abac8119b246cee98e9b12e9197d5086cb9b507219ee95db113a917678b273bed6b8e3c1743b7116e69e222295163ff1caa1681fac09120eca307586e1a7",
    ("CBC", 192): "4f021db243bc633d7178183a9fa071e8b4d9ada9ad7dedf4e5e738763f69145a571b242012fb7ae07fa9baac3df102e008b0e27988598881d920a9e64f5615cd",
    ("CBC", 256): "f58c4c04d6e5f1ba779eabfb5f7bfbd69cfc4e967edb808d679f777bc6702c7d39f23369a9d9bacfa530e26304231461b2eb05e2c39be9fcda6c19078c6a9d1b",
    (("CFB", 16), 128): "3b3fd92eb72dad20333449f8e83cfb4ac8a64537a0b3a93fcde3cdad9f1ce58b26751f67a3cbb140b1808cf187a4f4dfc04b05357c5d1c0eeac4c66f9ff7f2e6",
    (("CFB", 16), 192): "cdc80d6fddf18cab34c25909c99a417467ce7f7f81173621961a2b70171d3d7a2e1e8a1dd59b88b1c8e60fed1efac4c9c05f9f9ca9834fa042ae8fba584b09ff",
    (("CFB", 16), 256): "dc7e84bfda79164b7ecd8486985d386039ffed143b28b1c832113c6331e5407bdf10132415e54b92a13ed0a8267ae2f975a385741ab9cef82031623d55b1e471",
    (("CFB", 1), 128): "3b79424c9c0dd436bace9e0ed4586a4f32b9",
    (("CFB", 1), 192): "cda2521ef0a905ca44cd057cbf0d47a0678a",
    (("CFB", 1), 256): "dc1f1a8520a64db55fcc8ac554844e889700",
    ("OFB", 128): "3b3fd92eb72dad20333449f8e83cfb4a7789508d16918f03f53c52dac54ed8259740051e9c5fecf64344f7a82260edcc304c6528f659c77866a510d9c1d6ae5e",
    ("OFB", 192): "cdc80d6fddf18cab34c25909c99a4174fcc28b8d4c63837c09e81700c11004018d9a9aeac0f6596f559c6d4daf59a5f26d9f200857ca6c3e9cac524bd9acc92a",
    ("OFB", 256): "dc7e84bfda79164b7ecd8486985d38604febdc6740d20b3ac88f6ad82a4fb08d71ab47a086e86eedf39d1c5bba97c4080126141d67f37be8538f5a8be740e484",
    ("CTR", 128): "874d6191b620e3261bef6864990db6ce9806f66b7970fdff8617187bb9fffdff5ae4df3edbd5d35e5b4f09020db03eab1e031dda2fbe03d1792170a0f3009cee",
    ("CTR", 192): "1abc932417521ca24f2b0459fe7e6e0b090339ec0aa6faefd5ccc2c6f4ce8e941e36b26bd1ebc670d1bd1d665620abf74f78a7f6d29809585a97daec58c6b050",
    ("CTR", 256): "601ec313775789a5b7a7f504bbf3d228f443e3ca4d62b59aca84e990cacaf5c52b0930daa23de94ce87017ba2d84988ddfc9c58db67aada613c2dd08457941a6",
}
FIPS_C = [("000102030405060708090a0b0c0d0e0f", "69c4e0d86a7b0430d8cdb78070b4c55a"),
          ("000102030405060708090a0b0c0d0e0f1011121314151617", "dda97ca4864cdfe06eaf70a0ec0d7191"),
          ("000102030405060708090a0b0c0d0e0f101112131415161718191a1b1c1d1e1f", "8ea2b7ca516745bfeafc49904b496089"),
          ("2b7e151628aed2a6abf7158809cf4f3c", "3925841d02dc09fbdc118597196a0b32")]


def table_defs():
    """(name, index) -> value, from the GF(2^8) definitions"""
    def pack(a, b, c, d):
        return (a << 24) | (b << 16) | (c << 8) | d
    out = {}
    for x in range(256):
        s, si = SBOX[x], ISBOX[x]
        out["S", x] = s
        out["Si", x] = si
        e = (gmul(2, s), s, s, gmul(3, s))
        dd = (gmul(14, si), gmul(9, si), gmul(13, si), gmul(11, si))
        u = (gmul(14, x), gmul(9, x), gmul(13, x), gmul(11, x))
        for j in range(4):
            rot = lambda t: t[-j:] + t[:-j] if j else t      # noqa
            out["T%d" % (j + 1), x] = pack(*rot(e))
            out["T%d" % (j + 5), x] = pack(*rot(dd))
            out["U%d" % (j + 1), x] = pack(*rot(u))
    return out


def search(ctx):
    plug, aes, bf = impl()
    from bec2format.crypto import create_AES128
    r = ctx.rng
    hard = bool(ctx.brokens)

    def esc():
        """enlarged budget: a proof or the correspondence broke and no failing input is known yet"""
        return hard and not ctx.fails

    # a. the 14 tables of the running module, entry by entry, + rcon + number_of_rounds
    defs = table_defs()
    for (name, x), v in defs.items():
        ctx.evaluations += 1
        got = getattr(aes.AES, name)[x]
        if got != v:
            ctx.fail("table-entry", {"table": name, "index": x, "impl": got, "definition": v},
                     "AES.%s[%d] = %#x, definition gives %#x" % (name, x, got, v))
            if len(ctx.fails) > 8:
                break
    rc = 1
    for i in range(10):
        if aes.AES.rcon[i] != rc:
            ctx.fail("table-entry", {"table": "rcon", "index": i, "impl": aes.AES.rcon[i], "definition": rc}, "")
        rc = _xt(rc)
    if aes.AES.number_of_rounds != {16: 10, 24: 12, 32: 14}:
        ctx.fail("table-entry", {"table": "number_of_rounds", "index": 0,
                                 "impl": repr(aes.AES.number_of_rounds), "definition": "{16:10,24:12,32:14}"}, "")
    ctx.nontrivial.update(("table", n) for n in "S Si T1 T2 T3 T4 T5 T6 T7 T8 U1 U2 U3 U4 rcon".split())

    # b. NIST vectors on the implementation
    pt = bytes.fromhex("00112233445566778899aabbccddeeff")
    for kh, ch in FIPS_C:
        k, c = bytes.fromhex(kh), bytes.fromhex(ch)
        p = bytes.fromhex("3243f6a8885a308d313198a2e0370734") if kh.startswith("2b7e") else pt
        a = aes.AES(k)
        ctx.case(("fips-c", k))
        if bytes(a.encrypt(p)) != c or bytes(a.decrypt(c)) != p:
            ctx.fail("block-differs-from-fips197", {"key": k, "block": p}, "FIPS-197 appendix B/C vector")
    for (mode, bits), ch in SP_F.items():
        c = bytes.fromhex(ch)
        p = P_F[:len(c)]
        k = K_F[bits]
        ctr = CTR_F
        for d, x, want in (("enc", p, c), ("dec", c, p)):
            ctx.case(("sp-f", repr(mode), bits, d))
            for chunks in ([x], [x[:7], x[7:23], x[23:]], [x[:16], x[16:32], x[32:]]):
                chunks = [ch_ for ch_ in chunks]
                padding = "none" if mode in ("ECB", "CBC", "OFB", "CTR") else "default"
                got = run_feeder(aes, bf, mode, d, padding, k, IV_F if mode != "ECB" else None, ctr, chunks)
                if got != ("ok", want):
                    ctx.fail("feeder-differs-from-sp800-38a",
                             {"mode": repr(mode), "dir": d, "padding": padding, "key": k,
                              "iv": IV_F if mode != "ECB" else None, "ctr": ctr, "chunks": chunks},
                             "SP 800-38A appendix F vector: got %r" % (got,))

    # c. raw block cipher against the definition-level AES, inverse
    for _ in range(ctx.budget(150, 6000) * (4 if esc() else 1)):
        k = rkey(r)
        b = rbytes(r, 16)
        a = aes.AES(k)
        ctx.case(("search-block", k, b))
        c = bytes(a.encrypt(b))
        if c != ref_encrypt(k, b) or bytes(a.decrypt(b)) != ref_decrypt(k, b):
            ctx.fail("block-differs-from-fips197", {"key": k, "block": b}, "")
        elif bytes(a.decrypt(c)) != b:
            ctx.fail("block-decrypt-not-inverse", {"key": k, "block": b}, "")
    # every byte value in every position of key and block (single-byte perturbations of random bases)
    for n in (16, 24, 32):
        base_k, base_b = rbytes(r, n), rbytes(r, 16)
        vals = range(256) if (esc() or not ctx.quick()) else sorted(set([0, 1, 0x7f, 0x80, 0xff] + [r.randrange(256) for _ in range(6)]))
        for pos in range(16):
            for v in vals:
                b = base_b[:pos] + bytes([v]) + base_b[pos + 1:]
                ctx.evaluations += 1
                if bytes(aes.AES(base_k).encrypt(b)) != ref_encrypt(base_k, b):
                    ctx.fail("block-differs-from-fips197", {"key": base_k, "block": b}, "")
        for pos in range(n):
            for v in vals:
                k = base_k[:pos] + bytes([v]) + base_k[pos + 1:]
                ctx.evaluations += 1
                c = ref_encrypt(k, base_b)
                if bytes(aes.AES(k).encrypt(base_b)) != c or bytes(aes.AES(k).decrypt(c)) != base_b:
                    ctx.fail("block-differs-from-fips197", {"key": k, "block": base_b}, "")
            if len(ctx.fails) > 8:
                break

    # d. the adapter: zero-padded CBC, mac, inverse; every length 0..64, given / zero / no IV
    for n in range(0, 65 if ctx.quick() and not esc() else 200):
        for iv in (None, bytes(16), rbytes(r, 16)):
            k = rkey(r, 16)
            tails = [rbytes(r, n)]
            if n:
                tails.append(rbytes(r, n - 1) + b"\0")          # data ending in zero bytes
                tails.append(rbytes(r, max(n - 17, 0)) + bytes(min(n, 17)))
            for x in tails:
                ctx.case(("search-adapter", k, iv, x), trivial=(n == 0))
                if n == 0:
                    a = plug.AES128Proxy(k, iv)
                    if (a.encrypt(b""), a.decrypt(b""), a.mac(b"")) != (b"", b"", b""):
                        ctx.fail("adapter-not-zero-padded-cbc", {"key": k, "iv": iv, "data": x}, "empty data")
                    continue
                why = adapter_predicate(plug, k, iv, x)
                if why:
                    ctx.fail("adapter-not-zero-padded-cbc", {"key": k, "iv": iv, "data": x}, why)
        if len(ctx.fails) > 8:
            break
    # e. history independence: the same call on a used object, on a fresh one, and after calls on other objects
    for _ in range(ctx.budget(120, 4000) * (4 if esc() else 1)):
        k = rkey(r, 16)
        iv = riv(r)
        used = create_AES128(k, iv)
        other = create_AES128(k if r.random() < 0.5 else rkey(r, 16), riv(r))
        hist = []
        for _c in range(r.randrange(1, 7)):
            a = r.choice([used, used, other])
            op = r.choice(["encrypt", "decrypt", "mac"])
            x = rbytes(r, 16 * r.randrange(0, 4)) if op == "decrypt" else rbytes(r, r.randrange(0, 50))
            run_impl(getattr(a, op), x)
            hist.append((("used" if a is used else "other"), op, x))
        x = rbytes(r, r.randrange(1, 50))
        xc = rbytes(r, 16 * r.randrange(1, 4))
        ctx.case(("search-history", k, iv, tuple(hist), x))
        fresh = create_AES128(k, iv)
        for op, arg in (("encrypt", x), ("mac", x), ("decrypt", xc)):
            a1 = run_impl(getattr(used, op), arg)
            a2 = run_impl(getattr(fresh, op), arg)
            a3 = run_impl(getattr(create_AES128(k, iv), op), arg)
            if not (a1 == a2 == a3):
                ctx.fail("adapter-history-dependent", {"key": k, "iv": iv, "history": hist, "op": op, "data": arg},
                         "used object: %r, fresh object: %r" % (a1, a2))
        why = adapter_predicate(plug, k, iv, x)
        if why:
            ctx.fail("adapter-not-zero-padded-cbc", {"key": k, "iv": iv, "data": x}, why)
    # e1. the lookup table of modes by name: AESModesOfOperation[name] is the mode of that name (judged by behaviour)
    table = getattr(aes, "AESModesOfOperation", None)
    if not isinstance(table, dict) or sorted(table) != ["cbc", "cfb", "ctr", "ecb", "ofb"]:
        ctx.fail("mode-table", {"names": sorted(table) if isinstance(table, dict) else None}, "AESModesOfOperation does not list exactly ecb, cbc, cfb, ofb, ctr")
    else:
        for name in sorted(table):
            k, iv = rkey(r), rbytes(r, 16)
            data = rbytes(r, 16 if name in ("ecb", "cbc") else 48)
            mode = {"ecb": "ECB", "cbc": "CBC", "cfb": ("CFB", 1), "ofb": "OFB", "ctr": "CTR"}[name]
            ctx.case(("mode-table", name, k, iv, data))

            def via_table():
                cls = table[name]
                mo = cls(k) if name in ("ecb", "ctr") else cls(k, iv)
                return bytes(mo.encrypt(data)) if name != "cfb" else bytes(mo.encrypt(data))
            got = run_impl(via_table)
            want = run_impl(lambda: bytes(mk_mode(aes, mode, k, None if name in ("ecb", "ctr") else iv, None).encrypt(data)))
            if got != want or got[0] != "ok":
                ctx.fail("mode-table", {"name": name, "key": k, "iv": iv, "data": data},
                         "AESModesOfOperation[%r] encrypts to %r, the mode of that name to %r" % (name, got, want))
    # e2. encrypt_stream / decrypt_stream: input streams whose read() returns fewer bytes than asked for,
    #     every mode / direction / padding, block_size 1, 7, 16, 33, 64, 8192 and the default
    scombos = []
    for mode in MODES:
        m = mode[0] if isinstance(mode, tuple) else mode
        for d in ("enc", "dec"):
            for padding in (["default", "none"] if m != "CFB" else ["default"]):
                scombos.append((mode, d, padding))
    for (mode, d, padding) in scombos:
        m = mode[0] if isinstance(mode, tuple) else mode
        for bs in BLOCK_SIZES:
            for _ in range(ctx.budget(2, 20) * (3 if esc() else 1)):
                k, iv, ctr = rkey(r), riv(r, mode), rctr(r)
                n = r.randrange(1, 4 * min(bs or 8192, 60) + 20)
                if m in ("ECB", "CBC") and padding == "none":
                    n = 16 * (n // 16 + 1)
                data = rbytes(r, n)
                if d == "dec":
                    w = run_feeder(aes, bf, mode, "enc", padding, k, iv, ctr, [data])
                    data = w[1] if w[0] == "ok" else data
                pieces = short_pieces(r, data, bs)
                ctx.case(("search-stream", repr(mode), d, padding, bs, k, tuple(pieces)))
                why = stream_predicate(aes, bf, mode, d, padding, k, iv, ctr, pieces, bs)
                if why:
                    ctx.fail("stream-differs-from-sp800-38a",
                             {"mode": repr(mode), "dir": d, "padding": padding, "key": k, "iv": iv, "ctr": ctr,
                              "pieces": pieces, "block_size": bs}, why)
                    break
        if len(ctx.fails) > 8:
            break

    # f. feeders: every split of lengths 1..L into <= 4 chunks (lengths L+1..40 sampled), all modes, both directions
    # exhaustive up to L; lengths L+1..40 get sampled splits below
    L = 18 if (ctx.quick() and not esc()) else 26 if ctx.quick() else 28
    combos = []
    for mode in MODES:
        m = mode[0] if isinstance(mode, tuple) else mode
        for d in ("enc", "dec"):
            pads = ["default", "none"] if m != "CFB" else ["default"]
            for padding in pads:
                combos.append((mode, d, padding))
    for n in range(1, L + 1):
        for (mode, d, padding) in combos:
            m = mode[0] if isinstance(mode, tuple) else mode
            if m in ("ECB", "CBC") and padding == "none" and n % 16:
                continue
            if ctx.quick() and not esc() and isinstance(mode, tuple) and mode[1] in (2, 8) and n % 3:
                continue
            k, iv, ctr = rkey(r), riv(r, mode), rctr(r)
            data = rbytes(r, n)
            if d == "dec":
                w = run_feeder(aes, bf, mode, "enc", padding, k, iv, ctr, [data])
                if w[0] != "ok":
                    ctx.fail("feeder-differs-from-sp800-38a",
                             {"mode": repr(mode), "dir": "enc", "padding": padding, "key": k, "iv": iv, "ctr": ctr,
                              "chunks": [data]}, "encrypt raised %s" % (w[1],))
                    continue
                data = w[1]
            want = expected_stream(mode, d, padding, k, iv, ctr, data)
            ctx.case(("search-feeder", repr(mode), d, padding, n))
            for pos in splits(len(data), 4):
                chunks = cut(data, pos)
                ctx.evaluations += 1
                got = run_feeder(aes, bf, mode, d, padding, k, iv, ctr, chunks)
                ok = True if want is ANY else (got[0] == "err") if want is None else (got == ("ok", want))
                if not ok:
                    ctx.fail("feeder-differs-from-sp800-38a",
                             {"mode": repr(mode), "dir": d, "padding": padding, "key": k, "iv": iv, "ctr": ctr,
                              "chunks": chunks},
                             "got %r, standard gives %s" % (got, want.hex() if isinstance(want, bytes) else "an error"))
                    break
        if len(ctx.fails) > 8:
            break
    ctx.extra["split_sweep"] = {"max_len": L, "max_chunks": 4, "exhaustive": True}
    # lengths L+1..40: sampled splits into <= 4 non-empty chunks
    for n in range(L + 1, 41):
        for (mode, d, padding) in combos:
            m = mode[0] if isinstance(mode, tuple) else mode
            if m in ("ECB", "CBC") and padding == "none" and n % 16:
                continue
            k, iv, ctr = rkey(r), riv(r, mode), rctr(r)
            data = rbytes(r, n)
            if d == "dec":
                w = run_feeder(aes, bf, mode, "enc", padding, k, iv, ctr, [data])
                data = w[1] if w[0] == "ok" else data
            ctx.case(("search-feeder-sampled", repr(mode), d, padding, n))
            for _ in range(ctx.budget(3, 40)):
                chunks = rsplit(r, data, kmax=4, allow_empty=False)
                ctx.evaluations += 1
                why = feeder_predicate(aes, bf, mode, d, padding, k, iv, ctr, chunks)
                if why:
                    ctx.fail("feeder-differs-from-sp800-38a",
                             {"mode": repr(mode), "dir": d, "padding": padding, "key": k, "iv": iv, "ctr": ctr,
                              "chunks": chunks}, why)
                    break
    # longer inputs, random splits incl. empty chunks
    for _ in range(ctx.budget(150, 5000) * (4 if esc() else 1)):
        mode, d, padding = r.choice(combos)
        m = mode[0] if isinstance(mode, tuple) else mode
        k, iv, ctr = rkey(r), riv(r, mode), rctr(r)
        n = r.randrange(1, 81)
        if m in ("ECB", "CBC") and padding == "none":
            n = 16 * r.randrange(1, 6)
        data = rbytes(r, n)
        if d == "dec":
            w = run_feeder(aes, bf, mode, "enc", padding, k, iv, ctr, [data])
            data = w[1] if w[0] == "ok" else data
        chunks = rsplit(r, data, kmax=6)
        ctx.case(("search-feeder-long", repr(mode), d, padding, k, tuple(chunks)))
        why = feeder_predicate(aes, bf, mode, d, padding, k, iv, ctr, chunks)
        if why:
            ctx.fail("feeder-differs-from-sp800-38a",
                     {"mode": repr(mode), "dir": d, "padding": padding, "key": k, "iv": iv, "ctr": ctr,
                      "chunks": chunks}, why)
    # CTR counters around the 128-bit wrap, directly on Counter
    for v in CTRS:
        c = aes.Counter(v)
        for j in range(4):
            ctx.evaluations += 1
            want = list(((v + j) % (1 << 128)).to_bytes(16, "big"))
            if list(c.value) != want:
                ctx.fail("counter-wrap", {"initial": v, "step": j, "impl": bytes(c.value)}, "expected %s" % bytes(want).hex())
                break
            c.increment()

    ctx.extra["rule"] = (
        "correspondence (model evaluated in Coq with vm_compute vs implementation): raw block encrypt/decrypt for the three "
        "key sizes (random/zero/ff/high-bit keys and blocks) + wrong key/block sizes; call histories on 1..3 interleaved "
        "mode objects (ECB, CBC, CFB-1/2/5/8/16, OFB, CTR with counters around 2^128-1) incl. wrong lengths; "
        "Encrypter/Decrypter with padding default/none/other over data lengths 0..80 cut into <= 4 chunks (possibly empty), "
        "valid and damaged ciphertexts; encrypt_stream/decrypt_stream from input streams whose read() short-reads "
        "(pieces of 1..block_size bytes; block_size 1/7/16/33/64/8192/default); adapter encrypt/decrypt/mac for every length 0..49 with none/zero/random/wrong IV and "
        "wrong key sizes, against both the proxy model and Model/Cbc.v; histories of calls on 1..3 adapter objects; crypto.pad. "
        "search (property evaluated on the implementation against an independent definition-level AES/SP 800-38A): all 14 tables "
        "entry by entry, FIPS-197 B/C and SP 800-38A F vectors, random and single-byte-perturbed keys/blocks, inverse, every "
        "split of lengths 1..L into <= 4 chunks for every mode/direction/padding, short-reading input streams through "
        "encrypt_stream/decrypt_stream for every mode/direction/padding and block size, counter wrap, adapter = zero-padded CBC / mac / "
        "inverse for every length, history independence. non-trivial = non-empty data; distinct by (operation, key, iv, data, split)")


def _b(x):
    return None if x is None else bytes.fromhex(x["hex"]) if isinstance(x, dict) else x


def replay(ctx, data):
    plug, aes, bf = impl()
    rc = 0
    for f in data.get("fails", []):
        d = f["data"]
        kind = f["kind"]
        print(kind, "|", f["detail"][:300])
        if kind == "table-entry":
            nm, i = d["table"], d["index"]
            if nm in ("rcon",):
                got, want = aes.AES.rcon[i], d["definition"]
            elif nm == "number_of_rounds":
                got, want = aes.AES.number_of_rounds, {16: 10, 24: 12, 32: 14}
            else:
                got, want = getattr(aes.AES, nm)[i], table_defs()[nm, i]
            print(" AES.%s[%s] = %r, definition: %r" % (nm, i, got, want))
            rc |= got != want
        elif kind in ("block-differs-from-fips197", "block-decrypt-not-inverse"):
            k, b = _b(d["key"]), _b(d["block"])
            a = aes.AES(k)
            c = bytes(a.encrypt(b))
            print(" impl encrypt:", c.hex(), " FIPS-197:", ref_encrypt(k, b).hex())
            print(" impl decrypt:", bytes(a.decrypt(b)).hex(), " FIPS-197:", ref_decrypt(k, b).hex())
            rc |= c != ref_encrypt(k, b) or bytes(a.decrypt(b)) != ref_decrypt(k, b) or bytes(a.decrypt(c)) != b
        elif kind == "feeder-differs-from-sp800-38a":
            mode = eval(d["mode"], {})
            chunks = [_b(c) for c in d["chunks"]]
            why = feeder_predicate(aes, bf, mode, d["dir"], d["padding"], _b(d["key"]), _b(d["iv"]), d["ctr"], chunks)
            print(" chunks:", [c.hex() for c in chunks], "->", why)
            rc |= bool(why)
        elif kind == "stream-differs-from-sp800-38a":
            mode = eval(d["mode"], {})
            pieces = [_b(c) for c in d["pieces"]]
            why = stream_predicate(aes, bf, mode, d["dir"], d["padding"], _b(d["key"]), _b(d["iv"]), d["ctr"],
                                   pieces, d["block_size"])
            print(" reads deliver:", [c.hex() for c in pieces], "block_size", d["block_size"], "->", why)
            rc |= bool(why)
        elif kind == "mode-table":
            table = getattr(aes, "AESModesOfOperation", {})
            names = {"ecb": "AESModeOfOperationECB", "cbc": "AESModeOfOperationCBC", "cfb": "AESModeOfOperationCFB",
                     "ofb": "AESModeOfOperationOFB", "ctr": "AESModeOfOperationCTR"}
            bad = {n: getattr(table.get(n), "__name__", None) for n in names if table.get(n) is not getattr(aes, names[n], None)}
            print(" entries of AESModesOfOperation that are not the class of that name:", bad or "none")
            rc |= bool(bad)
        elif kind == "adapter-not-zero-padded-cbc":
            why = adapter_predicate(plug, _b(d["key"]), _b(d["iv"]), _b(d["data"]))
            print(" ->", why)
            rc |= bool(why)
        elif kind == "counter-wrap":
            c = aes.Counter(d["initial"])
            for _ in range(d["step"]):
                c.increment()
            want = ((d["initial"] + d["step"]) % (1 << 128)).to_bytes(16, "big")
            print(" impl:", bytes(c.value).hex(), "expected:", want.hex())
            rc |= bytes(c.value) != want
        elif kind == "adapter-history-dependent":
            from bec2format.crypto import create_AES128
            k, iv = _b(d["key"]), _b(d["iv"])
            used, other = create_AES128(k, iv), create_AES128(k, None)
            for who, op, x in d["history"]:
                run_impl(getattr(used if who == "used" else other, op), _b(x))
            a1 = run_impl(getattr(used, d["op"]), _b(d["data"]))
            a2 = run_impl(getattr(create_AES128(k, iv), d["op"]), _b(d["data"]))
            print(" used:", a1, " fresh:", a2)
            rc |= a1 != a2
    for b in data.get("broken", []):
        print("broken:", b["what"])
        print(b["detail"][:1500])
    return 1 if rc else 0
