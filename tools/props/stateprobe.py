"""State probes: a fixed set of small, deterministic library calls whose results are recorded BEFORE the harness
stages run and again AFTER them.  The results must be the same: whatever a caller did with objects the library
handed out earlier (or whatever the stages did) must not show up in later, unrelated calls - mutable default
arguments, module-level dictionaries shared between objects, caches that hand out the same object twice, state
kept on long-lived classes.  Every probe ends by MODIFYING what it was handed, so that a later probe sees the
contamination if the library shares it.

Each property uses only the items its statement covers (PROBES below); C14 ("leaves library-global state
unchanged") uses all container items."""
import io


def _plugins():
    """(enter, leave): make sure the real plug-ins and a fixed random source are registered during a probe"""
    import bec2format
    import bec2format.crypto as bc
    import register_crypto_plugin as plug
    names = ("__AES128", "__PublicEccKey", "__PrivateEccKey", "__random_bytes")
    saved = {n: getattr(bc, n) for n in names}

    def enter():
        bec2format.register_AES128(plug.AES128Proxy)
        bec2format.register_PublicEccKey(plug.PublicEccKeyProxy)
        bec2format.register_PrivateEccKey(plug.PrivateEccKeyProxy)
        bec2format.register_random_bytes(lambda n: bytes((7 * i + 3) & 0xFF for i in range(n)))

    def leave():
        for n, v in saved.items():
            setattr(bc, n, v)
    return enter, leave


CFG = {(0x0620, 0x07): b"\x01", (0x0620, 0x06): b"N", (0x0620, 0x20): b"\x01", (0x0202, 0x82): b"12345678"}


def p_fresh_objects():
    from bec2format.bf3file import Bf3File, Bf3Component
    f0, f1 = Bf3File(), Bf3File(components=[Bf3Component({0xC3: b"\x02"}, b"abc")])
    out = (dict(f0.comments), len(f0.components), dict(f1.comments), len(f1.components),
           list(f1.components[0].description.items()))
    f0.comments["probe"] = "x"
    f0.components.append(Bf3Component({}, b"probe"))
    f1.comments["probe"] = "y"
    f1.components[0].description[0xC4] = b"\xee"
    return out


def p_write_read():
    from bec2format.bf3file import Bf3File, Bf3Component
    key = bytes(range(16))
    f = Bf3File({"Creator": "probe", "a:b": "c"} if False else {"Creator": "probe"},
                [Bf3Component({0xC3: b"\x02", 0xC1: b""}, bytes(range(40)), 33), Bf3Component({}, b"\x00tail\x00")])
    s = io.StringIO()
    f.write_file(s, key)
    g = Bf3File.read_file(io.StringIO(s.getvalue()), True, key)
    out = (s.getvalue(), dict(g.comments), [(list(c.description.items()), bytes(c.blob), c.actual_len) for c in g.components])
    g.comments["probe"] = "z"
    g.components[0].description[0xC4] = b"\xee"
    return out


def p_set_config():
    from bec2format.bf3file import Bf3File, Bf3Component
    f = Bf3File(components=[Bf3Component({0xC3: b"\x02"}, b"fw")])
    cfg = dict(CFG)
    f.set_config(cfg)
    f.derive_comments_from_config(cfg)
    c = f.components[-1]
    out = (list(c.description.items()), bytes(c.blob), c.actual_len, c.encrypt_by_session_key, dict(f.comments), sorted(cfg.items()))
    c.description[0xC4] = b"\xee\xee"
    for t in list(c.description):
        if t not in (0xC2, 0xC3):
            c.description[t] = b"\x00"
    f.comments["probe"] = "w"
    return out


def p_bec2():
    from bec2format.bf3file import Bf3File, Bf3Component
    from bec2format.bec2file import (Bec2File, SoftwareCustKeyEncryptor, ConfigSecurityCodeEncryptor, InitCustKeyAuthBlock,
                                     UpdateAuthBlock)
    f = Bf3File({"k": "v"}, [Bf3Component({0xC3: b"\x02"}, b"firmware")])
    f.set_config(dict(CFG))
    b = Bec2File(f, [InitCustKeyAuthBlock(), UpdateAuthBlock(b"12345678", 3)], bytes(range(16, 32)))
    binary = b.to_binary([SoftwareCustKeyEncryptor(bytes(16))])
    g = Bec2File.read_file(io.StringIO("\n" + binary.hex().upper() + "\n"),
                           [SoftwareCustKeyEncryptor(bytes(16)), ConfigSecurityCodeEncryptor(b"12345678")], True)
    d = Bec2File(Bf3File(), [], bytes(16))
    d.derive_auth_blocks_from_config(dict(CFG), True)
    out = (binary.hex(), g.session_key.hex(), sorted(g.auth_blocks), [bytes(c.blob) for c in g.bf3file.components],
           sorted((t, type(v).__name__) for t, v in d.auth_blocks.items()))
    g.auth_blocks.clear()
    g.bf3file.comments["probe"] = "v"
    return out


def p_frames():
    from bec2format.bec2file import SoftwareCustKeyEncryptor, ConfigSecurityCodeEncryptor
    e1, e2 = ConfigSecurityCodeEncryptor(b"12345678"), SoftwareCustKeyEncryptor(bytes(range(16)), b"CUSTOMER01", 0)
    w = [e1.encrypt(b"payload-1"), e1.encrypt(b"payload-2"), e2.encrypt(bytes(26)), e2.encrypt(bytes(range(26)))]
    back = [ConfigSecurityCodeEncryptor(b"12345678").decrypt(w[1]), e1.decrypt(w[0]),
            SoftwareCustKeyEncryptor(bytes(range(16)), b"CUSTOMER01", 0).decrypt(w[3])]
    return ([x.hex() for x in w], back)


def p_cfgid():
    from bec2format.configid import ConfigId
    out = []
    for t in ("12345-1234-1234-12 name", "foo (version 07)", "00077-0000-0003-04"):
        i1 = ConfigId.create_from_str(t)
        out.append((t, str(i1), (i1.customer, i1.project, i1.device, i1.version, i1.name)))
        i1.version, i1.name = 99, "probe"
    j = ConfigId.create_from_prj_settings({(0x0620, 0x07): b"\x09", (0x0620, 0x06): b"Solo"})
    out.append(str(j))
    j.name = "probe"
    return out


def p_crc():
    from bec2format.bec2file import crc8404B
    return (crc8404B(b"123456789"), crc8404B(b""), crc8404B(b"\x00abc", 0x1234), crc8404B(bytes(8)))


BF2 = ('# BALTECH firmware file\n#\n##Firmware: 1053 BALTECHOS 1.08.02\n##Creator: bf2tool 1.0\n##Bf3Update: 1\n\n'
       '#>SELECT_IF PROTOCOL=BRP-CCID\n#>SELECT FILTER=01 02 80 BE 00 B6\n:0000FE00\n:00003904030000F131\n:0000FF00\n#>REBOOT\n'
       '##CRC: 0x69ACE913\n#>SELECT_IF PROTOCOL=BRP-SER\n#>SELECT FILTER=0103C0B640BE23E5\n:0000FE00\n'
       ':00008308070000F5DAD9E15F813F\n:0000FF00\n#>REBOOT\n')


def p_bf2():
    from bec2format.bf3file import Bf3File, pfid2_filter_to_str
    try:
        f = Bf3File.bf2_import(io.StringIO(BF2), True)
        out = (dict(f.comments), [(list(c.description.items()), bytes(c.blob)) for c in f.components])
        f.comments["probe"] = "u"
        for c in f.components:
            c.description[0xC4] = b"\xee"
    except Exception as e:   # noqa
        out = ("raises", type(e).__name__, str(e)[:80])
    return (out, pfid2_filter_to_str(bytes.fromhex("0103809B00AD00C0")))


def p_aes():
    import register_crypto_plugin as plug
    from register_crypto_plugin.pyaes import aes, blockfeeder
    k, iv = bytes(range(16)), bytes(range(16, 32))
    a = plug.AES128Proxy(k, iv)
    out = [a.encrypt(b"abc").hex(), a.encrypt(b"abc").hex(), a.mac(bytes(40)).hex(), a.decrypt(a.encrypt(bytes(range(32)))).hex(),
           plug.AES128Proxy(k, None).encrypt(bytes(17)).hex()]
    m = aes.AESModeOfOperationOFB(k, iv)
    out.append((bytes(m.encrypt(b"12345")) + bytes(m.encrypt(b"6789012345678901"))).hex())
    enc = blockfeeder.Encrypter(aes.AESModeOfOperationCBC(k, iv))
    out.append((enc.feed(b"x" * 20) + enc.feed()).hex())
    out.append(sorted((n, c.__name__) for n, c in aes.AESModesOfOperation.items()))
    out.append(bytes(aes.AESModeOfOperationCTR(k, aes.Counter(0)).encrypt(bytes(16))).hex())
    return out


def p_ecdsa():
    import hashlib
    from register_crypto_plugin.ecdsa import SigningKey, VerifyingKey, NIST256p, SECP112r2, ecdh, ellipticcurve as E, curves
    from register_crypto_plugin.ecdsa import numbertheory as NT
    from register_crypto_plugin.ecdsa.util import sigencode_der, sigdecode_der
    out = []
    sk = SigningKey.from_secret_exponent(123456789, NIST256p, hashfunc=hashlib.sha256)
    sig = sk.sign_deterministic(b"probe", sigencode=sigencode_der)
    vk = sk.get_verifying_key()
    out += [sig.hex(), vk.verify(sig, b"probe", sigdecode=sigdecode_der), vk.to_der("compressed").hex(), sk.to_der().hex()[:40]]
    sk2 = SigningKey.from_pem(sk.to_pem(), hashfunc=hashlib.sha256)
    out += [sk2.default_hashfunc().name, sk2.sign_deterministic(b"probe", extra_entropy=b"xy", sigencode=sigencode_der).hex()]
    a, b = ecdh.ECDH(NIST256p), ecdh.ECDH(NIST256p)
    pa = a.load_private_key(SigningKey.from_secret_exponent(11, NIST256p))
    pb = b.load_private_key(SigningKey.from_secret_exponent(13, NIST256p))
    a.load_received_public_key(pb)
    b.load_received_public_key(pa)
    out += [a.generate_sharedsecret_bytes().hex(), b.generate_sharedsecret_bytes().hex()]
    g = SECP112r2.generator
    p5 = g * 5
    aff = E.Point(g.curve(), int(g.x()), int(g.y()), int(g.order()))
    q = aff * 5
    out += [int(p5.x()), int(q.x()), int((-q).y()) % int(g.curve().p()), (aff + E.INFINITY) == aff]
    out += [NT.square_root_mod_prime(4, 23), NT.jacobi(5, 21), curves.Curve.from_der(NIST256p.to_der("explicit", "compressed")).name]
    out.append(VerifyingKey.from_string(vk.to_string("compressed"), NIST256p) == vk)
    return out


PROBES = {
    "C01": (p_fresh_objects, p_write_read), "C02": (p_bec2,), "C03": (p_fresh_objects, p_write_read, p_bec2),
    "C04": (p_write_read,), "C05": (p_write_read,), "C06": (p_set_config, p_write_read), "C07": (p_bec2, p_frames),
    "C08": (p_frames, p_crc), "C09": (), "C10": (p_set_config,), "C11": (p_set_config, p_bec2, p_fresh_objects),
    "C12": (p_cfgid,), "C13": (p_bf2,), "C14": (p_fresh_objects, p_write_read, p_set_config, p_bec2, p_frames, p_cfgid, p_crc, p_bf2),
    "C15": (p_crc,), "C16": (p_aes,), "C17": (p_ecdsa,), "C18": (p_ecdsa,), "C19": (p_ecdsa,), "C20": (),
}


def run(pid):
    """{item name: repr of its result (or of the exception it raised)} for the items of property pid"""
    items = PROBES.get(pid, ())
    if not items:
        return {}
    enter, leave = _plugins()
    out = {}
    enter()
    try:
        for f in items:
            try:
                out[f.__name__] = repr(f())
            except Exception as e:   # noqa
                out[f.__name__] = "raised %s: %s" % (type(e).__name__, str(e)[:200])
    finally:
        leave()
    return out
