"""A toy block cipher registered through the library's own plug-in API
(register_AES128) so that container-level correspondence runs exercise the
framing/MAC logic with the cipher factored out.  Mirrors coq/Model/Cbc.v
(toyE/toyD under adapter_encrypt/adapter_decrypt/adapter_mac)."""
import contextlib


def toyE(k, b):
    return bytes(reversed([(x + y + 1) % 256 for x, y in zip(b, k[:16])]))


def toyD(k, c):
    return bytes((x + 511 - y) % 256 for x, y in zip(reversed(c), k[:16]))


def xor(a, b):
    return bytes(x ^ y for x, y in zip(a, b))


def _checks(key, iv):
    if len(key) not in (16, 24, 32):
        raise ValueError("Invalid key size")
    if iv is not None and len(iv) != 16:
        raise ValueError("initialization vector must be 16 bytes")


def toy_encrypt(key, iv, data):
    if not data:
        return b""
    _checks(key, iv)
    prev = bytes(16) if iv is None else iv
    data = data + bytes(-len(data) % 16)
    out = b""
    for i in range(0, len(data), 16):
        prev = toyE(key, xor(data[i:i + 16], prev))
        out += prev
    return out


def toy_decrypt(key, iv, data):
    if len(data) % 16:
        raise ValueError("ciphertext length is not a multiple of the block size")
    if not data:
        return b""
    _checks(key, iv)
    prev = bytes(16) if iv is None else iv
    out = b""
    for i in range(0, len(data), 16):
        c = data[i:i + 16]
        out += xor(toyD(key, c), prev)
        prev = c
    return out


@contextlib.contextmanager
def registered():
    import bec2format
    import register_crypto_plugin as plug

    class ToyAES(bec2format.AES128):
        def encrypt(self, data):
            return toy_encrypt(self._key, self._iv, data)

        def decrypt(self, data):
            return toy_decrypt(self._key, self._iv, data)

        def mac(self, data):
            return self.encrypt(data)[-16:]
    bec2format.register_AES128(ToyAES)
    try:
        yield
    finally:
        bec2format.register_AES128(plug.AES128Proxy)


TOY_COQ = """From Bec2 Require Import Model.Cbc.
Definition toy_enc (k : bytes) (iv : option bytes) (d : bytes) := adapter_encrypt toyE k iv d.
Definition toy_dec (k : bytes) (iv : option bytes) (d : bytes) := adapter_decrypt toyD k iv d.
Definition toy_mac (k : bytes) (iv : option bytes) (d : bytes) := adapter_mac toyE k iv d.
Definition toy_enc0 (k d : bytes) := toy_enc k None d.
Definition toy_dec0 (k d : bytes) := toy_dec k None d.
"""
