"""C15 - crc8404B is CRC-16/MCRF4XX for all inputs.
Tie: translator (Gen/Crc.v is regenerated from bec2file.py).  The theorems are
about the generated definitions; here the generated definition is cross-checked
against the running implementation, and the property predicate (bit-serial
oracle written from the property text) is evaluated on the implementation."""
from vlib import qN, qlist

GEN_DEPS = ("Crc.v", "gen_crc")
IMPORTS = "From Bec2 Require Import Gen.Crc."


def oracle(data, start=0xFFFF):
    crc = start
    for b in data:
        crc ^= b
        for _ in range(8):
            crc = (crc >> 1) ^ 0x8408 if crc & 1 else crc >> 1
    return crc


def impl():
    from bec2format.bec2file import crc8404B
    return crc8404B


def gen_cases(ctx, n):
    r = ctx.rng
    cases = [(b"", 0xFFFF), (b"123456789", 0xFFFF), (b"\x00", 0), (b"\xff" * 3, 0xFFFF)]
    while len(cases) < n:
        ln = r.choice([0, 1, 2, 3, 5, 16, 17, 64, 255, r.randrange(0, 600)])
        data = bytes(r.randrange(256) for _ in range(ln))
        if r.random() < 0.15 and ln:
            data = data[:-1] + b"\x00"
        start = r.choice([0xFFFF, 0, 0x8408, 0x00FF, 0xFF00, r.randrange(65536)])
        cases.append((data, start))
    return cases


def correspondence(ctx):
    crc = impl()
    cases = gen_cases(ctx, ctx.budget(400, 6000))
    exprs = []
    for data, start in cases:
        got = crc(data, start)
        ctx.case((data, start), trivial=(len(data) == 0))
        ctx.dist["len=%s" % ("0" if not data else "1-2" if len(data) < 3 else "3-63" if len(data) < 64 else ">=64")] += 1
        exprs.append("(crc8404B %s %s =? %s)" % (qlist([qN(b) for b in data], "N"), qN(start), qN(got)))
    ctx.sample({"data": cases[1][0], "start": cases[1][1], "impl": crc(*cases[1])})
    bad = ctx.coq_eval("crc", IMPORTS, exprs)
    if bad is None:
        return
    ctx.traces += len(cases)
    for i in bad:
        data, start = cases[i]
        if crc(data, start) != oracle(data, start):
            ctx.fail("crc-differs-from-bitserial", {"data": data, "start": start},
                     "impl=%#x oracle=%#x" % (crc(data, start), oracle(data, start)))
        else:
            ctx.broken("correspondence: Gen.crc8404B differs from the implementation",
                       {"data": data.hex(), "start": start})


def search(ctx):
    crc = impl()
    # default start value and no final xor
    if crc(b"") != 0xFFFF:
        ctx.fail("crc-default-start", {"data": b"", "start": None}, "crc(b'')=%#x" % crc(b""))
    if crc(b"123456789") != 0x6F91:
        ctx.fail("crc-check-value", {"data": b"123456789", "start": None}, "%#x" % crc(b"123456789"))
    # one update step: all 2^16 start values x a set of byte values (all 256 in thorough)
    full = (not ctx.quick()) or bool(ctx.brokens)   # escalate when an obligation broke
    if not full:
        bs = sorted(set([0, 1, 2, 0x0F, 0x10, 0x7F, 0x80, 0xFE, 0xFF] + [ctx.rng.randrange(256) for _ in range(7)]))
    else:
        bs = range(256)
    step_table = {}
    for b in bs:
        one = bytes([b])
        for start in range(65536):
            got = crc(one, start)
            ctx.evaluations += 1
            x = start ^ b
            for _ in range(8):
                x = (x >> 1) ^ 0x8408 if x & 1 else x >> 1
            if got != x or not (0 <= got < 65536):
                ctx.fail("crc-differs-from-bitserial", {"data": one, "start": start},
                         "impl=%#x oracle=%#x" % (got, x))
                if len(ctx.fails) > 5:
                    return
    ctx.nontrivial.update(("step", b) for b in bs)
    ctx.extra["step_sweep"] = {"bytes": len(list(bs)), "starts": 65536, "exhaustive": full}
    # all strings up to length 2 with the default start value
    for a in range(256):
        for b in range(-1, 256):
            data = bytes([a]) if b < 0 else bytes([a, b])
            ctx.evaluations += 1
            if crc(data) != oracle(data):
                ctx.fail("crc-differs-from-bitserial", {"data": data, "start": None},
                         "impl=%#x oracle=%#x" % (crc(data), oracle(data)))
                if len(ctx.fails) > 5:
                    return
    # ways of calling: start value by keyword, data as bytearray / memoryview, a CRC continued from a partial result
    for _ in range(ctx.budget(300, 5000)):
        ln = ctx.rng.choice([0, 1, 2, 3, 4, 8, 9, 16, 26, ctx.rng.randrange(0, 80)])
        data = bytes(ctx.rng.choice([0, 0, ctx.rng.randrange(256), ctx.rng.randrange(256)]) for _ in range(ln))
        start = ctx.rng.choice([0xFFFF, 0, 0x1234, ctx.rng.randrange(65536)])
        k = ctx.rng.randrange(ln + 1)
        want = oracle(data, start)
        styles = (("start_value by keyword", lambda: crc(data, start_value=start)),
                  ("bytearray", lambda: crc(bytearray(data), start)),
                  ("memoryview", lambda: crc(memoryview(data), start)),
                  ("continued at %d" % k, lambda: crc(data[k:], crc(data[:k], start))),
                  ("continued at %d, keyword" % k, lambda: crc(data[k:], start_value=crc(data[:k], start_value=start))))
        for nm, f in styles:
            ctx.case(("style", nm.split(" at")[0], data, start))
            try:
                got = f()
            except Exception as e:   # noqa
                got = "raised %s" % type(e).__name__
            if got != want:
                ctx.fail("crc-differs-from-bitserial", {"data": data, "start": start, "call": nm},
                         "called with %s: impl=%s oracle=%#x" % (nm, got if isinstance(got, str) else hex(got), want))
                break
        if len(ctx.fails) > 5:
            return
    # long samples
    for _ in range(ctx.budget(50, 2000)):
        ln = ctx.rng.choice([100, 1000, 4096, ctx.rng.randrange(3, 5000)])
        data = bytes(ctx.rng.randrange(256) for _ in range(ln))
        start = ctx.rng.randrange(65536)
        ctx.case(("long", data, start))
        if crc(data, start) != oracle(data, start):
            ctx.fail("crc-differs-from-bitserial", {"data": data, "start": start}, "")
    ctx.extra["rule"] = ("correspondence: random (data,start) incl. empty/zero-ended data, Gen.crc8404B evaluated in Coq vs implementation; "
                         "search: every start value x selected byte values for one step (all 256 in thorough), all strings of length 1..2, "
                         "random long strings, compared with a bit-serial oracle; non-trivial = non-empty data, distinct by (data,start)")


def replay(ctx, data):
    crc = impl()
    rc = 0
    for f in data.get("fails", []):
        d = bytes.fromhex(f["data"]["data"]["hex"])
        s = f["data"]["start"]
        got = crc(d) if s is None else crc(d, s)
        want = oracle(d) if s is None else oracle(d, s)
        print("data=%s start=%s impl=%#x bitserial=%#x" % (d.hex(), s, got, want))
        rc |= got != want
    for b in data.get("broken", []):
        print("broken:", b["what"])
    return 1 if rc else 0
