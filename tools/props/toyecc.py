"""Toy ECC plug-in registered through the library's own register_* API so that
BEC2 container-level correspondence runs exercise the auth-block logic with the
elliptic-curve arithmetic factored out.  Mirrors coq/Model/Bec2Eq.v."""
import contextlib

P = 2 ** 61 - 1
G = 3
HEADER = bytes.fromhex("3059301306072A8648CE3D020106082A8648CE3D03010703420004")

STATE = {"nk": 0, "nr": 0}


def keygen(i):
    return (((i + 1) * 0x9E3779B97F4A7C15) % (P - 1) + 1).to_bytes(32, "big")


def pub_of(d):
    return pow(G, int.from_bytes(d, "big"), P).to_bytes(64, "big")


def valid_pub(raw):
    return int.from_bytes(raw, "big") % P != 0


def ecdh(d, raw):
    return pow(int.from_bytes(raw, "big") % P, int.from_bytes(d, "big"), P).to_bytes(32, "big")


def rand16(i):
    return (((i + 1) * 0x9E3779B97F4A7C15F39CC0605CEDC835) % (2 ** 128)).to_bytes(16, "big")


def reset():
    STATE["nk"] = 0
    STATE["nr"] = 0


@contextlib.contextmanager
def registered():
    import bec2format
    import register_crypto_plugin as plug

    class ToyPub(bec2format.PublicEccKey):
        def __init__(self, raw):
            self.raw = raw

        @classmethod
        def create_from_der_fmt(cls, der_fmt):
            if len(der_fmt) != 91 or der_fmt[:27] != HEADER or not valid_pub(der_fmt[27:]):
                raise ValueError("Invalid public ECC key")
            return cls(der_fmt[27:])

        def to_der_fmt(self):
            return HEADER + self.raw

    class ToyPriv(bec2format.PrivateEccKey):
        def __init__(self, d):
            self.d = d

        @classmethod
        def generate(cls):
            k = cls(keygen(STATE["nk"]))
            STATE["nk"] += 1
            return k

        @property
        def public_key(self):
            return ToyPub(pub_of(self.d))

        def compute_dh_secret(self, public_key):
            return ecdh(self.d, public_key.to_der_fmt()[27:])

    def rnd(n):
        assert n == 16
        v = rand16(STATE["nr"])
        STATE["nr"] += 1
        return v
    bec2format.register_PublicEccKey(ToyPub)
    bec2format.register_PrivateEccKey(ToyPriv)
    bec2format.register_random_bytes(rnd)
    try:
        yield ToyPub, ToyPriv
    finally:
        bec2format.register_PublicEccKey(plug.PublicEccKeyProxy)
        bec2format.register_PrivateEccKey(plug.PrivateEccKeyProxy)
        bec2format.register_random_bytes(plug.random_bytes)


TOYECC_COQ = """From Bec2 Require Import Model.Bec2 Model.Bec2Eq.
Definition sha_oracle (x : bytes) : bytes :=
  match find (fun p => bytes_eqb (fst p) x) sha_tbl with Some p => snd p | None => [] end.
Definition t_pack_blocks := pack_blocks toy_enc sha_oracle toy_pub_of toy_ecdh toy_keygen.
Definition t_to_binary := bec2_to_binary toy_enc toy_mac sha_oracle toy_pub_of toy_ecdh toy_keygen.
Definition t_write := bec2_write_file toy_enc toy_mac sha_oracle toy_pub_of toy_ecdh toy_keygen.
Definition t_read := bec2_read_file toy_dec toy_mac sha_oracle toy_valid_pub toy_ecdh toy_rand16.
Definition t_new := new_bec2 toy_rand16.
"""
