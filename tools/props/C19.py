"""C19 - key and point encodings round-trip and are byte-compatible with OpenSSL.

Tie: hand models coq/Model/Der.v (der.py primitives) and coq/Model/KeyCodec.v
(util number/string codecs, point encodings, Curve / VerifyingKey / SigningKey
DER codecs, the bec2format 27-byte header) + correspondence; object identifiers,
curve parameters and the 27-byte header are generated from the source
(Gen/KeyOids.v by tools/gen/keycodec.py, Gen/Consts.v).

correspondence(ctx): every primitive on generated valid encodings (boundary lengths,
  integers with the high bit set / leading zeros, OIDs with large arcs) plus a malformed
  stream (truncations, extensions, flipped tag / length bytes, empty input); the key
  codecs on all 17 curves with the external functions (modular square root, scalar
  multiplication) recorded from the implementation's own run and supplied to the model
  as finite oracle tables; numbertheory.jacobi / polynomial_* / square_root_mod_prime against
  coq/Model/NumTheory.v (every prime below 300 exhaustively, the curve primes, composite and
  malformed arguments with the exact exception kinds) and compressed points decoded through the
  model's own square root (tools/props/c19_numtheory.py).
search(ctx): the property predicate on the real implementation: the bytes of every encoding
  against an independent DER / SEC1 encoder; round trips through every encoding; every
  truncation and extension must be rejected with a documented error (UnexpectedDER,
  MalformedPointError, ValueError and subclasses, UnknownCurveError); single-byte mutations
  and structural malformations (elements deleted / emptied / shortened / duplicated) must give
  a documented error or a VALID key; primitives accept only canonical DER; the bec2format
  plug-in round trip; and, when an openssl binary exists (thorough tier), byte compatibility
  in both directions.  Any other exception type is reported as
  `undocumented-error:<Exception>:<decoder>` (before /repo commit 430b0b7 the removers leaked
  IndexError; those inputs are kept as REGRESSIONS).
"""
import base64
import os
import shutil
import subprocess
import tempfile
import time

from vlib import qbytes, qlist, qopt, run_impl, canon_exc
import vlib
from props import c19_numtheory


def qN(n):
    """N literal; large numbers in hexadecimal (coqc parses a decimal literal in quadratic time)"""
    return vlib.qN(n) if n < (1 << 32) else "0x%x%%N" % n


def qZ(n):
    if abs(n) < (1 << 32):
        return vlib.qZ(n)
    return "(0x%x)%%Z" % n if n >= 0 else "(Z.opp 0x%x%%Z)" % -n

GEN_DEPS = ("Consts.v", "gen_consts", "KeyOids.v", "gen_keyoids", "Curves.v", "gen_curves")
# Properties/C19Big.vo: the statements over the certificates of the large numbers (all 17 field primes and
# group orders); built by every run, outside the cone that the thorough tier re-checks with coqchk
MODEL_TARGETS = ["Model/Der.vo", "Model/KeyCodec.vo", "Model/NumTheory.vo", "Properties/C19Big.vo"]
IMPORTS = "From Bec2 Require Import Gen.Consts Gen.KeyOids Model.Der Model.KeyCodec."

BOUNDARY_LENGTHS = (0, 1, 127, 128, 255, 256, 65535, 65536)
ED_NAMES = ("Ed25519", "Ed448")
# curves that get the larger malformed streams in the quick tier: P-256 (BEC2), cofactor 4,
# 66-byte coordinates (long-form DER lengths), a Brainpool curve
HEAVY = ("NIST256p", "SECP112r2", "NIST521p", "BRAINPOOLP160r1")


# ---------------------------------------------------------------------------
# implementation access

class Impl:
    def __init__(self):
        import bec2format                                  # noqa
        import register_crypto_plugin as plugin
        from register_crypto_plugin.ecdsa import der, util, curves, keys, ellipticcurve, numbertheory, errors
        self.plugin, self.der, self.util, self.curves, self.keys = plugin, der, util, curves, keys
        self.ec, self.nt, self.errors = ellipticcurve, numbertheory, errors
        self.W = [c for c in curves.curves if c.name not in ED_NAMES]
        self.documented = (der.UnexpectedDER, errors.MalformedPointError, ValueError, curves.UnknownCurveError)


_IMPL = None


def impl():
    global _IMPL
    if _IMPL is None:
        _IMPL = Impl()
    return _IMPL


def canon(e):
    n = canon_exc(e)
    if n == "EOther_UnknownCurveError":
        return "EBare"          # Model/KeyCodec.v: EUnknownCurve := EBare
    return n


def run(f, *a, **k):
    try:
        return ("ok", f(*a, **k))
    except Exception as e:      # noqa
        return ("err", canon(e))


def in_enum(r):
    return r[0] == "ok" or not r[1].startswith("EOther_")


# ---------------------------------------------------------------------------
# Coq literals

def qb(b):
    """bytes literal; a long zero tail is written as zeros (N.to_nat n)"""
    b = bytes(b)
    n = len(b)
    stripped = b.rstrip(b"\0")
    z = n - len(stripped)
    if z >= 256:
        if not stripped:
            return "(zeros (N.to_nat %d))" % z
        return "(%s ++ zeros (N.to_nat %d))" % (qblist(stripped), z)
    return qblist(b)


def qblist(b):
    """explicit list of byte constructors (cheaper for coqc than the H len 0x... number notation)"""
    if not b:
        return "(@nil byte)"
    return "[" + "; ".join("x%02x" % v for v in b) + "]"


def qpair(a, b):
    return "(%s, %s)" % (a, b)


def qNl(l):
    return qlist([qN(x) for x in l], "N")


def qr(r, f):
    return "(Ok %s)" % f(r[1]) if r[0] == "ok" else "(Err %s)" % r[1]


def q_bb(v):
    return qpair(qb(v[0]), qb(v[1]))


def q_Nb(v):
    return qpair(qN(v[0]), qb(v[1]))


def q_NN(v):
    return qpair(qN(v[0]), qN(v[1]))


EQ_BB = "(prod_eqb bytes_eqb bytes_eqb)"
EQ_NB = "(prod_eqb N.eqb bytes_eqb)"
EQ_NN = "(prod_eqb N.eqb N.eqb)"
EQ_OB = "(prod_eqb (list_eqb N.eqb) bytes_eqb)"
EQ_NBB = "(prod_eqb (prod_eqb N.eqb bytes_eqb) bytes_eqb)"
EQ_BOB = "(prod_eqb (prod_eqb bytes_eqb (option_eqb N.eqb)) bytes_eqb)"

PENC = {"raw": "Raw", "uncompressed": "Uncompressed", "compressed": "Compressed", "hybrid": "Hybrid"}
CENC = {None: "None", "named_curve": "(Some NamedCurve)", "explicit": "(Some Explicit)"}


def q_curve(c):
    """a Curve object of the implementation as a model curve record"""
    h = c.curve.cofactor()
    return "(mkCurve %s %s %s %s %s %s %s %s)" % (
        qN(int(c.curve.p())), qZ(int(c.curve.a())), qZ(int(c.curve.b())),
        qN(int(c.generator.x())), qN(int(c.generator.y())), qN(int(c.order)),
        qopt(h, lambda x: qN(int(x))), qopt(c.oid, qNl))


def q_cref(c):
    if c.name in ED_NAMES:
        return "(CEd %s)" % ("true" if c.name == "Ed448" else "false")
    return "(CW %s)" % q_curve(c)


def q_vk(vk):
    pt = vk.pubkey.point
    return "(VkW %s %s %s)" % (q_curve(vk.curve), qN(int(pt.x())), qN(int(pt.y())))


def q_sk(sk):
    pt = sk.verifying_key.pubkey.point
    return "(SkW %s %s %s %s)" % (q_curve(sk.curve), qN(int(sk.privkey.secret_multiplier)),
                                  qN(int(pt.x())), qN(int(pt.y())))


# ---------------------------------------------------------------------------
# recording of the external functions during an implementation run

class Recorder:
    """Patches numbertheory.square_root_mod_prime and PointJacobi.__mul__ so that the
    queries the implementation makes (and their answers) become the model's oracle tables."""

    def __init__(self):
        self.sqrt = []      # (alpha, p, beta | None)
        self.mul = []       # (p, a, b, x, y, k, is_inf, ('ok',(x,y)) | ('err',name))
        self.unmodelled = None

    def __enter__(self):
        I = impl()
        self.o_sqrt = I.nt.square_root_mod_prime
        self.o_mul = I.ec.PointJacobi.__mul__
        rec = self

        def sqrt(a, p):
            try:
                r = rec.o_sqrt(a, p)
            except I.nt.Error:
                rec.sqrt.append((int(a), int(p), None))
                raise
            except Exception as e:   # noqa  (RuntimeError / AssertionError for composite p)
                rec.unmodelled = "square_root_mod_prime raised %s" % type(e).__name__
                raise
            rec.sqrt.append((int(a), int(p), int(r)))
            return r

        def mul(pt, other):
            try:
                res = rec.o_mul(pt, other)
            except Exception as e:       # noqa  (e.g. inverse_mod on a composite modulus)
                try:
                    cv = pt.curve()
                    rec.mul.append((int(cv.p()), int(cv.a()), int(cv.b()), int(pt.x()), int(pt.y()), int(other),
                                    False, ("err", canon(e))))
                except Exception as e2:  # noqa
                    rec.unmodelled = "cannot record a scalar multiplication: %r" % e2
                raise
            try:
                cv = pt.curve()
                key = (int(cv.p()), int(cv.a()), int(cv.b()), int(pt.x()), int(pt.y()), int(other))
                inf = bool(res == I.ec.INFINITY)
                try:
                    aff = ("ok", (int(res.x()), int(res.y()))) if not inf else ("err", "EFuel")
                except Exception as e:   # noqa
                    aff = ("err", canon(e))
                rec.mul.append(key + (inf, aff))
            except Exception as e:       # noqa
                rec.unmodelled = "cannot record a scalar multiplication: %r" % e
            return res
        I.nt.square_root_mod_prime = sqrt
        I.ec.PointJacobi.__mul__ = mul
        return self

    def __exit__(self, *a):
        I = impl()
        I.nt.square_root_mod_prime = self.o_sqrt
        I.ec.PointJacobi.__mul__ = self.o_mul

    def q_sqrt(self):
        return qlist(["(%s, %s, %s)" % (qZ(a), qN(p), qopt(b, qN)) for a, p, b in self.sqrt], "(Z * N * option N)")

    def q_mul(self):
        items = []
        for p, a, b, x, y, k, inf, aff in self.mul:
            if min(p, x, y, k) < 0:
                continue
            items.append("((%s, %s, %s, %s, %s, %s), (%s, %s))" % (
                qN(p), qZ(a), qZ(b), qN(x), qN(y), qN(k), "true" if inf else "false", qr(aff, lambda v: qpair(qN(v[0]), qN(v[1])))))
        return qlist(items, "(N * Z * Z * N * N * N * (bool * result (N * N)))")


PREAMBLE = """
Definition O_sqrt (t : list (Z * N * option N)) (a : Z) (p : N) : option N :=
  match find (fun e => (fst (fst e) =? a)%Z && (snd (fst e) =? p)) t with
  | Some e => snd e | None => None end.
Definition mulkey := (N * Z * Z * N * N * N)%type.
Definition mk_eqb (u v : mulkey) : bool :=
  let '(p, a, b, x, y, k) := u in let '(p', a', b', x', y', k') := v in
  (p =? p') && (a =? a')%Z && (b =? b')%Z && (x =? x') && (y =? y') && (k =? k').
Definition O_find (t : list (mulkey * (bool * result (N * N)))) (k : mulkey) :=
  find (fun e => mk_eqb (fst e) k) t.
Definition O_ok t (c : curve) (x y : N) : bool :=
  match O_find t (c_p c, c_a c, c_b c, x, y, c_n c) with Some e => fst (snd e) | None => false end.
Definition O_pm t (c : curve) (k : N) : result (N * N) :=
  match O_find t (c_p c, c_a c, c_b c, c_gx c, c_gy c, k) with Some e => snd (snd e) | None => Err EFuel end.
Definition edv0 (w : bool) (e : bytes) : result vkey := Ok (VkEd w e).
Definition eds0 (w : bool) (e : bytes) : result skey := Ok (SkEd w e).
Definition VKS sq mt cr s v ve := vk_from_string (O_sqrt sq) (O_ok mt) edv0 cr s v ve.
Definition VKD sq mt s ve ven vex := vk_from_der (O_sqrt sq) (O_ok mt) edv0 known_curves s ve ven vex.
Definition SKD sq mt s ven vex := sk_from_der (O_sqrt sq) (O_ok mt) (O_pm mt) eds0 known_curves s ven vex.
Definition SKS mt cr s := sk_from_string (O_ok mt) (O_pm mt) eds0 cr s.
Definition CFD sq s ven vex := curve_from_der (O_sqrt sq) known_curves s ven vex.
Definition RAWK sq mt h raw := create_from_raw_fmt (O_sqrt sq) (O_ok mt) edv0 known_curves h raw.
Definition b64id (b : bytes) : bytes := b.
Definition b64ok (b : bytes) : result bytes := Ok b.
"""


# ---------------------------------------------------------------------------
# case generation helpers

def rbytes(r, n):
    return bytes(r.randrange(256) for _ in range(n))


def body_of_len(r, n):
    if n > 2048:
        return bytes(n)
    return rbytes(r, n)


def mutations(b, r=None, limit=None):
    """single-byte mutations: xor 0x01, xor 0x80, set 0x00, set 0xFF at every index"""
    idxs = range(len(b))
    if limit is not None and len(b) * 4 > limit:
        idxs = sorted(r.sample(range(len(b)), max(1, limit // 4)))
    for i in idxs:
        seen = set()
        for kind, v in (("x01", b[i] ^ 1), ("x80", b[i] ^ 0x80), ("z", 0), ("ff", 0xFF)):
            if v != b[i] and v not in seen:
                seen.add(v)
                yield kind, i, b[:i] + bytes([v]) + b[i + 1:]


def malformed_stream(r, valid, extra_tags=()):
    """truncations, extensions and flipped tag / length bytes of one valid encoding"""
    out = [("empty", b"")]
    n = len(valid)
    cuts = set([0, 1, 2, 3, n - 1, n - 2]) | set(r.randrange(n + 1) for _ in range(3))
    for k in sorted(c for c in cuts if 0 <= c < n):
        out.append(("trunc", valid[:k]))
    out.append(("ext", valid + bytes([r.randrange(256)])))
    out.append(("ext", valid + rbytes(r, r.randrange(2, 5))))
    for i in (0, 1, 2):
        if i < n:
            for v in (valid[i] ^ 1, valid[i] ^ 0x80, 0, 0xFF, 0x80, 0x81, 0x7F, r.randrange(256)):
                out.append(("flip%d" % i, valid[:i] + bytes([v & 0xFF]) + valid[i + 1:]))
    for t in extra_tags:
        out.append(("tag", bytes([t]) + valid[1:]))
    return out


# ---------------------------------------------------------------------------
# correspondence: DER primitives

class Cases:
    def __init__(self, ctx):
        self.ctx, self.exprs, self.descr = ctx, [], []

    def add(self, what, expr, data, res=None):
        self.exprs.append(expr)
        self.descr.append((what, data, res))


def corr_der(ctx, cs):
    I = impl()
    d = I.der
    r = ctx.rng
    # encode_length / read_length
    lens = set(BOUNDARY_LENGTHS) | {126, 129, 254, 257, 65534, 65537, 2 ** 24 - 1, 2 ** 24, 2 ** 32, 2 ** 63 - 1,
                                    2 ** 64, 256 ** 126 - 1, 256 ** 126, 256 ** 127 - 1, 256 ** 127}
    lens |= set(r.randrange(1 << r.choice([7, 8, 9, 16, 17, 24, 40, 64])) for _ in range(ctx.budget(30, 300)))
    for l in sorted(lens):
        e = run(d.encode_length, l)
        cs.add("encode_length", "res_eqb bytes_eqb (Ok (encode_length %s)) %s" % (qN(l), qr(e, qb)), l)
        if e[0] == "ok":
            for tail in (b"", rbytes(r, 3)):
                s = e[1] + tail
                cs.add("read_length", "res_eqb %s (read_length %s) %s" % (EQ_NN, qb(s), qr(run(d.read_length, s), q_NN)), s)
    for _ in range(ctx.budget(150, 2000)):
        s = rbytes(r, r.choice([0, 1, 1, 2, 2, 3, 4, 5, 9]))
        if s and r.random() < 0.6:
            s = bytes([r.choice([0x80, 0x81, 0x82, 0x83, 0x84, 0x7F, 0xFF, 0x00])]) + s[1:]
        if len(s) > 1 and r.random() < 0.4:
            s = s[:1] + bytes([r.choice([0, 0x7F, 0x80, 1])]) + s[2:]
        cs.add("read_length/malformed", "res_eqb %s (read_length %s) %s" % (EQ_NN, qb(s), qr(run(d.read_length, s), q_NN)), s)
    # integers
    ints = {0, 1, 0x7F, 0x80, 0xFF, 0x100, 0x7FFF, 0x8000, 0xFFFF, 0x10000, 2 ** 127, 2 ** 128 - 1, 2 ** 255, 2 ** 256 - 1,
            2 ** 520, 2 ** 521 - 1, 2 ** 1015, 2 ** 1016, 2 ** 1023, 2 ** 1024}
    ints |= set(r.getrandbits(r.choice([7, 8, 15, 16, 31, 32, 63, 64, 255, 256, 384, 521])) for _ in range(ctx.budget(40, 400)))
    for v in sorted(ints):
        e = run(d.encode_integer, v)
        cs.add("encode_integer", "res_eqb bytes_eqb (Ok (encode_integer %s)) %s" % (qN(v), qr(e, qb)), v)
        s = e[1] + r.choice([b"", rbytes(r, 2)])
        cs.add("remove_integer", "res_eqb %s (remove_integer %s) %s" % (EQ_NB, qb(s), qr(run(d.remove_integer, s), q_Nb)), s)
        for what, m in (malformed_stream(r, e[1])[:ctx.budget(8, 16)] if v % 3 == 0 or not ctx.quick() else []):
            cs.add("remove_integer/" + what, "res_eqb %s (remove_integer %s) %s" % (
                EQ_NB, qb(m), qr(run(d.remove_integer, m), q_Nb)), m)
    for body in (b"", b"\x00", b"\x00\x00", b"\x00\x7f", b"\x00\x80", b"\x80", b"\xff\xff", b"\x00\x00\x80", b"\x7f" * 130):
        for L in (len(body), len(body) + 1, max(0, len(body) - 1)):
            s = b"\x02" + d.encode_length(L) + body
            cs.add("remove_integer/crafted", "res_eqb %s (remove_integer %s) %s" % (
                EQ_NB, qb(s), qr(run(d.remove_integer, s), q_Nb)), s)
    # base-128 numbers
    nums = {0, 1, 127, 128, 129, 16383, 16384, 2 ** 21 - 1, 2 ** 21, 2 ** 32, 2 ** 64, 2 ** 70 - 1, 2 ** 200}
    nums |= set(r.getrandbits(r.choice([6, 7, 8, 14, 15, 21, 35, 64, 100])) for _ in range(ctx.budget(40, 400)))
    for v in sorted(nums):
        e = run(d.encode_number, v)
        cs.add("encode_number", "res_eqb bytes_eqb (Ok (encode_number %s)) %s" % (qN(v), qr(e, qb)), v)
        s = e[1] + r.choice([b"", rbytes(r, 2)])
        cs.add("read_number", "res_eqb %s (read_number %s) %s" % (EQ_NN, qb(s), qr(run(d.read_number, s), q_NN)), s)
    for _ in range(ctx.budget(80, 800)):
        s = bytes(r.choice([0x80, 0x81, 0xFF, 0x00, 0x7F, r.randrange(256)]) for _ in range(r.choice([0, 1, 2, 3, 5])))
        cs.add("read_number/malformed", "res_eqb %s (read_number %s) %s" % (EQ_NN, qb(s), qr(run(d.read_number, s), q_NN)), s)
    # object identifiers
    oids = [c.oid for c in I.curves.curves] + [I.util.oid_ecPublicKey, I.util.oid_ecDH, I.util.oid_ecMQV,
                                               I.curves.PRIME_FIELD_OID, I.curves.CHARACTERISTIC_TWO_FIELD_OID]
    oids += [(0, 0), (0, 39), (1, 0), (1, 39), (2, 0), (2, 39), (2, 40), (2, 47), (2, 48), (2, 999, 3), (2, 2 ** 64, 2 ** 70),
             (1, 2, 2 ** 32 - 1, 2 ** 32, 0, 127, 128, 16383, 16384), (0, 40), (1, 40), (3, 0), (3, 5), (2, 10 ** 30)]
    for _ in range(ctx.budget(20, 200)):
        first = r.choice([0, 1, 2])
        second = r.randrange(40) if first < 2 else r.getrandbits(r.choice([5, 8, 20]))
        oids.append((first, second) + tuple(r.getrandbits(r.choice([3, 7, 8, 14, 32, 70])) for _ in range(r.randrange(0, 7))))
    for o in oids:
        e = run(d.encode_oid, *o)
        cs.add("encode_oid", "res_eqb bytes_eqb (encode_oid_tuple %s) %s" % (qNl(o), qr(e, qb)), o)
        if e[0] != "ok":
            continue
        s = e[1] + r.choice([b"", rbytes(r, 2)])
        cs.add("remove_object", "res_eqb %s (remove_object %s) %s" % (
            EQ_OB, qb(s), qr(run(d.remove_object, s), lambda v: qpair(qNl(v[0]), qb(v[1])))), s)
        for what, m in (malformed_stream(r, e[1])[:ctx.budget(6, 16)] if len(o) % 2 or not ctx.quick() else []):
            cs.add("remove_object/" + what, "res_eqb %s (remove_object %s) %s" % (
                EQ_OB, qb(m), qr(run(d.remove_object, m), lambda v: qpair(qNl(v[0]), qb(v[1])))), m)
    for body in (b"", b"\x80", b"\x80\x01", b"\x2a\x80\x01", b"\x2a\x81", b"\x2a\xff\xff", b"\x81\x00", b"\x78", b"\x4f", b"\x50"):
        for L in (len(body), len(body) + 1):
            s = b"\x06" + d.encode_length(L) + body
            cs.add("remove_object/crafted", "res_eqb %s (remove_object %s) %s" % (
                EQ_OB, qb(s), qr(run(d.remove_object, s), lambda v: qpair(qNl(v[0]), qb(v[1])))), s)
    # sequences, octet strings, bit strings, constructed
    for n in sorted(set(BOUNDARY_LENGTHS) | {2, 126, 129, 300}):
        body = body_of_len(r, n)
        tail = r.choice([b"", b"\x05\x00"])
        e = d.encode_sequence(body[:n // 2], body[n // 2:])
        cs.add("encode_sequence", "bytes_eqb (encode_sequence [%s; %s]) %s" % (qb(body[:n // 2]), qb(body[n // 2:]), qb(e)), n)
        cs.add("remove_sequence", "res_eqb %s (remove_sequence %s) %s" % (
            EQ_BB, qb(e + tail), qr(run(d.remove_sequence, e + tail), q_bb)), n)
        e = d.encode_octet_string(body)
        cs.add("encode_octet_string", "bytes_eqb (encode_octet_string %s) %s" % (qb(body), qb(e)), n)
        cs.add("remove_octet_string", "res_eqb %s (remove_octet_string %s) %s" % (
            EQ_BB, qb(e + tail), qr(run(d.remove_octet_string, e + tail), q_bb)), n)
        for tag in (0, 1, 31, 95, 96):
            e2 = run(d.encode_constructed, tag, body)
            cs.add("encode_constructed", "res_eqb bytes_eqb (encode_constructed %s %s) %s" % (qN(tag), qb(body), qr(e2, qb)), (tag, n))
            if e2[0] == "ok":
                cs.add("remove_constructed", "res_eqb %s (remove_constructed %s) %s" % (
                    EQ_NBB, qb(e2[1] + tail), qr(run(d.remove_constructed, e2[1] + tail),
                                                 lambda v: "(%s, %s, %s)" % (qN(v[0]), qb(v[1]), qb(v[2])))), (tag, n))
        if n <= 300:
            for name, rem in (("remove_sequence", d.remove_sequence), ("remove_octet_string", d.remove_octet_string)):
                val = d.encode_sequence(body) if name == "remove_sequence" else d.encode_octet_string(body)
                for what, m in malformed_stream(r, val, extra_tags=(0x30, 0x04, 0x31))[:ctx.budget(12, 60)]:
                    cs.add(name + "/" + what, "res_eqb %s (%s %s) %s" % (EQ_BB, name, qb(m), qr(run(rem, m), q_bb)), m)
            val = d.encode_constructed(0, body)
            for what, m in malformed_stream(r, val, extra_tags=(0xA1, 0xBF, 0xC0, 0x80))[:ctx.budget(10, 60)]:
                cs.add("remove_constructed/" + what, "res_eqb %s (remove_constructed %s) %s" % (
                    EQ_NBB, qb(m), qr(run(d.remove_constructed, m), lambda v: "(%s, %s, %s)" % (qN(v[0]), qb(v[1]), qb(v[2])))), m)
    for s in (b"", b"\x30", b"\x04", b"\xa0", b"\x03", b"\x02", b"\x06", b"\x31\x00", b"\x30\x00", b"\x04\x00", b"\xa0\x00"):
        cs.add("is_sequence", "Bool.eqb (is_sequence %s) %s" % (qb(s), "true" if d.is_sequence(s) else "false"), s)
        cs.add("remove_sequence/short", "res_eqb %s (remove_sequence %s) %s" % (EQ_BB, qb(s), qr(run(d.remove_sequence, s), q_bb)), s)
        cs.add("remove_octet_string/short", "res_eqb %s (remove_octet_string %s) %s" % (EQ_BB, qb(s), qr(run(d.remove_octet_string, s), q_bb)), s)
        cs.add("remove_constructed/short", "res_eqb %s (remove_constructed %s) %s" % (
            EQ_NBB, qb(s), qr(run(d.remove_constructed, s), lambda v: "(%s, %s, %s)" % (qN(v[0]), qb(v[1]), qb(v[2])))), s)
    # bit strings in the three calling conventions
    import warnings
    modes = [("BsLegacy", None, True), ("BsNone", None, False)] + [("(BsInt %d)" % u, u, False) for u in (0, 1, 3, 7, 8, 9)]

    def q_bs(v, mode):
        body, rest = v
        if mode == "BsNone":
            return "(%s, Some %s, %s)" % (qb(body[0]), qN(body[1]), qb(rest))
        return "(%s, None, %s)" % (qb(body), qb(rest))
    with warnings.catch_warnings():
        warnings.simplefilter("ignore")
        bodies = [b"", b"\x00", b"\x01", b"\x80", b"\xf8", b"\x07\x80", b"\x08\x00", b"\x00" + rbytes(r, 5), rbytes(r, 65),
                  bytes(127), bytes(128), b"\x00" + bytes(255), b"\x03\xa8", b"\x03\xac", b"\x07", b"\x01\xfe", b"\x01\xff"]
        bodies += [rbytes(r, r.choice([1, 2, 3, 33, 65])) for _ in range(ctx.budget(3, 100))]
        if ctx.quick():
            bodies = bodies[::2] + bodies[-3:]
        for body in bodies:
            for mq, u, legacy in modes:
                e = run(d.encode_bitstring, body) if legacy else run(d.encode_bitstring, body, u)
                cs.add("encode_bitstring", "res_eqb bytes_eqb (encode_bitstring %s %s) %s" % (qb(body), mq, qr(e, qb)), (body, mq))
            raw = b"\x03" + d.encode_length(len(body)) + body
            variants = [raw, raw + b"\x00\x01", raw[:-1] if body else raw, b"\x03" + d.encode_length(len(body) + 1) + body]
            for s in variants:
                for mq, u, legacy in modes[:5]:
                    res = run(d.remove_bitstring, s) if legacy else run(d.remove_bitstring, s, u)
                    cs.add("remove_bitstring", "res_eqb %s (remove_bitstring %s %s) %s" % (
                        EQ_BOB, qb(s), mq, qr(res, lambda v: q_bs(v, mq))), (s, mq))
        for what, m in malformed_stream(r, d.encode_bitstring(b"\x04" + rbytes(r, 8), 0), extra_tags=(0x04, 0x23)):
            for mq, u, legacy in modes[:4]:
                res = run(d.remove_bitstring, m) if legacy else run(d.remove_bitstring, m, u)
                cs.add("remove_bitstring/" + what, "res_eqb %s (remove_bitstring %s %s) %s" % (
                    EQ_BOB, qb(m), mq, qr(res, lambda v: q_bs(v, mq))), (m, mq))
    # PEM framing with base64 factored out (identity): unpem(topem(x)) over the raw text
    for n in (0, 1, 63, 64, 65, 128, 200):
        payload = bytes(r.choice(b"ABCDEFGHIJKLMNOPQRSTUVWXYZabcdefghijklmnopqrstuvwxyz0123456789+/") for _ in range(n))
        lines = [b"-----BEGIN PUBLIC KEY-----\n"] + [payload[i:i + 64] + b"\n" for i in range(0, n, 64)] + [b"-----END PUBLIC KEY-----\n"]
        pem = b"".join(lines)
        cs.add("topem", "bytes_eqb (topem b64id %s PUBLIC_KEY_LABEL) %s" % (qb(payload), qb(pem)), n)
        for txt in (pem, pem.replace(b"\n", b"\r\n"), b"junk\n" + pem, pem + b"  trailing  \n\n", pem.replace(b"\n", b" \n\t", 2)):
            joined = b"".join(l.strip() for l in txt.split(b"\n") if l and not l.startswith(b"-----"))
            cs.add("unpem", "res_eqb bytes_eqb (unpem b64ok %s) (Ok %s)" % (qb(txt), qb(joined)), txt)


# ---------------------------------------------------------------------------
# correspondence: number/string codecs, points, curves, keys

def key_variants(r, c):
    """secret exponents: random, small, near the order, and with leading zero bytes"""
    n = c.order
    bl = c.baselen
    ks = [r.randrange(1, n), 1, 2, n - 1, r.randrange(1, 1 << (8 * (bl - 1))), r.randrange(1, 1 << (8 * (bl - 2) + 1))]
    return [k for k in ks if 1 <= k < n]


def find_leading_zero_point(r, c, tries):
    """a key whose public x or y has a leading zero byte (1 key in 128); None if not found in time"""
    I = impl()
    l = I.util.orderlen(c.curve.p())
    lim = 1 << (8 * (l - 1))
    pt = c.generator * r.randrange(1, c.order)
    g = c.generator
    for i in range(tries):
        a = pt.to_affine()
        if a.x() < lim or a.y() < lim:
            return a
        pt = pt + g
    return None


def corr_keys(ctx, cs):
    I = impl()
    r = ctx.rng
    u, K, Cv = I.util, I.keys, I.curves
    # util
    orders = [0, 1, 255, 256, 65535, 65536] + [c.order for c in I.W] + [c.curve.p() for c in I.W] + [2 ** 521 - 1, 2 ** 8 - 1, 2 ** 16]
    if ctx.quick():
        orders = orders[:6] + r.sample(orders[6:], 8)
    for o in orders:
        cs.add("orderlen", "N.eqb (orderlen %s) %s" % (qN(o), qN(u.orderlen(o))), o)
        l = u.orderlen(o)
        for v in (0, 1, o, max(0, o - 1), o + 1, 256 ** l - 1, 256 ** l, 16 * 256 ** l - 1, 16 * 256 ** l, 256 ** (l + 1),
                  r.getrandbits(8 * l), r.getrandbits(max(1, 8 * l - 9))):
            cs.add("number_to_string", "res_eqb bytes_eqb (number_to_string %s %s) %s" % (
                qN(v), qN(o), qr(run(u.number_to_string, v, o), qb)), (v, o))
            cs.add("number_to_string_crop", "res_eqb bytes_eqb (number_to_string_crop %s %s) %s" % (
                qN(v), qN(o), qr(run(u.number_to_string_crop, v, o), qb)), (v, o))
        for s in (b"", bytes(l), rbytes(r, l), rbytes(r, l + 1), rbytes(r, max(0, l - 1)), b"\x00" + rbytes(r, max(0, l - 1))):
            cs.add("string_to_number", "res_eqb N.eqb (string_to_number %s) %s" % (qb(s), qr(run(u.string_to_number, s), qN)), s)
            cs.add("string_to_number_fixedlen", "res_eqb N.eqb (string_to_number_fixedlen %s %s) %s" % (
                qb(s), qN(o), qr(run(u.string_to_number_fixedlen, s, o), qN)), (s, o))
    # curves: to_der / from_der
    for c in I.W:
        for ce in (None, "named_curve", "explicit"):
            for pe in ("uncompressed", "compressed", "hybrid", "raw"):
                if ce != "explicit" and pe != "uncompressed":
                    continue
                e = run(c.to_der, ce, pe)
                cs.add("curve_to_der", "res_eqb bytes_eqb (curve_to_der %s %s %s) %s" % (q_curve(c), CENC[ce], PENC[pe], qr(e, qb)),
                       (c.name, ce, pe))
                if e[0] != "ok":
                    continue
                streams = [("valid", e[1])]
                if c.name in HEAVY:
                    streams += malformed_stream(r, e[1])[:ctx.budget(8, 50)]
                    streams += [("mut", m) for _, _, m in mutations(e[1], r, ctx.budget(12, 200))]
                for what, s in streams:
                    for ven, vex in ((True, True), (True, False), (False, True)):
                        if (what != "valid" or c.name not in HEAVY) and not (ven and vex):
                            continue
                        with Recorder() as rec:
                            res = run(Cv.Curve.from_der, s, [x for x, ok in (("named_curve", ven), ("explicit", vex)) if ok])
                        if rec.unmodelled or not in_enum(res):
                            ctx.dist["skipped:unmodelled"] += 1
                            continue
                        cs.add("curve_from_der/" + what, "res_eqb cref_same (CFD %s %s %s %s) %s" % (
                            rec.q_sqrt(), qb(s), "true" if ven else "false", "true" if vex else "false", qr(res, q_cref)),
                            (c.name, s, ven, vex), res)
    # points and verifying keys
    for c in I.W:
        p = int(c.curve.p())
        pts = []
        for k in key_variants(r, c)[:ctx.budget(1, 3)]:
            a = (c.generator * k).to_affine()
            pts.append((int(a.x()), int(a.y()), "rand"))
        lz = find_leading_zero_point(r, c, 300)
        if lz is not None:
            pts.append((int(lz.x()), int(lz.y()), "leading-zero"))
        pts.append((r.randrange(p), r.randrange(p), "off-curve"))
        if c.name in HEAVY or not ctx.quick():
            pts.append((int(c.generator.x()), int(c.generator.y()), "generator"))
            pts.append((0, 1, "zero-x"))
            pts.append((p, 1, "x=p"))
            pts.append((256 ** u.orderlen(p), 1, "too-wide"))
        for x, y, kind in pts:
            for pe in ("raw", "uncompressed", "compressed", "hybrid"):
                pt = I.ec.PointJacobi(c.curve, x, y, 1)
                e = run(pt.to_bytes, pe)
                cs.add("point_to_bytes", "res_eqb bytes_eqb (point_to_bytes %s %s %s %s) %s" % (
                    qN(p), qN(x), qN(y), PENC[pe], qr(e, qb)), (c.name, x, y, pe))
                if e[0] != "ok":
                    continue
                streams = [("valid", e[1])]
                if kind in ("rand", "leading-zero"):
                    streams += [("trunc", e[1][:-1]), ("trunc", e[1][:1]), ("ext", e[1] + b"\x00"), ("empty", b"")]
                    streams += [("mut", m) for _, _, m in mutations(e[1], r, ctx.budget(8, 32))]
                    if pe == "hybrid":
                        streams.append(("hybrid-parity", bytes([e[1][0] ^ 1]) + e[1][1:]))
                for what, s in streams:
                    for ve in (None, ("raw",), ("uncompressed",), ("compressed",), ("hybrid",), ("uncompressed", "hybrid")):
                        if ve is not None and (what not in ("valid", "hybrid-parity") or kind not in ("rand", "off-curve")
                                               or (ctx.quick() and c.name not in HEAVY)):
                            continue
                        for validate in (True, False):
                            if not validate and (what not in ("valid", "hybrid-parity") or ve is not None):
                                continue
                            with Recorder() as rec:
                                res = run(K.VerifyingKey.from_string, s, c, validate_point=validate, valid_encodings=ve)
                            if rec.unmodelled or not in_enum(res):
                                ctx.dist["skipped:unmodelled"] += 1
                                continue
                            ves = "encs_all" if ve is None else "(mkEncs %s %s %s %s)" % tuple(
                                "true" if n in ve else "false" for n in ("raw", "uncompressed", "compressed", "hybrid"))
                            cs.add("vk_from_string/%s/%s" % (pe, what), "res_eqb vkey_same (VKS %s %s %s %s %s %s) %s" % (
                                rec.q_sqrt(), rec.q_mul(), q_cref(c), qb(s), "true" if validate else "false", ves, qr(res, q_vk)),
                                (c.name, s, validate, ve), res)
    # verifying / signing keys through DER
    for c in I.W:
        heavy_curve = c.name in HEAVY
        for k in key_variants(r, c)[:ctx.budget(2 if heavy_curve else 1, 3)]:
            sk = K.SigningKey.from_secret_exponent(k, c)
            vk = sk.verifying_key
            x, y = int(vk.pubkey.point.x()), int(vk.pubkey.point.y())
            combos = [("uncompressed", None), ("compressed", None), ("hybrid", "named_curve"), ("uncompressed", "explicit"),
                      ("compressed", "explicit"), ("raw", None)]
            if ctx.quick() and not heavy_curve:
                combos = [("uncompressed", None), ("compressed", "explicit"), ("hybrid", "named_curve")]
            for pe, ce in combos:
                e = run(vk.to_der, pe, ce)
                cs.add("vk_to_der", "res_eqb bytes_eqb (vk_to_der %s %s %s %s %s) %s" % (
                    q_curve(c), qN(x), qN(y), PENC[pe], CENC[ce], qr(e, qb)), (c.name, k, pe, ce))
                if e[0] == "ok":
                    corr_from_der(ctx, cs, "vk", c, e[1], heavy=heavy_curve)
                for fmt in ("ssleay", "pkcs8"):
                    e = run(sk.to_der, pe, fmt, ce)
                    cs.add("sk_to_der", "res_eqb bytes_eqb (sk_to_der %s %s %s %s %s %s %s) %s" % (
                        q_curve(c), qN(k), qN(x), qN(y), PENC[pe], "Ssleay" if fmt == "ssleay" else "Pkcs8", CENC[ce], qr(e, qb)),
                        (c.name, k, pe, fmt, ce))
                    if e[0] == "ok" and (pe, ce) in (("uncompressed", None), ("compressed", "explicit")):
                        corr_from_der(ctx, cs, "sk", c, e[1], heavy=heavy_curve)
            # raw private strings
            s = sk.to_string()
            cs.add("sk_to_string", "res_eqb bytes_eqb (sk_to_string %s %s) (Ok %s)" % (q_curve(c), qN(k), qb(s)), (c.name, k))
            nn, bl = int(c.order), c.baselen
            edge = [("scalar=%s" % nm, v.to_bytes(bl, "big")) for nm, v in (("1", 1), ("n-1", nn - 1), ("n", nn), ("n+1", nn + 1))
                    if v < 1 << (8 * bl)]
            for what, m in [("valid", s), ("trunc", s[:-1]), ("ext", s + b"\x00"), ("zero", bytes(len(s))), ("ff", b"\xff" * len(s)),
                            ("empty", b"")] + edge:
                with Recorder() as rec:
                    res = run(K.SigningKey.from_string, m, c)
                if rec.unmodelled or not in_enum(res):
                    continue
                cs.add("sk_from_string/" + what, "res_eqb skey_same (SKS %s %s %s) %s" % (rec.q_mul(), q_cref(c), qb(m), qr(res, q_sk)),
                       (c.name, m), res)
    # private keys at and beyond the ends of the scalar range, through SEC1 and PKCS#8
    for c in I.W:
        nn, bl = int(c.order), c.baselen
        top = K.SigningKey.from_secret_exponent(nn - 1, c)
        raw = top.to_string()
        for fmt in ("ssleay", "pkcs8"):
            der0 = top.to_der(format=fmt)
            for nm, v in (("0", 0), ("1", 1), ("n-1", nn - 1), ("n", nn), ("n+1", nn + 1), ("max", (1 << (8 * bl)) - 1)):
                if v >= 1 << (8 * bl) or raw not in der0:
                    continue
                m = der0.replace(raw, v.to_bytes(bl, "big"), 1)
                with Recorder() as rec:
                    res = run(K.SigningKey.from_der, m)
                if rec.unmodelled or not in_enum(res):
                    ctx.dist["skipped:unmodelled"] += 1
                    continue
                cs.add("sk_from_der/scalar=%s" % nm, "res_eqb skey_same (SKD %s %s %s true true) %s" % (
                    rec.q_sqrt(), rec.q_mul(), qb(m), qr(res, q_sk)), (c.name, fmt, nm), res)
    # bec2format raw format through the plug-in (P-256 only)
    P = I.plugin.PublicEccKeyProxy
    c = Cv.NIST256p
    for k in key_variants(r, c) + [r.randrange(1, c.order) for _ in range(ctx.budget(4, 40))]:
        vk = K.SigningKey.from_secret_exponent(k, c).verifying_key
        raw = vk.to_string()
        variants = [("valid", raw), ("trunc", raw[:-1]), ("ext", raw + b"\x00"), ("empty", b""), ("half", raw[:32])]
        variants += [("mut", m) for _, _, m in mutations(raw, r, 8)]
        for what, s in variants:
            with Recorder() as rec:
                res = run(lambda b: P.create_from_raw_fmt(b).public_key, s)
            if rec.unmodelled or not in_enum(res):
                continue
            cs.add("create_from_raw_fmt/" + what, "res_eqb vkey_same (RAWK %s %s der_header %s) %s" % (
                rec.q_sqrt(), rec.q_mul(), qb(s), qr(res, q_vk)), s, res)
        out = P(vk).to_raw_bin_fmt()
        cs.add("to_raw_bin_fmt", "res_eqb bytes_eqb (to_raw_bin_fmt der_header_len %s %s %s) (Ok %s)" % (
            q_curve(c), qN(int(vk.pubkey.point.x())), qN(int(vk.pubkey.point.y())), qb(out)), k)


def corr_from_der(ctx, cs, which, c, valid, heavy):
    """valid + malformed stream of one DER key file against the model"""
    I = impl()
    r = ctx.rng
    streams = [("valid", valid)]
    n = len(valid)
    cuts = {0, 1, n - 1} | set(r.randrange(n) for _ in range(ctx.budget(2, 6)))
    streams += [("trunc", valid[:k]) for k in sorted(cuts) if k < n]
    streams += [("ext", valid + b"\x00"), ("ext", valid + rbytes(r, 3))]
    streams += [("mut", m) for _, _, m in mutations(valid, r, ctx.budget(24 if heavy else 6, 100 if heavy else 16))]
    for what, s in streams:
        variants = [(True, True)]
        if what == "valid":
            variants += [(True, False), (False, True)]
        for ven, vex in variants:
            vce = [x for x, ok in (("named_curve", ven), ("explicit", vex)) if ok]
            with Recorder() as rec:
                if which == "vk":
                    res = run(I.keys.VerifyingKey.from_der, s, valid_curve_encodings=vce)
                else:
                    res = run(I.keys.SigningKey.from_der, s, valid_curve_encodings=vce)
            if rec.unmodelled or not in_enum(res):
                ctx.dist["skipped:unmodelled"] += 1
                continue
            if res[0] == "ok" and res[1].curve.name in ED_NAMES:
                ctx.dist["skipped:edwards"] += 1
                continue
            b = lambda v: "true" if v else "false"   # noqa
            if which == "vk":
                expr = "res_eqb vkey_same (VKD %s %s %s None %s %s) %s" % (rec.q_sqrt(), rec.q_mul(), qb(s), b(ven), b(vex), qr(res, q_vk))
            else:
                expr = "res_eqb skey_same (SKD %s %s %s %s %s) %s" % (rec.q_sqrt(), rec.q_mul(), qb(s), b(ven), b(vex), qr(res, q_sk))
            cs.add("%s_from_der/%s" % (which, what), expr, (c.name, s, ven, vex), res)
            ctx.dist["%s_from_der->%s" % (which, res[1] if res[0] == "err" else "ok")] += 1


def correspondence(ctx):
    correspondence_codecs(ctx)
    # numbertheory.py (jacobi, polynomial_*, square_root_mod_prime) and compressed points decoded
    # through the model's own square root
    c19_numtheory.correspondence_nt(ctx, canon, impl, q_curve, qb, Recorder)


def correspondence_codecs(ctx):
    cs = Cases(ctx)
    t0 = time.time()
    corr_der(ctx, cs)
    n_der = len(cs.exprs)
    corr_keys(ctx, cs)
    ctx.extra["correspondence_impl_s"] = round(time.time() - t0, 1)
    if not ctx.brokens:
        # the model is evaluated by coqc (10-30 ms per key-level case): keep at most CAP cases of
        # every category (category = operation / kind of input), chosen by the seeded PRNG
        by_cat = {}
        for i, d in enumerate(cs.descr):
            by_cat.setdefault(d[0], []).append(i)
        keep = []
        for cat in sorted(by_cat):
            idx = by_cat[cat]
            cap = ctx.budget(30, 500) if idx[0] >= n_der else ctx.budget(40, 800)
            keep += idx if len(idx) <= cap else ctx.rng.sample(idx, cap)
        keep.sort()
        cs.exprs = [cs.exprs[i] for i in keep]
        cs.descr = [cs.descr[i] for i in keep]
        ctx.extra["correspondence_generated"] = sum(len(v) for v in by_cat.values())
    ctx.sample({"op": cs.descr[len(cs.descr) // 3][0], "input": cs.descr[len(cs.descr) // 3][1]})
    ctx.sample({"op": cs.descr[-1][0], "input": cs.descr[-1][1]})
    shard = max(100, min(400, -(-len(cs.exprs) // vlib.NPROC)))     # one wave of coqc processes when possible
    bad = ctx.coq_eval("c19", IMPORTS, cs.exprs, preamble=PREAMBLE, shard=shard)
    if bad is None:
        return
    ctx.traces += len(cs.exprs)
    for what, data, _ in cs.descr:
        ctx.case((what, data), trivial=(data in (b"", 0, ())))
        ctx.dist[what] += 1
    ctx.extra["correspondence_total_s"] = round(time.time() - t0, 1)
    for i in bad[:10]:
        what, data, res = cs.descr[i]
        ctx.broken("correspondence: Model.Der / Model.KeyCodec differs from the implementation on %s" % what,
                   {"case": repr(data)[:1500], "impl": repr(res)[:300], "expr": cs.exprs[i][:1500]})


# ---------------------------------------------------------------------------
# search: the property predicate on the real implementation

# -- an independent, strict DER encoder / parser (X.690), used as the oracle for the bytes

def d_len(n):
    if n < 0x80:
        return bytes([n])
    s = n.to_bytes((n.bit_length() + 7) // 8, "big")
    return bytes([0x80 | len(s)]) + s


def d_tlv(tag, body):
    return bytes([tag]) + d_len(len(body)) + body


def d_int(v):
    s = v.to_bytes(v.bit_length() // 8 + 1, "big")      # always a leading sign bit of 0
    return d_tlv(0x02, s)


def d_oid(t):
    def b128(n):
        out = [n & 0x7F]
        n >>= 7
        while n:
            out.insert(0, (n & 0x7F) | 0x80)
            n >>= 7
        return bytes(out)
    return d_tlv(0x06, b"".join(b128(x) for x in (40 * t[0] + t[1],) + tuple(t[2:])))


def d_parse(b, depth=0):
    """strict DER parse into [(tag, header_len, content, children-or-None)]; raises ValueError"""
    out = []
    i = 0
    while i < len(b):
        tag = b[i]
        if i + 1 >= len(b):
            raise ValueError("cut in header")
        l0 = b[i + 1]
        if l0 < 0x80:
            n, h = l0, 2
        else:
            k = l0 & 0x7F
            if k == 0 or i + 2 + k > len(b):
                raise ValueError("bad length")
            n, h = int.from_bytes(b[i + 2:i + 2 + k], "big"), 2 + k
            if n < 0x80 or b[i + 2] == 0:
                raise ValueError("non-minimal length")
        if i + h + n > len(b):
            raise ValueError("cut in content")
        content = b[i + h:i + h + n]
        kids = None
        if tag & 0x20:
            kids = d_parse(content, depth + 1)
        elif tag == 0x04 and depth < 3 and content[:1] == b"\x30":
            try:
                kids = d_parse(content, depth + 1)       # PKCS#8: OCTET STRING wrapping ECPrivateKey
            except ValueError:
                kids = None
        out.append((tag, h, content, kids))
        i += h + n
    return out


def d_build(nodes):
    return b"".join(d_tlv(t, d_build(k) if k is not None else c) for t, _, c, k in nodes)


def structural_variants(der):
    """delete / empty / shorten each element of a DER tree, with all enclosing lengths made consistent"""
    try:
        tree = d_parse(der)
    except ValueError:
        return
    paths = []

    def walk(nodes, path):
        for i, (t, h, c, k) in enumerate(nodes):
            paths.append(path + (i,))
            if k is not None:
                walk(k, path + (i,))
    walk(tree, ())

    def edit(nodes, path, fn):
        nodes = list(nodes)
        i = path[0]
        t, h, c, k = nodes[i]
        if len(path) == 1:
            rep = fn(nodes[i])
            nodes[i:i + 1] = rep
        else:
            nodes[i] = (t, h, c, edit(k, path[1:], fn))
        return nodes
    for p in paths:
        yield "delete%s" % (p,), d_build(edit(tree, p, lambda n: []))
        yield "empty%s" % (p,), d_build(edit(tree, p, lambda n: [(n[0], n[1], b"", None)]))
        yield "cut%s" % (p,), d_build(edit(tree, p, lambda n: [(n[0], n[1], (d_build(n[3]) if n[3] is not None else n[2])[:-1], None)]))
        yield "dup%s" % (p,), d_build(edit(tree, p, lambda n: [n, n]))


# -- the expected bytes of every encoding, from RFC 5480 / SEC1 / RFC 5915 / RFC 5958

OID_EC_PUBLIC_KEY = (1, 2, 840, 10045, 2, 1)
OID_PRIME_FIELD = (1, 2, 840, 10045, 1, 1)


def flen(p):
    return (p.bit_length() + 7) // 8


def spec_point(c, x, y, enc):
    l = flen(int(c.curve.p()))
    xs, ys = x.to_bytes(l, "big"), y.to_bytes(l, "big")
    if enc == "raw":
        return xs + ys
    if enc == "uncompressed":
        return b"\x04" + xs + ys
    if enc == "hybrid":
        return bytes([6 + (y & 1)]) + xs + ys
    return bytes([2 + (y & 1)]) + xs


def spec_params(c, ce, pe="uncompressed"):
    if ce in (None, "named_curve"):
        return d_oid(c.oid)
    p = int(c.curve.p())
    l = flen(p)
    els = [d_int(1), d_tlv(0x30, d_oid(OID_PRIME_FIELD) + d_int(p)),
           d_tlv(0x30, d_tlv(0x04, (int(c.curve.a()) % p).to_bytes(l, "big")) + d_tlv(0x04, (int(c.curve.b()) % p).to_bytes(l, "big"))),
           d_tlv(0x04, spec_point(c, int(c.generator.x()), int(c.generator.y()), pe)), d_int(int(c.order))]
    if c.curve.cofactor():
        els.append(d_int(int(c.curve.cofactor())))
    return d_tlv(0x30, b"".join(els))


def spec_spki(c, x, y, pe, ce):
    return d_tlv(0x30, d_tlv(0x30, d_oid(OID_EC_PUBLIC_KEY) + spec_params(c, ce, pe)) + d_tlv(0x03, b"\x00" + spec_point(c, x, y, pe)))


def spec_sec1(c, k, x, y, pe, ce, with_params=True):
    body = d_int(1) + d_tlv(0x04, k.to_bytes(flen(int(c.order)), "big"))
    if with_params:
        body += d_tlv(0xA0, spec_params(c, ce))
    body += d_tlv(0xA1, d_tlv(0x03, b"\x00" + spec_point(c, x, y, pe)))
    return d_tlv(0x30, body)


def spec_pkcs8(c, k, x, y, pe, ce):
    return d_tlv(0x30, d_int(1) + d_tlv(0x30, d_oid(OID_EC_PUBLIC_KEY) + spec_params(c, ce)) +
                 d_tlv(0x04, spec_sec1(c, k, x, y, pe, ce, with_params=False)))


def spec_pem(der, label):
    b64 = base64.b64encode(der)
    return (b"-----BEGIN " + label + b"-----\n" + b"".join(b64[i:i + 64] + b"\n" for i in range(0, len(b64), 64)) +
            b"-----END " + label + b"-----\n")


def key_facts(k):
    """public point (and secret exponent) of a key object, as decimal strings"""
    vk = getattr(k, "verifying_key", k)
    vk = getattr(vk, "public_key", vk)
    out = {"public": [str(int(vk.pubkey.point.x())), str(int(vk.pubkey.point.y()))], "curve": vk.curve.name}
    if hasattr(k, "privkey"):
        out["secexp"] = str(int(k.privkey.secret_multiplier))
    return out


class Searcher:
    def __init__(self, ctx):
        self.ctx = ctx
        self.I = impl()
        self.r = ctx.rng
        self.per_kind = {}
        self.counts = {}
        scale = 3 if ctx.brokens else 1
        self.t_end = time.time() + ctx.budget(30, 420) * scale

    def time_left(self):
        return self.t_end - time.time()

    def fail(self, kind, data, detail=""):
        n = self.per_kind.get(kind, 0)
        self.per_kind[kind] = n + 1
        if n < 3:
            self.ctx.fail(kind, data, detail)

    def count(self, what):
        self.counts[what] = self.counts.get(what, 0) + 1

    def probe(self, decoder, f, data, expect, how, curve=None, same=None):
        """run one decoder on one input.  expect: 'reject' (must raise a documented error),
        'any' (documented error or some key), 'same' (must return a key equal to `same`)"""
        self.ctx.case((decoder, data), trivial=(len(data) == 0))
        self.count("%s:%s" % (decoder, how.split(" ")[0]))
        info = {"decoder": decoder, "curve": curve, "input": data, "how": how}
        if expect == "same":
            info["expected"] = key_facts(same)
        try:
            res = f(data)
        except Exception as e:    # noqa
            if not isinstance(e, self.I.documented):
                info["exception"] = type(e).__name__
                self.fail("undocumented-error:%s:%s" % (type(e).__name__, decoder), info,
                          "%s raised %s(%s) on %s" % (decoder, type(e).__name__, str(e)[:80], how))
            elif expect == "same":
                info["exception"] = type(e).__name__
                self.fail("roundtrip-raises:%s" % decoder, info, "%s: %s" % (type(e).__name__, str(e)[:120]))
            return None
        if expect == "reject":
            self.fail("%s-accepted:%s" % (how.split(" ")[0], decoder), info, "returned %r" % (res,))
        elif expect == "same" and not (res == same):
            self.fail("roundtrip-differs:%s" % decoder, info, "decoded key differs from the encoded one")
        elif expect == "any":
            why = self.invalid_key(res)
            if why:
                self.fail("invalid-key-accepted:%s" % decoder, info, why)
        return res

    def invalid_key(self, res):
        """a decoder that returns a key must return a valid one: public point in range and on its curve,
        secret exponent in 1..n-1 (checked here with plain integer arithmetic)"""
        K = self.I.keys
        vk = res if isinstance(res, K.VerifyingKey) else getattr(res, "verifying_key", None)
        if isinstance(res, self.I.plugin.PublicEccKeyProxy):
            vk = res.public_key
        if not isinstance(vk, K.VerifyingKey) or vk.curve.name in ED_NAMES:
            return None
        cv = vk.curve.curve
        p, a, b = int(cv.p()), int(cv.a()), int(cv.b())
        x, y = int(vk.pubkey.point.x()), int(vk.pubkey.point.y())
        if isinstance(res, K.SigningKey):
            k = int(res.privkey.secret_multiplier)
            if not 1 <= k < int(res.curve.order):
                return "secret exponent %d is not in 1..n-1" % k
            return None      # SigningKey.from_der does not validate the embedded public key (it recomputes it)
        if not (0 <= x < p and 0 <= y < p):
            return "public point coordinate out of range"
        if (y * y - (x * x * x + a * x + b)) % p != 0:
            return "public point (%d, %d) is not on the curve" % (x, y)
        return None

    # -- keys ------------------------------------------------------------------------------

    def keys_for(self, c, n_rand):
        K, r = self.I.keys, self.r
        n, bl = int(c.order), c.baselen
        out = []
        for _ in range(n_rand):
            out.append(("random", r.randrange(1, n)))
        out.append(("leading-zero-scalar", r.randrange(1, 1 << (8 * (bl - 1)))))
        out.append(("two-leading-zero-bytes-scalar", r.randrange(1, 1 << (8 * (bl - 2)))))
        lz = self.leading_zero_key(c)
        if lz is not None:
            out.append(("leading-zero-coordinate", lz))
        return [(kind, K.SigningKey.from_secret_exponent(k, c)) for kind, k in out if 1 <= k < n]

    def leading_zero_key(self, c):
        """secret exponent whose public x or y starts with a zero byte (1 in 128): walk k, k+1, ..."""
        l = flen(int(c.curve.p()))
        lim = 1 << (8 * (l - 1))
        k = self.r.randrange(1, int(c.order) - 2000)
        pt = c.generator * k
        g = c.generator
        tries = self.ctx.budget(400, 1500)
        for i in range(tries):
            a = pt.to_affine()
            if a.x() < lim or a.y() < lim:
                self.ctx.dist["leading-zero-coordinate key found"] += 1
                return k + i
            pt = pt + g
        return None

    # -- one key through every encoding ----------------------------------------------------------

    def encodings_of(self, c, sk):
        """[(label, decoder name, decode fn, bytes, expected bytes, key to compare with)]"""
        K = self.I.keys
        vk = sk.verifying_key
        k = int(sk.privkey.secret_multiplier)
        x, y = int(vk.pubkey.point.x()), int(vk.pubkey.point.y())
        out = []
        for pe in ("raw", "uncompressed", "compressed", "hybrid"):
            out.append(("point/%s" % pe, "VerifyingKey.from_string[%s]" % pe,
                        (lambda b, pe=pe: K.VerifyingKey.from_string(b, c, valid_encodings=[pe])),
                        vk.to_string(pe), spec_point(c, x, y, pe), vk))
        out.append(("privstring", "SigningKey.from_string", (lambda b: K.SigningKey.from_string(b, c)),
                    sk.to_string(), k.to_bytes(flen(int(c.order)), "big"), sk))
        for pe in ("uncompressed", "compressed", "hybrid"):
            for ce in ("named_curve", "explicit"):
                out.append(("spki/%s/%s" % (pe, ce), "VerifyingKey.from_der", K.VerifyingKey.from_der,
                            vk.to_der(pe, ce), spec_spki(c, x, y, pe, ce), vk))
                out.append(("sec1/%s/%s" % (pe, ce), "SigningKey.from_der", K.SigningKey.from_der,
                            sk.to_der(pe, "ssleay", ce), spec_sec1(c, k, x, y, pe, ce), sk))
                out.append(("pkcs8/%s/%s" % (pe, ce), "SigningKey.from_der", K.SigningKey.from_der,
                            sk.to_der(pe, "pkcs8", ce), spec_pkcs8(c, k, x, y, pe, ce), sk))
        return out

    def pems_of(self, c, sk):
        K = self.I.keys
        vk = sk.verifying_key
        k = int(sk.privkey.secret_multiplier)
        x, y = int(vk.pubkey.point.x()), int(vk.pubkey.point.y())
        out = []
        for pe, ce in (("uncompressed", "named_curve"), ("compressed", "explicit")):
            out.append(("pem-spki/%s/%s" % (pe, ce), "VerifyingKey.from_pem", K.VerifyingKey.from_pem,
                        vk.to_pem(pe, ce), spec_pem(spec_spki(c, x, y, pe, ce), b"PUBLIC KEY"), vk))
            out.append(("pem-sec1/%s/%s" % (pe, ce), "SigningKey.from_pem", K.SigningKey.from_pem,
                        sk.to_pem(pe, "ssleay", ce), spec_pem(spec_sec1(c, k, x, y, pe, ce), b"EC PRIVATE KEY"), sk))
            out.append(("pem-pkcs8/%s/%s" % (pe, ce), "SigningKey.from_pem", K.SigningKey.from_pem,
                        sk.to_pem(pe, "pkcs8", ce), spec_pem(spec_pkcs8(c, k, x, y, pe, ce), b"PRIVATE KEY"), sk))
        return out

    def roundtrip_and_bytes(self, c, kind, label, dec, f, enc, want, key):
        if enc != want:
            sk = key if hasattr(key, "privkey") else getattr(self, "cur_sk", None)
            self.fail("encoding-bytes:%s" % label.split("/")[0],
                      {"curve": c.name, "key": kind, "encoding": label, "got": enc, "expected": want,
                       "secexp": str(int(sk.privkey.secret_multiplier)) if sk is not None else None,
                       "public": [str(int(getattr(key, "verifying_key", key).pubkey.point.x())),
                                  str(int(getattr(key, "verifying_key", key).pubkey.point.y()))]},
                      "%s of a %s key on %s differs from the independent DER/SEC1 encoder" % (label, kind, c.name))
        self.probe(dec, f, enc, "same", "roundtrip %s (%s key)" % (label, kind), c.name, same=key)

    def truncations_extensions(self, c, label, dec, f, enc, step=1):
        for k in range(0, len(enc), step):
            self.probe(dec, f, enc[:k], "reject", "truncation to %d of %d bytes of %s" % (k, len(enc), label), c.name)
        for ext in (b"\x00", b"\x30", bytes([self.r.randrange(256)]), enc[-1:] * 2, b"\x00" * 16):
            self.probe(dec, f, enc + ext, "reject", "extension by %d bytes of %s" % (len(ext), label), c.name)

    def mutate(self, c, label, dec, f, enc, fraction=1.0, sk=None):
        K = self.I.keys
        idx = list(range(len(enc)))
        if fraction < 1.0:
            head = idx[:12]
            rest = idx[12:]
            self.r.shuffle(rest)
            idx = sorted(head + rest[:max(4, int(len(rest) * fraction))])
        for i in idx:
            if self.time_left() < 0:
                self.ctx.dist["mutation pass cut short by the time budget"] += 1
                return False
            for name, v in (("xor01", enc[i] ^ 1), ("xor80", enc[i] ^ 0x80), ("set00", 0), ("setFF", 0xFF)):
                if v != enc[i]:
                    m = enc[:i] + bytes([v]) + enc[i + 1:]
                    res = self.probe(dec, f, m, "any", "mutation %s at %d of %s" % (name, i, label), c.name)
                    if res is not None and sk is not None and isinstance(res, K.SigningKey) and res.curve == sk.curve and \
                            res.privkey.secret_multiplier != sk.privkey.secret_multiplier:
                        # "extended encodings are always rejected": the privateKey OCTET STRING of the accepted input must
                        # not be LONGER than the curve's scalar (shorter strings are left-padded by design; a change inside
                        # the key bytes legitimately gives another key)
                        L = len(sk.to_string())
                        at = enc.find(sk.to_string())
                        if at >= 2 and m[at - 2] == 0x04 and m[at - 1] < 0x80 and m[at - 1] > L:
                            self.fail("extended-private-key-accepted:%s" % dec,
                                      {"decoder": dec, "curve": c.name, "input": m, "how": "mutation %s at %d of %s" % (name, i, label)},
                                      "privateKey OCTET STRING of %d bytes (scalar size %d) is accepted and decodes to another private key (%x)"
                                      % (m[at - 1], L, res.privkey.secret_multiplier))
        return True


def all_point_encodings_check(S, c, vk):
    """with every encoding enabled (the default): a truncated / extended string is rejected unless its
    length is that of another encoding (the formats are told apart by length only)"""
    K = S.I.keys
    l = flen(int(c.curve.p()))
    lens = {2 * l, 2 * l + 1, l + 1}
    f = lambda b: K.VerifyingKey.from_string(b, c)    # noqa
    hyb = vk.to_string("hybrid")
    S.probe("VerifyingKey.from_string", f, bytes([hyb[0] ^ 1]) + hyb[1:], "reject",
            "inconsistent-hybrid (tag %02x with the other parity of y)" % (hyb[0] ^ 1), c.name)
    for pe in ("raw", "uncompressed", "compressed", "hybrid"):
        s = vk.to_string(pe)
        S.probe("VerifyingKey.from_string", f, s, "same", "roundtrip point/%s (all encodings enabled)" % pe, c.name, same=vk)
        def expect(b):
            # the formats are told apart by length AND leading byte: X9.62 compressed = 02/03 + X, uncompressed = 04 + X + Y,
            # hybrid = 06/07 + X + Y, raw = X + Y; any other leading byte for that length is no encoding at all
            if len(b) == 2 * l:
                return "any"
            if len(b) == l + 1:
                return "any" if b[0] in (2, 3) else "reject"
            if len(b) == 2 * l + 1:
                return "any" if b[0] in (4, 6, 7) else "reject"
            return "reject"
        for k in range(len(s)):
            S.probe("VerifyingKey.from_string", f, s[:k], expect(s[:k]),
                    "truncation to %d of %d bytes of point/%s" % (k, len(s), pe), c.name)
        for ext in (b"\x00", b"\x04" * 2, b"\x00" * l):
            S.probe("VerifyingKey.from_string", f, s + ext, expect(s + ext),
                    "extension by %d bytes of point/%s" % (len(ext), pe), c.name)
        if pe != "raw":
            # every other leading byte on the otherwise unchanged string
            for tag in (0, 1, 2, 3, 4, 5, 6, 7, 8, 0x0A, 0x0B, 0x0E, 0x0F, 0x12, 0x42, 0x82, 0x83, 0x84, 0x86, 0xFF):
                if tag != s[0]:
                    m = bytes([tag]) + s[1:]
                    same_family = (len(m) == l + 1 and tag in (2, 3)) or (len(m) == 2 * l + 1 and tag in (4, 6, 7))
                    S.probe("VerifyingKey.from_string", f, m, "any" if same_family else "reject",
                            "leading byte %02x on point/%s" % (tag, pe), c.name)


REGRESSIONS = [
    # (decoder, input hex, note) - inputs that raised IndexError before /repo commit 430b0b7 (the
    # witnesses of the then-refuted error-closure theorems); must be rejected with a documented error
    ("VerifyingKey.from_der", "3017301306072a8648ce3d020106082a8648ce3d0301070301", "bit string header without content"),
    ("SigningKey.from_der", "3003020101", "SEQ{INT 1}"),
    ("SigningKey.from_der", "307702010104a01e2feb89414c343c1027c4d1c386bbc4cd613e30d8f16adf91b7584a2265b1f6a00a06082a8648ce3d030107"
                            "a14403420004696d724d9ca18306d21e5849dd0b45cdbdad0a5878e8ee1f9679d49d1b524d54bfc64470f942da1519a5fb5dc6"
                            "ad02f74ef14871c50069c912356f661336fac7", "octet-string length byte 20 -> a0 in a P-256 SEC1 key"),
    ("Curve.from_der", "300702010130003000", "empty curve sequence"),
    ("der.remove_octet_string", "", "empty input"),
    ("der.remove_octet_string", "040501", "length longer than the buffer"),
    ("der.remove_constructed", "", "empty input"),
    ("der.remove_constructed", "a00501", "length longer than the buffer"),
    ("der.remove_bitstring[0]", "0301", "length longer than the buffer"),
    ("der.remove_bitstring[0]", "03050001", "length longer than the buffer"),
    ("der.read_number", "", "empty input"),
]


def decoders(I):
    K, d = I.keys, I.der
    P = I.plugin
    return {
        "VerifyingKey.from_der": K.VerifyingKey.from_der,
        "SigningKey.from_der": K.SigningKey.from_der,
        "VerifyingKey.from_pem": K.VerifyingKey.from_pem,
        "SigningKey.from_pem": K.SigningKey.from_pem,
        "Curve.from_der": I.curves.Curve.from_der,
        "der.remove_octet_string": d.remove_octet_string,
        "der.remove_constructed": d.remove_constructed,
        "der.remove_bitstring[0]": lambda b: d.remove_bitstring(b, 0),
        "der.remove_sequence": d.remove_sequence,
        "der.remove_integer": d.remove_integer,
        "der.remove_object": d.remove_object,
        "der.read_number": d.read_number,
        "der.read_length": d.read_length,
        "plugin.PublicEccKeyProxy.create_from_der_fmt": P.PublicEccKeyProxy.create_from_der_fmt,
        "plugin.PublicEccKeyProxy.create_from_raw_fmt": P.PublicEccKeyProxy.create_from_raw_fmt,
        "plugin.PrivateEccKeyProxy.create_from_der_fmt": P.PrivateEccKeyProxy.create_from_der_fmt,
    }


def search(ctx):
    S = Searcher(ctx)
    I, r = S.I, S.r
    K = I.keys
    DEC = decoders(I)
    quick = ctx.quick() and not ctx.brokens
    # 0. regression inputs (IndexError / truncated bodies accepted before the fix of the removers)
    for dec, hx, note in REGRESSIONS:
        S.probe(dec, DEC[dec], bytes.fromhex(hx), "reject", "regression %s" % note)
    # 0b. primitives on short malformed strings and on damaged encodings: a documented error, or a value
    #     whose canonical encoding is exactly the consumed input (the DER minimality checks are complete)
    d = I.der
    reenc = {
        "der.remove_sequence": lambda v: d.encode_sequence(v[0]) + v[1],
        "der.remove_integer": lambda v: d.encode_integer(v[0]) + v[1],
        "der.remove_object": lambda v: d.encode_oid(*v[0]) + v[1],
        "der.remove_octet_string": lambda v: d.encode_octet_string(v[0]) + v[1],
        "der.remove_constructed": lambda v: d.encode_constructed(v[0], v[1]) + v[2],
        "der.remove_bitstring[0]": lambda v: d.encode_bitstring(v[0], 0) + v[1],
        "der.read_length": None, "der.read_number": None,
    }
    valid = {
        "der.remove_sequence": lambda: d.encode_sequence(rbytes(r, r.choice([0, 1, 5, 127, 128, 130, 300]))),
        "der.remove_integer": lambda: d.encode_integer(r.getrandbits(r.choice([1, 7, 8, 15, 16, 64, 1016, 1024]))),
        "der.remove_object": lambda: d.encode_oid(r.choice([0, 1, 2]), r.randrange(40), *[r.getrandbits(r.choice([3, 7, 8, 14, 40])) for _ in range(r.randrange(5))]),
        "der.remove_octet_string": lambda: d.encode_octet_string(rbytes(r, r.choice([0, 1, 5, 127, 128, 130, 300]))),
        "der.remove_constructed": lambda: d.encode_constructed(r.randrange(32), rbytes(r, r.choice([0, 1, 127, 128, 256]))),
        "der.remove_bitstring[0]": lambda: d.encode_bitstring(rbytes(r, r.choice([0, 1, 65, 127, 128])), 0),
        "der.read_length": lambda: d.encode_length(r.getrandbits(r.choice([3, 7, 8, 9, 16, 17, 32]))) + rbytes(r, 2),
        "der.read_number": lambda: d.encode_number(r.getrandbits(r.choice([3, 7, 8, 14, 15, 40]))) + rbytes(r, 2),
    }
    for name in sorted(reenc):
        tag = {"der.remove_sequence": 0x30, "der.remove_integer": 2, "der.remove_object": 6, "der.remove_octet_string": 4,
               "der.remove_constructed": 0xA0, "der.remove_bitstring[0]": 3}.get(name)
        cands = []
        for s in [b"", b"\x80", b"\x81", b"\x81\x7f", b"\x82\x00\x80", b"\xff"] + [rbytes(r, n) for n in (1, 2, 3, 4) for _ in range(8)]:
            cands += [s] if tag is None else [s, bytes([tag]) + s]
        for _ in range(ctx.budget(12, 120)):
            v = valid[name]()
            cands.append(v)
            cands += [v[:k] for k in sorted(set(r.randrange(len(v)) for _ in range(3)))]
            cands += [m + v[6:] for _, _, m in mutations(v[:6], r)]
        for cand in cands:
            res = S.probe(name, DEC[name], cand, "any", "short-string %s" % cand[:24].hex())
            if res is None:
                continue
            try:
                if name == "der.read_length":
                    back = d.encode_length(res[0]) + cand[res[1]:]
                elif name == "der.read_number":
                    back = d.encode_number(res[0]) + cand[res[1]:]
                else:
                    back = reenc[name](res)
            except Exception as e:   # noqa
                back = repr(e).encode()
            if back != cand:
                S.fail("non-canonical-accepted:%s" % name, {"decoder": name, "input": cand, "decoded": repr(res)[:200], "canonical": back},
                       "%s accepts an input that is not the canonical DER encoding of what it returns" % name)
    # 1. all 17 curves: round trips, bytes, truncations, extensions
    plan = []
    for c in I.W:
        keys = S.keys_for(c, 1 if quick else 3)
        for kind, sk in keys:
            ctx.dist["key:" + kind] += 1
            S.cur_sk = sk
            encs = S.encodings_of(c, sk)
            for label, dec, f, enc, want, key in encs + S.pems_of(c, sk):
                S.roundtrip_and_bytes(c, kind, label, dec, f, enc, want, key)
            if kind in ("random", "leading-zero-coordinate") or not quick:
                for label, dec, f, enc, want, key in encs:
                    explicit = label.endswith("/explicit")
                    if quick and (explicit and c.name not in HEAVY) and kind != "random":
                        continue
                    step = 1 if (not quick or not explicit or c.name == "NIST256p") else 7
                    S.truncations_extensions(c, label, dec, f, enc, step)
                    plan.append((c, kind, label, dec, f, enc, sk))
            all_point_encodings_check(S, c, sk.verifying_key)
            # PEM: cutting into the base64 payload must be rejected; the mutation pass is below
            for label, dec, f, pem, want, key in S.pems_of(c, sk)[:3 if quick else 6]:
                end_payload = pem.index(b"\n-----END")
                for k in sorted(set(r.randrange(1, end_payload) for _ in range(8 if quick else 40)) | {end_payload - 1}):
                    S.probe(dec, f, pem[:k], "reject", "truncation to %d of %d bytes of %s" % (k, len(pem), label), c.name)
                plan.append((c, kind, label, dec, f, pem, None))
        ctx.sample({"curve": c.name, "key": keys[0][0], "spki": keys[0][1].verifying_key.to_der()})
    # 1b. the ends of the scalar range: 1, 2, n-2, n-1 are keys; 0, n, n+1, 2^bits-1 are not
    search_scalar_range(S, plan, quick)
    # 1c. compressed points: every point of small curves (all branches of the modular square root),
    #     random points of the shipped curves in both parities, abscissae without a point
    c19_numtheory.search_nt(ctx, S)
    # 2. bec2format through the plug-in (P-256)
    search_plugin(S)
    # 3. structural malformations of named-curve key files (elements deleted / emptied / shortened)
    for c in I.W:
        if quick and c.name not in HEAVY:
            continue
        sk = K.SigningKey.from_secret_exponent(r.randrange(1, int(c.order)), c)
        for label, dec, f, enc in (("spki", "VerifyingKey.from_der", K.VerifyingKey.from_der, sk.verifying_key.to_der()),
                                   ("sec1", "SigningKey.from_der", K.SigningKey.from_der, sk.to_der()),
                                   ("pkcs8", "SigningKey.from_der", K.SigningKey.from_der, sk.to_der(format="pkcs8")),
                                   ("ecparameters", "Curve.from_der", I.curves.Curve.from_der, c.to_der("explicit"))):
            for how, m in structural_variants(enc):
                S.probe(dec, f, m, "any", "structure %s of %s" % (how, label), c.name)
    # 3b. explicit parameters whose field "prime" is damaged (even, composite, changed in the top byte) together with
    #     compressed generator / public point: the decoders must still answer with a documented error or a key -
    #     the modular square root is then asked to work modulo a number that is not an odd prime
    for c in I.W:
        if quick and c.name not in HEAVY:
            continue
        sk = K.SigningKey.from_secret_exponent(r.randrange(1, int(c.order)), c)
        pb = int(c.curve.p()).to_bytes((int(c.curve.p()).bit_length() + 7) // 8, "big")
        for label, dec, f, enc in (("spki/compressed/explicit", "VerifyingKey.from_der", K.VerifyingKey.from_der,
                                    sk.verifying_key.to_der("compressed", "explicit")),
                                   ("spki/hybrid/explicit", "VerifyingKey.from_der", K.VerifyingKey.from_der,
                                    sk.verifying_key.to_der("hybrid", "explicit")),
                                   ("sec1/compressed/explicit", "SigningKey.from_der", K.SigningKey.from_der,
                                    sk.to_der("compressed", curve_parameters_encoding="explicit")),
                                   ("ecparameters/compressed", "Curve.from_der", I.curves.Curve.from_der, c.to_der("explicit", "compressed"))):
            at = enc.find(pb)
            if at < 0:
                continue
            last = at + len(pb) - 1
            for how, pos, val in (("even", last, enc[last] ^ 1), ("+2", last, (enc[last] + 2) & 0xFF), ("-2", last, (enc[last] - 2) & 0xFF),
                                  ("xor 4", last, enc[last] ^ 4), ("top byte", at, enc[at] ^ 0x40), ("zero low byte", last, 0),
                                  ("middle", at + len(pb) // 2, enc[at + len(pb) // 2] ^ 0x10)):
                m = enc[:pos] + bytes([val]) + enc[pos + 1:]
                S.probe(dec, f, m, "any", "field prime damaged (%s) in %s" % (how, label), c.name)
    # 4. every single-byte mutation (xor 01, xor 80, set 00, set FF): named encodings first, then
    #    explicit parameters and PEM, until the time budget is used up
    ctx.extra["search_fixed_part_s"] = round(time.time() - (S.t_end - ctx.budget(30, 420) * (3 if ctx.brokens else 1)), 1)
    order = sorted(range(len(plan)), key=lambda i: (plan[i][2].endswith("/explicit") or plan[i][2].startswith("pem"),
                                                    plan[i][0].name not in HEAVY, r.random()))
    done = 0
    for i in order:
        c, kind, label, dec, f, enc, psk = plan[i]
        heavy = label.endswith("/explicit") or label.startswith("pem")
        fraction = 1.0 if not quick else (0.08 if heavy else (1.0 if c.name in HEAVY and label.split("/")[1:2] != ["hybrid"] else 0.15))
        if not S.mutate(c, label, dec, f, enc, fraction, sk=psk):
            break
        done += 1
    ctx.extra["mutation_passes_done"] = "%d of %d encodings" % (done, len(plan))
    # 5. OpenSSL in both directions (thorough tier, only when a binary exists)
    if not ctx.quick() or os.environ.get("VERIF_C19_OPENSSL"):
        search_openssl(S)
    ctx.extra["search_counts"] = {k: v for k, v in sorted(S.counts.items())}
    ctx.extra["rule"] = (
        "correspondence (numbertheory.py): jacobi and square_root_mod_prime for every prime < 300 and every a in [0,p), composite "
        "and out-of-range arguments (exact exception kinds), random odd n, random polynomials incl. malformed shapes, residues and "
        "non-residues on the 17 curve primes; compressed strings through the model's own square root: every x on small curves "
        "(p % 8 in {1,3,5,7}) and both parities / no point / bad tag on the shipped curves. search adds: every affine point of the "
        "small curves and random points of the shipped curves (both parities, the point of order 2 of SECP112r2) survive "
        "to_bytes('compressed') -> from_bytes; abscissae without a point are rejected. "
        "correspondence: every der.py primitive on generated valid encodings (lengths 0,1,127,128,255,256,65535,65536 and "
        "beyond, integers with the high bit set / leading zeros, OIDs with large arcs, bit strings in all three calling "
        "conventions) plus truncations, extensions, flipped tag/length bytes and empty input; util number/string codecs; "
        "point, curve-parameter, public and private key codecs on all 17 curves with the modular square root and the scalar "
        "multiplication recorded from the implementation's own run as oracle tables; quick tier keeps <= 30/40 (thorough 500/800) cases per "
        "category. search (implementation only): per curve a random key, keys with leading-zero scalar bytes and a key with a "
        "leading-zero coordinate: bytes of every encoding against an independent DER/SEC1 encoder, round trip through "
        "raw/uncompressed/compressed/hybrid, SPKI / SEC1 / PKCS#8 x named/explicit, PEM; every truncation and 5 extensions "
        "must be rejected with a documented error; single-byte mutations (xor01, xor80, set00, setFF) and structural "
        "malformations must give a documented error or a key; plug-in raw<->DER; OpenSSL both ways in the thorough tier. "
        "non-trivial = non-empty input; distinct by (decoder, input)")


def search_scalar_range(S, plan, quick):
    """every curve: the edge scalars 1, 2, n-2, n-1 round-trip through every private format and their
    scalar bytes are swept with the single-byte mutations (n-1 -> n is one of them); encodings of the
    out-of-range scalars 0, n, n+1, 2^bits-1 (raw, SEC1, PKCS#8, PEM) are rejected with a documented error"""
    I, K, r, ctx = S.I, S.I.keys, S.r, S.ctx
    for c in I.W:
        n, bl = int(c.order), c.baselen
        for k in (1, 2, n - 2, n - 1):
            kind = "edge-scalar-%s" % ({1: "1", 2: "2", n - 2: "n-2", n - 1: "n-1"}[k])
            sk = K.SigningKey.from_secret_exponent(k, c)
            S.cur_sk = sk
            ctx.dist["key:" + kind] += 1
            vk = sk.verifying_key
            x, y = int(vk.pubkey.point.x()), int(vk.pubkey.point.y())
            raw = sk.to_string()
            forms = [("privstring", "SigningKey.from_string", (lambda b: K.SigningKey.from_string(b, c)), raw,
                      k.to_bytes(flen(n), "big"), sk)]
            combos = [("uncompressed", "named_curve")] if quick else \
                     [(pe, ce) for pe in ("uncompressed", "compressed", "hybrid") for ce in ("named_curve", "explicit")]
            for pe, ce in combos:
                forms.append(("sec1/%s/%s" % (pe, ce), "SigningKey.from_der", K.SigningKey.from_der,
                              sk.to_der(pe, "ssleay", ce), spec_sec1(c, k, x, y, pe, ce), sk))
                forms.append(("pkcs8/%s/%s" % (pe, ce), "SigningKey.from_der", K.SigningKey.from_der,
                              sk.to_der(pe, "pkcs8", ce), spec_pkcs8(c, k, x, y, pe, ce), sk))
            forms.append(("pem-sec1/uncompressed/named_curve", "SigningKey.from_pem", K.SigningKey.from_pem,
                          sk.to_pem(), spec_pem(spec_sec1(c, k, x, y, "uncompressed", None), b"EC PRIVATE KEY"), sk))
            forms.append(("pem-pkcs8/uncompressed/named_curve", "SigningKey.from_pem", K.SigningKey.from_pem,
                          sk.to_pem(format="pkcs8"), spec_pem(spec_pkcs8(c, k, x, y, "uncompressed", None), b"PRIVATE KEY"), sk))
            for label, dec, f, enc, want, key in forms:
                S.roundtrip_and_bytes(c, kind, label, dec, f, enc, want, key)
                if label.startswith("pem"):
                    continue
                # single-byte mutations of the scalar bytes inside this encoding
                off = enc.find(raw)
                if off < 0:
                    S.fail("encoding-bytes:%s" % label.split("/")[0], {"curve": c.name, "key": kind, "encoding": label, "got": enc},
                           "the fixed-width scalar is not contained in the encoding")
                    continue
                full = k == n - 1 and (label == "privstring" or (not quick and label.endswith("uncompressed/named_curve")))
                idx = range(bl) if full else sorted({0, 1, bl - 2, bl - 1})
                for i in idx:
                    for name, v in (("xor01", raw[i] ^ 1), ("xor80", raw[i] ^ 0x80), ("set00", 0), ("setFF", 0xFF)):
                        if v != raw[i]:
                            j = off + i
                            S.probe(dec, f, enc[:j] + bytes([v]) + enc[j + 1:], "any",
                                    "mutation %s at %d of %s (scalar byte %d of the %s key)" % (name, j, label, i, kind), c.name)
                if not quick and k == n - 1:
                    plan.append((c, kind, label, dec, f, enc, None))
            if k != n - 1:
                continue
            # out-of-range scalars, written into the encodings of the key n-1 (public key part unchanged)
            bad_values = [0, n] + ([n + 1] if n + 1 < 1 << (8 * bl) else []) + [(1 << (8 * bl)) - 1, (1 << n.bit_length()) - 1]
            for bad in sorted(set(bad_values)):
                if 1 <= bad < n:
                    continue
                what = {0: "0", n: "n", n + 1: "n+1"}.get(bad, "2^%d-1" % bad.bit_length())
                braw = bad.to_bytes(bl, "big")
                for label, dec, f, enc, want, key in forms:
                    if label.startswith("pem"):
                        body = spec_sec1(c, n - 1, x, y, "uncompressed", None) if "sec1" in label else spec_pkcs8(c, n - 1, x, y, "uncompressed", None)
                        if raw not in body:
                            continue
                        m = spec_pem(body.replace(raw, braw, 1), b"EC PRIVATE KEY" if "sec1" in label else b"PRIVATE KEY")
                    else:
                        m = enc.replace(raw, braw, 1)
                    S.probe(dec, f, m, "reject", "out-of-range-scalar %s in %s" % (what, label), c.name)


def search_plugin(S):
    I, r = S.I, S.r
    K = I.keys
    P = I.plugin.PublicEccKeyProxy
    c = I.curves.NIST256p
    header = d_tlv(0x30, d_tlv(0x30, d_oid(OID_EC_PUBLIC_KEY) + d_oid(c.oid)) + d_tlv(0x03, b"\x00\x04" + bytes(64)))[:-64]
    if len(header) != 27:
        S.ctx.broken("search: the independent P-256 SubjectPublicKeyInfo prefix is not 27 bytes", header.hex())
    for kind, sk in S.keys_for(c, 3 if S.ctx.quick() else 20):
        vk = sk.verifying_key
        raw = vk.to_string()
        x, y = int(vk.pubkey.point.x()), int(vk.pubkey.point.y())
        if raw != x.to_bytes(32, "big") + y.to_bytes(32, "big"):
            S.fail("encoding-bytes:raw64", {"key": kind, "got": raw}, "raw format is not X||Y, 32 bytes each")
        S.ctx.case(("plugin", raw))
        try:
            k1 = P.create_from_raw_fmt(raw)
            der = k1.to_der_fmt()
            back = k1.to_raw_bin_fmt()
            k2 = P.create_from_der_fmt(header + raw)
        except Exception as e:   # noqa
            S.fail("plugin-roundtrip-raises", {"key": kind, "raw": raw}, "%s: %s" % (type(e).__name__, e))
            continue
        if back != raw or k1.public_key != vk or k2.public_key != vk:
            S.fail("plugin-raw-roundtrip", {"key": kind, "raw": raw, "back": back}, "create_from_raw_fmt / to_raw_bin_fmt is not the identity")
        if der != header + raw or der != spec_spki(c, x, y, "uncompressed", None):
            S.fail("plugin-header27", {"key": kind, "der": der, "expected": header + raw},
                   "to_der_fmt() is not the RFC 5480 P-256 header (27 bytes) followed by X||Y")
        try:
            pk = I.plugin.PrivateEccKeyProxy.create_from_der_fmt(sk.to_der())
            if pk.private_key != sk or pk.public_key.to_raw_bin_fmt() != raw:
                S.fail("plugin-private-roundtrip", {"key": kind}, "private key proxy does not return the key")
        except Exception as e:   # noqa
            S.fail("plugin-roundtrip-raises", {"key": kind, "der": sk.to_der()}, "%s: %s" % (type(e).__name__, e))
        plugin_flavours(S, c, kind, sk, raw, header)
        f = P.create_from_raw_fmt
        for k in range(len(raw)):
            S.probe("plugin.PublicEccKeyProxy.create_from_raw_fmt", f, raw[:k], "reject", "truncation to %d of 64 bytes of raw64" % k, c.name)
        for ext in (b"\x00", b"\x04", bytes(32)):
            S.probe("plugin.PublicEccKeyProxy.create_from_raw_fmt", f, raw + ext, "reject", "extension by %d bytes of raw64" % len(ext), c.name)
        # ... and at the front (a SEC1 04 marker, junk, a second copy of X): only exactly X||Y is a raw key
        for ext in (b"\x04", b"\x00", b"\x00\x04", bytes(5), raw[:32], header):
            S.probe("plugin.PublicEccKeyProxy.create_from_raw_fmt", f, ext + raw, "reject",
                    "%d bytes put in front of raw64" % len(ext), c.name)
        S.mutate(c, "raw64", "plugin.PublicEccKeyProxy.create_from_raw_fmt", f, raw, 0.3 if S.ctx.quick() else 1.0)


def plugin_flavours(S, c, kind, sk, raw, header):
    """the bec2format API (create_public_ecc_key_from_der_fmt / _from_raw_fmt, to_der_fmt, to_raw_bin_fmt,
    PrivateEccKey) on EVERY DER flavour python-ecdsa emits for a P-256 key: the raw format is X||Y of the
    same point whatever DER the key was loaded from, to_der_fmt() is the canonical 91-byte form, and
    repeated / interleaved calls on one object keep giving the same answers"""
    import bec2format.crypto as bc
    vk = sk.verifying_key
    canonical = header + raw
    flavours = [(pe, ce, vk.to_der(pe, ce)) for pe in ("uncompressed", "compressed", "hybrid")
                for ce in ("named_curve", "explicit")]
    flavours.append(("from-private-key", "sec1", None))
    for pe, ce, der in flavours:
        label = "plugin/%s/%s" % (pe, ce)
        info = {"decoder": "plugin.PublicEccKeyProxy.create_from_der_fmt", "curve": c.name, "input": der or sk.to_der(),
                "how": "api-sequence on %s of a %s key" % (label, kind), "expected_raw": raw, "expected_der": canonical}
        S.ctx.case(("plugin-flavour", label, der or sk.to_der()))
        S.count("plugin:flavour")
        try:
            if der is None:
                key = S.I.plugin.PrivateEccKeyProxy.create_from_der_fmt(sk.to_der()).public_key
            else:
                key = bc.create_public_ecc_key_from_der_fmt(der)
            seq = [key.to_raw_bin_fmt(), key.to_der_fmt(), key.to_raw_bin_fmt(), key.to_der_fmt(), key.to_raw_bin_fmt()]
            seq2 = None
            if seq == [raw, canonical, raw, canonical, raw]:
                again = bc.create_public_ecc_key_from_der_fmt(seq[1])             # der -> raw -> der
                back = bc.create_public_ecc_key_from_raw_fmt(seq[0])              # raw -> der -> raw
                seq2 = [again.to_der_fmt(), again.to_raw_bin_fmt(), back.to_raw_bin_fmt(), back.to_der_fmt()]
        except Exception as e:   # noqa
            info["exception"] = type(e).__name__
            S.fail("plugin-api-raises", info, "%s: %s" % (type(e).__name__, str(e)[:120]))
            continue
        if seq[0] != raw or seq[2] != raw or seq[4] != raw:
            info["got"] = seq[0] if seq[0] != raw else (seq[2] if seq[2] != raw else seq[4])
            S.fail("plugin-raw-not-XY", info,
                   "to_raw_bin_fmt() of a key loaded from %s gives %d bytes that are not X||Y of the point" % (label, len(info["got"])))
        elif seq[1] != canonical or seq[3] != canonical:
            info["got"] = seq[1] if seq[1] != canonical else seq[3]
            S.fail("plugin-der-not-canonical", info,
                   "to_der_fmt() of a key loaded from %s is not the 27-byte header followed by X||Y" % label)
        elif seq2 != [canonical, raw, raw, canonical]:
            info["got"] = b"|".join(seq2)
            S.fail("plugin-raw-der-roundtrip", info, "der -> raw -> der / raw -> der -> raw is not the identity for %s" % label)


def find_openssl():
    for cand in ("/root/miniconda/bin/openssl", shutil.which("openssl")):
        if cand and os.path.exists(cand):
            return cand
    return None


def search_openssl(S):
    """byte compatibility with OpenSSL in both directions; silently skipped when there is no binary"""
    I, r, ctx = S.I, S.r, S.ctx
    K = I.keys
    exe = find_openssl()
    if exe is None:
        ctx.notes.append("openssl binary not found: byte compatibility with OpenSSL not exercised")
        return
    tmp = tempfile.mkdtemp(prefix="c19ossl")

    def ossl(args, data=None):
        p = subprocess.run([exe] + args, input=data, stdout=subprocess.PIPE, stderr=subprocess.PIPE, timeout=60, cwd=tmp)
        return p.returncode, p.stdout, p.stderr.decode("utf-8", "replace")[-300:]
    rc, out, _ = ossl(["version"])
    if rc != 0:
        ctx.notes.append("openssl binary does not run: skipped")
        shutil.rmtree(tmp, ignore_errors=True)
        return
    ctx.extra["openssl"] = out.decode().strip()
    rc, out, _ = ossl(["ecparam", "-list_curves"])
    listed = out.decode("utf-8", "replace")
    curves = [c for c in I.W if c.openssl_name and (c.openssl_name + " ") in listed.replace(":", " ")]
    n_ok = 0
    try:
        for c in curves:
            if S.time_left() < -120:
                break
            name = c.openssl_name
            sk = K.SigningKey.from_secret_exponent(r.randrange(1, int(c.order)), c)
            vk = sk.verifying_key
            # ecdsa -> openssl: public key (named curve) is re-emitted byte for byte
            for pe in ("uncompressed", "compressed", "hybrid"):
                der = vk.to_der(pe)
                rc, out, err = ossl(["pkey", "-pubin", "-inform", "DER", "-pubout", "-outform", "DER",
                                     "-ec_conv_form", pe], der)
                ctx.case(("openssl-pub", c.name, pe))
                if rc != 0 or out != der:
                    S.fail("openssl-rejects-or-differs:spki", {"curve": c.name, "encoding": pe, "der": der, "openssl": out},
                           "openssl pkey -pubin rc=%d %s" % (rc, err))
                else:
                    n_ok += 1
            # explicit parameters are accepted by openssl
            rc, out, err = ossl(["pkey", "-pubin", "-inform", "DER", "-pubout", "-outform", "DER"], vk.to_der("uncompressed", "explicit"))
            if rc != 0:
                S.fail("openssl-rejects-or-differs:spki-explicit", {"curve": c.name, "der": vk.to_der("uncompressed", "explicit")}, err)
            # private keys: SEC1 and PKCS#8 -> openssl derives the same public key
            for fmt in ("ssleay", "pkcs8"):
                pem = sk.to_pem(format=fmt)
                rc, out, err = ossl(["pkey", "-pubout", "-outform", "DER"], pem)
                ctx.case(("openssl-priv", c.name, fmt))
                if rc != 0 or out != vk.to_der():
                    S.fail("openssl-rejects-or-differs:%s" % fmt, {"curve": c.name, "pem": pem, "openssl": out},
                           "openssl pkey rc=%d %s" % (rc, err))
                else:
                    n_ok += 1
            # openssl -> ecdsa
            rc, sec1_pem, err = ossl(["ecparam", "-name", name, "-genkey", "-noout"])
            if rc != 0:
                ctx.notes.append("openssl cannot generate a key on %s: %s" % (name, err))
                continue
            rc, pub_der, _ = ossl(["pkey", "-pubout", "-outform", "DER"], sec1_pem)
            rc2, p8_pem, _ = ossl(["pkcs8", "-topk8", "-nocrypt"], sec1_pem)
            rc3, sec1_der, _ = ossl(["ec", "-outform", "DER"], sec1_pem)
            ctx.case(("openssl-gen", c.name, sec1_pem))
            try:
                k1 = K.SigningKey.from_pem(sec1_pem)
                k2 = K.SigningKey.from_pem(p8_pem) if rc2 == 0 else k1
                v1 = K.VerifyingKey.from_der(pub_der)
                if not (k1 == k2 and k1.verifying_key == v1 and k1.curve.name == c.name):
                    S.fail("openssl-key-differs", {"curve": c.name, "pem": sec1_pem}, "SEC1 / PKCS#8 / SPKI of one OpenSSL key decode to different keys")
                if v1.to_der() != pub_der:
                    S.fail("openssl-reencode-differs:spki", {"curve": c.name, "openssl": pub_der, "ecdsa": v1.to_der()}, "re-encoded public key differs")
                if rc3 == 0 and k1.to_der() != sec1_der:
                    S.fail("openssl-reencode-differs:sec1", {"curve": c.name, "openssl": sec1_der, "ecdsa": k1.to_der()}, "re-encoded SEC1 key differs")
                for form in ("compressed", "hybrid"):
                    rc4, d4, _ = ossl(["pkey", "-pubout", "-outform", "DER", "-ec_conv_form", form], sec1_pem)
                    if rc4 == 0:
                        if K.VerifyingKey.from_der(d4) != v1 or v1.to_der(form) != d4:
                            S.fail("openssl-reencode-differs:spki-%s" % form, {"curve": c.name, "openssl": d4}, "")
                rc5, d5, _ = ossl(["pkey", "-pubout", "-outform", "DER", "-ec_param_enc", "explicit"], sec1_pem)
                if rc5 == 0 and K.VerifyingKey.from_der(d5) != v1:
                    S.fail("openssl-key-differs", {"curve": c.name, "der": d5}, "explicit-parameter key of OpenSSL decodes to another key")
                n_ok += 1
            except Exception as e:   # noqa
                S.fail("openssl-key-rejected", {"curve": c.name, "pem": sec1_pem, "exception": type(e).__name__}, str(e)[:200])
            # asn1parse accepts what we write
            rc, out, err = ossl(["asn1parse", "-inform", "DER"], sk.to_der(format="pkcs8"))
            if rc != 0:
                S.fail("openssl-rejects-or-differs:asn1parse", {"curve": c.name, "der": sk.to_der(format="pkcs8")}, err)
    finally:
        shutil.rmtree(tmp, ignore_errors=True)
    ctx.extra["openssl_checks_passed"] = n_ok
    ctx.dist["openssl curves"] += len(curves)


def replay(ctx, data):
    I = impl()
    DEC = decoders(I)
    K = I.keys
    rc = 0
    for f in data.get("fails", []):
        d = f["data"]
        print("kind:", f["kind"])
        print(" detail:", f["detail"])
        rn = c19_numtheory.replay_nt(I, f)
        if rn is not None:
            rc |= rn
            continue
        dec = d.get("decoder")
        inp = d.get("input")
        if f["kind"].startswith("encoding-bytes") and d.get("public"):
            cur = [c for c in I.W if c.name == d.get("curve")][0]
            x, y = int(d["public"][0]), int(d["public"][1])
            pt = I.ec.PointJacobi(cur.curve, x, y, 1)
            vk = K.VerifyingKey.from_public_point(pt, cur, validate_point=False)
            sk = K.SigningKey.from_secret_exponent(int(d["secexp"]), cur) if d.get("secexp") else None
            S = Searcher(ctx)
            found = None
            if sk is not None:
                for label, _, _, enc, want, _ in S.encodings_of(cur, sk) + S.pems_of(cur, sk):
                    if label == d["encoding"]:
                        found = (enc, want)
            else:
                for pe in ("raw", "uncompressed", "compressed", "hybrid"):
                    if d["encoding"] == "point/%s" % pe:
                        found = (vk.to_string(pe), spec_point(cur, x, y, pe))
            print(" curve:", cur.name, " encoding:", d["encoding"], " key:", d.get("key"))
            if found is None:
                print(" (cannot rebuild this encoding)")
                rc = 1
                continue
            print(" implementation:", found[0].hex() if isinstance(found[0], bytes) else found[0])
            print(" independent   :", found[1].hex() if isinstance(found[1], bytes) else found[1])
            print(" reproduces:", found[0] != found[1])
            rc |= found[0] != found[1]
            continue
        if f["kind"].startswith("plugin-") and d.get("expected_raw") and inp is not None:
            import bec2format.crypto as bc
            b = bytes.fromhex(inp["hex"])
            want = bytes.fromhex(d["expected_raw"]["hex"])
            wder = bytes.fromhex(d["expected_der"]["hex"])
            print(" how:", d.get("how"))
            print(" input DER:", b.hex())
            try:
                if b[:1] == b"\x30" and b"\x02\x01\x01\x04" in b[:8]:
                    key = I.plugin.PrivateEccKeyProxy.create_from_der_fmt(b).public_key
                else:
                    key = bc.create_public_ecc_key_from_der_fmt(b)
                got_raw, got_der = key.to_raw_bin_fmt(), key.to_der_fmt()
                print(" to_raw_bin_fmt():", got_raw.hex(), "(%d bytes)" % len(got_raw))
                print(" expected X||Y   :", want.hex())
                print(" to_der_fmt()    :", got_der.hex())
                print(" expected        :", wder.hex())
                bad = got_raw != want or got_der != wder
            except Exception as e:   # noqa
                print(" implementation -> %s: %s" % (type(e).__name__, e))
                bad = True
            print(" reproduces:", bad)
            rc |= bool(bad)
            continue
        if dec is None or inp is None:
            print(" (no decoder/input recorded: re-run `bin/check C19` for this kind)")
            rc = 1
            continue
        b = bytes.fromhex(inp["hex"]) if isinstance(inp, dict) else inp
        fn = DEC.get(dec)
        if fn is None and dec.startswith("VerifyingKey.from_string"):
            cur = [c for c in I.W if c.name == d.get("curve")][0]
            ve = dec[dec.index("[") + 1:-1].split(",") if "[" in dec else None
            fn = lambda s: K.VerifyingKey.from_string(s, cur, valid_encodings=ve)     # noqa
        if fn is None and dec == "SigningKey.from_string":
            cur = [c for c in I.W if c.name == d.get("curve")][0]
            fn = lambda s: K.SigningKey.from_string(s, cur)    # noqa
        print(" decoder:", dec, " curve:", d.get("curve"), " how:", d.get("how"))
        print(" input:", b.hex())
        try:
            res = fn(b)
            print(" implementation -> returned", repr(res)[:200])
            bad = f["kind"].split(":")[0].endswith("-accepted")
            if f["kind"].startswith("roundtrip-differs") and d.get("expected"):
                got = key_facts(res)
                print(" decoded key :", got)
                print(" encoded key :", d["expected"])
                bad = got != d["expected"]
        except Exception as e:   # noqa
            print(" implementation -> %s: %s" % (type(e).__name__, str(e)[:200]))
            bad = not isinstance(e, I.documented) or f["kind"].startswith("roundtrip")
        print(" documented errors: UnexpectedDER, MalformedPointError, ValueError (and subclasses), UnknownCurveError")
        print(" reproduces:", bad)
        rc |= bool(bad)
    for b in data.get("broken", []):
        print("broken:", b["what"])
        print(b["detail"][:1500])
        rc = 1
    return 1 if rc else 0
