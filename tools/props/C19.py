"""C19 - key and point encodings round-trip and are byte-compatible with OpenSSL.

Tie: hand models coq/Model/Der.v (der.py primitives) and coq/Model/KeyCodec.v
(util number/string codecs, point encodings, Curve / VerifyingKey / SigningKey
DER codecs, the bec2format 27-byte header) + correspondence; object identifiers,
curve parameters and the 27-byte header are generated from the source
(Gen/KeyOids.v by tools/gen/keycodec.py, Gen/Consts.v).

correspondence(ctx): every primitive on generated valid encodings (boundary lengths,
  integers with the high bit set / leading zeros, OIDs with large arcs) plus a malformed
  stream (truncations, extensions, flipped tag / length bytes, empty input); the key
  codecs on all 17 curves with the external functions (modular square root, scalar
  multiplication) recorded from the implementation's own run and supplied to the model
  as finite oracle tables.
search(ctx): the property predicate on the real implementation: round trips through
  every encoding, every truncation / extension / single-byte mutation must be rejected
  with a documented error or (mutations only) yield a key; structural malformations
  (the witnesses of the `_refuted` theorems); the bec2format plug-in round trip; and,
  when an openssl binary exists, byte compatibility in both directions.
"""
import base64
import os
import shutil
import subprocess
import tempfile
import time

from vlib import qN, qZ, qbytes, qlist, qopt, run_impl, canon_exc

GEN_DEPS = ("Consts.v", "gen_consts", "KeyOids.v", "gen_keyoids")
MODEL_TARGETS = ["Model/Der.vo", "Model/KeyCodec.vo"]
IMPORTS = "From Bec2 Require Import Gen.Consts Gen.KeyOids Model.Der Model.KeyCodec."

BOUNDARY_LENGTHS = (0, 1, 127, 128, 255, 256, 65535, 65536)
ED_NAMES = ("Ed25519", "Ed448")
# curves that get the larger malformed streams in the quick tier: P-256 (BEC2), cofactor 4,
# 66-byte coordinates (long-form DER lengths), a Brainpool curve
HEAVY = ("NIST256p", "SECP112r2", "NIST521p", "BRAINPOOLP160r1")


# ---------------------------------------------------------------------------
# implementation access

class Impl:
    def __init__(self):
        import bec2format                                  # noqa
        import register_crypto_plugin as plugin
        from register_crypto_plugin.ecdsa import der, util, curves, keys, ellipticcurve, numbertheory, errors
        self.plugin, self.der, self.util, self.curves, self.keys = plugin, der, util, curves, keys
        self.ec, self.nt, self.errors = ellipticcurve, numbertheory, errors
        self.W = [c for c in curves.curves if c.name not in ED_NAMES]
        self.documented = (der.UnexpectedDER, errors.MalformedPointError, ValueError, curves.UnknownCurveError)


_IMPL = None


def impl():
    global _IMPL
    if _IMPL is None:
        _IMPL = Impl()
    return _IMPL


def canon(e):
    n = canon_exc(e)
    if n == "EOther_UnknownCurveError":
        return "EBare"          # Model/KeyCodec.v: EUnknownCurve := EBare
    return n


def run(f, *a, **k):
    try:
        return ("ok", f(*a, **k))
    except Exception as e:      # noqa
        return ("err", canon(e))


def in_enum(r):
    return r[0] == "ok" or not r[1].startswith("EOther_")


# ---------------------------------------------------------------------------
# Coq literals

def qb(b):
    """bytes literal; a long zero tail is written as zeros (N.to_nat n)"""
    b = bytes(b)
    n = len(b)
    stripped = b.rstrip(b"\0")
    z = n - len(stripped)
    if z >= 256:
        if not stripped:
            return "(zeros (N.to_nat %d))" % z
        return "(%s ++ zeros (N.to_nat %d))" % (qbytes(stripped), z)
    return qbytes(b)


def qpair(a, b):
    return "(%s, %s)" % (a, b)


def qNl(l):
    return qlist([qN(x) for x in l], "N")


def qr(r, f):
    return "(Ok %s)" % f(r[1]) if r[0] == "ok" else "(Err %s)" % r[1]


def q_bb(v):
    return qpair(qb(v[0]), qb(v[1]))


def q_Nb(v):
    return qpair(qN(v[0]), qb(v[1]))


def q_NN(v):
    return qpair(qN(v[0]), qN(v[1]))


EQ_BB = "(prod_eqb bytes_eqb bytes_eqb)"
EQ_NB = "(prod_eqb N.eqb bytes_eqb)"
EQ_NN = "(prod_eqb N.eqb N.eqb)"
EQ_OB = "(prod_eqb (list_eqb N.eqb) bytes_eqb)"
EQ_NBB = "(prod_eqb (prod_eqb N.eqb bytes_eqb) bytes_eqb)"
EQ_BOB = "(prod_eqb (prod_eqb bytes_eqb (option_eqb N.eqb)) bytes_eqb)"

PENC = {"raw": "Raw", "uncompressed": "Uncompressed", "compressed": "Compressed", "hybrid": "Hybrid"}
CENC = {None: "None", "named_curve": "(Some NamedCurve)", "explicit": "(Some Explicit)"}


def q_curve(c):
    """a Curve object of the implementation as a model curve record"""
    h = c.curve.cofactor()
    return "(mkCurve %s %s %s %s %s %s %s %s)" % (
        qN(int(c.curve.p())), qZ(int(c.curve.a())), qZ(int(c.curve.b())),
        qN(int(c.generator.x())), qN(int(c.generator.y())), qN(int(c.order)),
        qopt(h, lambda x: qN(int(x))), qopt(c.oid, qNl))


def q_cref(c):
    if c.name in ED_NAMES:
        return "(CEd %s)" % ("true" if c.name == "Ed448" else "false")
    return "(CW %s)" % q_curve(c)


def q_vk(vk):
    pt = vk.pubkey.point
    return "(VkW %s %s %s)" % (q_curve(vk.curve), qN(int(pt.x())), qN(int(pt.y())))


def q_sk(sk):
    pt = sk.verifying_key.pubkey.point
    return "(SkW %s %s %s %s)" % (q_curve(sk.curve), qN(int(sk.privkey.secret_multiplier)),
                                  qN(int(pt.x())), qN(int(pt.y())))


# ---------------------------------------------------------------------------
# recording of the external functions during an implementation run

class Recorder:
    """Patches numbertheory.square_root_mod_prime and PointJacobi.__mul__ so that the
    queries the implementation makes (and their answers) become the model's oracle tables."""

    def __init__(self):
        self.sqrt = []      # (alpha, p, beta | None)
        self.mul = []       # (p, a, b, x, y, k, is_inf, ('ok',(x,y)) | ('err',name))
        self.unmodelled = None

    def __enter__(self):
        I = impl()
        self.o_sqrt = I.nt.square_root_mod_prime
        self.o_mul = I.ec.PointJacobi.__mul__
        rec = self

        def sqrt(a, p):
            try:
                r = rec.o_sqrt(a, p)
            except I.nt.Error:
                rec.sqrt.append((int(a), int(p), None))
                raise
            except Exception as e:   # noqa  (RuntimeError / AssertionError for composite p)
                rec.unmodelled = "square_root_mod_prime raised %s" % type(e).__name__
                raise
            rec.sqrt.append((int(a), int(p), int(r)))
            return r

        def mul(pt, other):
            try:
                res = rec.o_mul(pt, other)
            except Exception as e:       # noqa  (e.g. inverse_mod on a composite modulus)
                try:
                    cv = pt.curve()
                    rec.mul.append((int(cv.p()), int(cv.a()), int(cv.b()), int(pt.x()), int(pt.y()), int(other),
                                    False, ("err", canon(e))))
                except Exception as e2:  # noqa
                    rec.unmodelled = "cannot record a scalar multiplication: %r" % e2
                raise
            try:
                cv = pt.curve()
                key = (int(cv.p()), int(cv.a()), int(cv.b()), int(pt.x()), int(pt.y()), int(other))
                inf = bool(res == I.ec.INFINITY)
                try:
                    aff = ("ok", (int(res.x()), int(res.y()))) if not inf else ("err", "EFuel")
                except Exception as e:   # noqa
                    aff = ("err", canon(e))
                rec.mul.append(key + (inf, aff))
            except Exception as e:       # noqa
                rec.unmodelled = "cannot record a scalar multiplication: %r" % e
            return res
        I.nt.square_root_mod_prime = sqrt
        I.ec.PointJacobi.__mul__ = mul
        return self

    def __exit__(self, *a):
        I = impl()
        I.nt.square_root_mod_prime = self.o_sqrt
        I.ec.PointJacobi.__mul__ = self.o_mul

    def q_sqrt(self):
        return qlist(["(%s, %s, %s)" % (qZ(a), qN(p), qopt(b, qN)) for a, p, b in self.sqrt], "(Z * N * option N)")

    def q_mul(self):
        items = []
        for p, a, b, x, y, k, inf, aff in self.mul:
            if min(p, x, y, k) < 0:
                continue
            items.append("((%s, %s, %s, %s, %s, %s), (%s, %s))" % (
                qN(p), qZ(a), qZ(b), qN(x), qN(y), qN(k), "true" if inf else "false", qr(aff, lambda v: qpair(qN(v[0]), qN(v[1])))))
        return qlist(items, "(N * Z * Z * N * N * N * (bool * result (N * N)))")


PREAMBLE = """
Definition O_sqrt (t : list (Z * N * option N)) (a : Z) (p : N) : option N :=
  match find (fun e => (fst (fst e) =? a)%Z && (snd (fst e) =? p)) t with
  | Some e => snd e | None => None end.
Definition mulkey := (N * Z * Z * N * N * N)%type.
Definition mk_eqb (u v : mulkey) : bool :=
  let '(p, a, b, x, y, k) := u in let '(p', a', b', x', y', k') := v in
  (p =? p') && (a =? a')%Z && (b =? b')%Z && (x =? x') && (y =? y') && (k =? k').
Definition O_find (t : list (mulkey * (bool * result (N * N)))) (k : mulkey) :=
  find (fun e => mk_eqb (fst e) k) t.
Definition O_ok t (c : curve) (x y : N) : bool :=
  match O_find t (c_p c, c_a c, c_b c, x, y, c_n c) with Some e => fst (snd e) | None => false end.
Definition O_pm t (c : curve) (k : N) : result (N * N) :=
  match O_find t (c_p c, c_a c, c_b c, c_gx c, c_gy c, k) with Some e => snd (snd e) | None => Err EFuel end.
Definition edv0 (w : bool) (e : bytes) : result vkey := Ok (VkEd w e).
Definition eds0 (w : bool) (e : bytes) : result skey := Ok (SkEd w e).
Definition VKS sq mt cr s v ve := vk_from_string (O_sqrt sq) (O_ok mt) edv0 cr s v ve.
Definition VKD sq mt s ve ven vex := vk_from_der (O_sqrt sq) (O_ok mt) edv0 known_curves s ve ven vex.
Definition SKD sq mt s ven vex := sk_from_der (O_sqrt sq) (O_ok mt) (O_pm mt) eds0 known_curves s ven vex.
Definition SKS mt cr s := sk_from_string (O_ok mt) (O_pm mt) eds0 cr s.
Definition CFD sq s ven vex := curve_from_der (O_sqrt sq) known_curves s ven vex.
Definition RAWK sq mt h raw := create_from_raw_fmt (O_sqrt sq) (O_ok mt) edv0 known_curves h raw.
Definition b64id (b : bytes) : bytes := b.
Definition b64ok (b : bytes) : result bytes := Ok b.
"""


# ---------------------------------------------------------------------------
# case generation helpers

def rbytes(r, n):
    return bytes(r.randrange(256) for _ in range(n))


def body_of_len(r, n):
    if n > 2048:
        return bytes(n)
    return rbytes(r, n)


def mutations(b, r=None, limit=None):
    """single-byte mutations: xor 0x01, xor 0x80, set 0x00, set 0xFF at every index"""
    idxs = range(len(b))
    if limit is not None and len(b) * 4 > limit:
        idxs = sorted(r.sample(range(len(b)), max(1, limit // 4)))
    for i in idxs:
        seen = set()
        for kind, v in (("x01", b[i] ^ 1), ("x80", b[i] ^ 0x80), ("z", 0), ("ff", 0xFF)):
            if v != b[i] and v not in seen:
                seen.add(v)
                yield kind, i, b[:i] + bytes([v]) + b[i + 1:]


def malformed_stream(r, valid, extra_tags=()):
    """truncations, extensions and flipped tag / length bytes of one valid encoding"""
    out = [("empty", b"")]
    n = len(valid)
    cuts = set([0, 1, 2, 3, n - 1, n - 2]) | set(r.randrange(n + 1) for _ in range(3))
    for k in sorted(c for c in cuts if 0 <= c < n):
        out.append(("trunc", valid[:k]))
    out.append(("ext", valid + bytes([r.randrange(256)])))
    out.append(("ext", valid + rbytes(r, r.randrange(2, 5))))
    for i in (0, 1, 2):
        if i < n:
            for v in (valid[i] ^ 1, valid[i] ^ 0x80, 0, 0xFF, 0x80, 0x81, 0x7F, r.randrange(256)):
                out.append(("flip%d" % i, valid[:i] + bytes([v & 0xFF]) + valid[i + 1:]))
    for t in extra_tags:
        out.append(("tag", bytes([t]) + valid[1:]))
    return out


# ---------------------------------------------------------------------------
# correspondence: DER primitives

class Cases:
    def __init__(self, ctx):
        self.ctx, self.exprs, self.descr = ctx, [], []

    def add(self, what, expr, data, res=None):
        self.exprs.append(expr)
        self.descr.append((what, data, res))


def corr_der(ctx, cs):
    I = impl()
    d = I.der
    r = ctx.rng
    # encode_length / read_length
    lens = set(BOUNDARY_LENGTHS) | {126, 129, 254, 257, 65534, 65537, 2 ** 24 - 1, 2 ** 24, 2 ** 32, 2 ** 63 - 1,
                                    2 ** 64, 256 ** 126 - 1, 256 ** 126, 256 ** 127 - 1, 256 ** 127}
    lens |= set(r.randrange(1 << r.choice([7, 8, 9, 16, 17, 24, 40, 64])) for _ in range(ctx.budget(30, 300)))
    for l in sorted(lens):
        e = run(d.encode_length, l)
        cs.add("encode_length", "res_eqb bytes_eqb (Ok (encode_length %s)) %s" % (qN(l), qr(e, qb)), l)
        if e[0] == "ok":
            for tail in (b"", rbytes(r, 3)):
                s = e[1] + tail
                cs.add("read_length", "res_eqb %s (read_length %s) %s" % (EQ_NN, qb(s), qr(run(d.read_length, s), q_NN)), s)
    for _ in range(ctx.budget(150, 2000)):
        s = rbytes(r, r.choice([0, 1, 1, 2, 2, 3, 4, 5, 9]))
        if s and r.random() < 0.6:
            s = bytes([r.choice([0x80, 0x81, 0x82, 0x83, 0x84, 0x7F, 0xFF, 0x00])]) + s[1:]
        if len(s) > 1 and r.random() < 0.4:
            s = s[:1] + bytes([r.choice([0, 0x7F, 0x80, 1])]) + s[2:]
        cs.add("read_length/malformed", "res_eqb %s (read_length %s) %s" % (EQ_NN, qb(s), qr(run(d.read_length, s), q_NN)), s)
    # integers
    ints = {0, 1, 0x7F, 0x80, 0xFF, 0x100, 0x7FFF, 0x8000, 0xFFFF, 0x10000, 2 ** 127, 2 ** 128 - 1, 2 ** 255, 2 ** 256 - 1,
            2 ** 520, 2 ** 521 - 1, 2 ** 1015, 2 ** 1016, 2 ** 1023, 2 ** 1024}
    ints |= set(r.getrandbits(r.choice([7, 8, 15, 16, 31, 32, 63, 64, 255, 256, 384, 521])) for _ in range(ctx.budget(40, 400)))
    for v in sorted(ints):
        e = run(d.encode_integer, v)
        cs.add("encode_integer", "res_eqb bytes_eqb (Ok (encode_integer %s)) %s" % (qN(v), qr(e, qb)), v)
        s = e[1] + r.choice([b"", rbytes(r, 2)])
        cs.add("remove_integer", "res_eqb %s (remove_integer %s) %s" % (EQ_NB, qb(s), qr(run(d.remove_integer, s), q_Nb)), s)
        for what, m in (malformed_stream(r, e[1])[:ctx.budget(8, 40)] if v % 3 == 0 or not ctx.quick() else []):
            cs.add("remove_integer/" + what, "res_eqb %s (remove_integer %s) %s" % (
                EQ_NB, qb(m), qr(run(d.remove_integer, m), q_Nb)), m)
    for body in (b"", b"\x00", b"\x00\x00", b"\x00\x7f", b"\x00\x80", b"\x80", b"\xff\xff", b"\x00\x00\x80", b"\x7f" * 130):
        for L in (len(body), len(body) + 1, max(0, len(body) - 1)):
            s = b"\x02" + d.encode_length(L) + body
            cs.add("remove_integer/crafted", "res_eqb %s (remove_integer %s) %s" % (
                EQ_NB, qb(s), qr(run(d.remove_integer, s), q_Nb)), s)
    # base-128 numbers
    nums = {0, 1, 127, 128, 129, 16383, 16384, 2 ** 21 - 1, 2 ** 21, 2 ** 32, 2 ** 64, 2 ** 70 - 1, 2 ** 200}
    nums |= set(r.getrandbits(r.choice([6, 7, 8, 14, 15, 21, 35, 64, 100])) for _ in range(ctx.budget(40, 400)))
    for v in sorted(nums):
        e = run(d.encode_number, v)
        cs.add("encode_number", "res_eqb bytes_eqb (Ok (encode_number %s)) %s" % (qN(v), qr(e, qb)), v)
        s = e[1] + r.choice([b"", rbytes(r, 2)])
        cs.add("read_number", "res_eqb %s (read_number %s) %s" % (EQ_NN, qb(s), qr(run(d.read_number, s), q_NN)), s)
    for _ in range(ctx.budget(80, 800)):
        s = bytes(r.choice([0x80, 0x81, 0xFF, 0x00, 0x7F, r.randrange(256)]) for _ in range(r.choice([0, 1, 2, 3, 5])))
        cs.add("read_number/malformed", "res_eqb %s (read_number %s) %s" % (EQ_NN, qb(s), qr(run(d.read_number, s), q_NN)), s)
    # object identifiers
    oids = [c.oid for c in I.curves.curves] + [I.util.oid_ecPublicKey, I.util.oid_ecDH, I.util.oid_ecMQV,
                                               I.curves.PRIME_FIELD_OID, I.curves.CHARACTERISTIC_TWO_FIELD_OID]
    oids += [(0, 0), (0, 39), (1, 0), (1, 39), (2, 0), (2, 39), (2, 40), (2, 47), (2, 48), (2, 999, 3), (2, 2 ** 64, 2 ** 70),
             (1, 2, 2 ** 32 - 1, 2 ** 32, 0, 127, 128, 16383, 16384), (0, 40), (1, 40), (3, 0), (3, 5), (2, 10 ** 30)]
    for _ in range(ctx.budget(20, 200)):
        first = r.choice([0, 1, 2])
        second = r.randrange(40) if first < 2 else r.getrandbits(r.choice([5, 8, 20]))
        oids.append((first, second) + tuple(r.getrandbits(r.choice([3, 7, 8, 14, 32, 70])) for _ in range(r.randrange(0, 7))))
    for o in oids:
        e = run(d.encode_oid, *o)
        cs.add("encode_oid", "res_eqb bytes_eqb (encode_oid_tuple %s) %s" % (qNl(o), qr(e, qb)), o)
        if e[0] != "ok":
            continue
        s = e[1] + r.choice([b"", rbytes(r, 2)])
        cs.add("remove_object", "res_eqb %s (remove_object %s) %s" % (
            EQ_OB, qb(s), qr(run(d.remove_object, s), lambda v: qpair(qNl(v[0]), qb(v[1])))), s)
        for what, m in (malformed_stream(r, e[1])[:ctx.budget(6, 40)] if len(o) % 2 or not ctx.quick() else []):
            cs.add("remove_object/" + what, "res_eqb %s (remove_object %s) %s" % (
                EQ_OB, qb(m), qr(run(d.remove_object, m), lambda v: qpair(qNl(v[0]), qb(v[1])))), m)
    for body in (b"", b"\x80", b"\x80\x01", b"\x2a\x80\x01", b"\x2a\x81", b"\x2a\xff\xff", b"\x81\x00", b"\x78", b"\x4f", b"\x50"):
        for L in (len(body), len(body) + 1):
            s = b"\x06" + d.encode_length(L) + body
            cs.add("remove_object/crafted", "res_eqb %s (remove_object %s) %s" % (
                EQ_OB, qb(s), qr(run(d.remove_object, s), lambda v: qpair(qNl(v[0]), qb(v[1])))), s)
    # sequences, octet strings, bit strings, constructed
    for n in sorted(set(BOUNDARY_LENGTHS) | {2, 126, 129, 300}):
        body = body_of_len(r, n)
        tail = r.choice([b"", b"\x05\x00"])
        e = d.encode_sequence(body[:n // 2], body[n // 2:])
        cs.add("encode_sequence", "bytes_eqb (encode_sequence [%s; %s]) %s" % (qb(body[:n // 2]), qb(body[n // 2:]), qb(e)), n)
        cs.add("remove_sequence", "res_eqb %s (remove_sequence %s) %s" % (
            EQ_BB, qb(e + tail), qr(run(d.remove_sequence, e + tail), q_bb)), n)
        e = d.encode_octet_string(body)
        cs.add("encode_octet_string", "bytes_eqb (encode_octet_string %s) %s" % (qb(body), qb(e)), n)
        cs.add("remove_octet_string", "res_eqb %s (remove_octet_string %s) %s" % (
            EQ_BB, qb(e + tail), qr(run(d.remove_octet_string, e + tail), q_bb)), n)
        for tag in (0, 1, 31, 95, 96):
            e2 = run(d.encode_constructed, tag, body)
            cs.add("encode_constructed", "res_eqb bytes_eqb (encode_constructed %s %s) %s" % (qN(tag), qb(body), qr(e2, qb)), (tag, n))
            if e2[0] == "ok":
                cs.add("remove_constructed", "res_eqb %s (remove_constructed %s) %s" % (
                    EQ_NBB, qb(e2[1] + tail), qr(run(d.remove_constructed, e2[1] + tail),
                                                 lambda v: "(%s, %s, %s)" % (qN(v[0]), qb(v[1]), qb(v[2])))), (tag, n))
        if n <= 300:
            for name, rem in (("remove_sequence", d.remove_sequence), ("remove_octet_string", d.remove_octet_string)):
                val = d.encode_sequence(body) if name == "remove_sequence" else d.encode_octet_string(body)
                for what, m in malformed_stream(r, val, extra_tags=(0x30, 0x04, 0x31))[:ctx.budget(12, 60)]:
                    cs.add(name + "/" + what, "res_eqb %s (%s %s) %s" % (EQ_BB, name, qb(m), qr(run(rem, m), q_bb)), m)
            val = d.encode_constructed(0, body)
            for what, m in malformed_stream(r, val, extra_tags=(0xA1, 0xBF, 0xC0, 0x80))[:ctx.budget(10, 60)]:
                cs.add("remove_constructed/" + what, "res_eqb %s (remove_constructed %s) %s" % (
                    EQ_NBB, qb(m), qr(run(d.remove_constructed, m), lambda v: "(%s, %s, %s)" % (qN(v[0]), qb(v[1]), qb(v[2])))), m)
    for s in (b"", b"\x30", b"\x04", b"\xa0", b"\x03", b"\x02", b"\x06", b"\x31\x00", b"\x30\x00", b"\x04\x00", b"\xa0\x00"):
        cs.add("is_sequence", "Bool.eqb (is_sequence %s) %s" % (qb(s), "true" if d.is_sequence(s) else "false"), s)
        cs.add("remove_sequence/short", "res_eqb %s (remove_sequence %s) %s" % (EQ_BB, qb(s), qr(run(d.remove_sequence, s), q_bb)), s)
        cs.add("remove_octet_string/short", "res_eqb %s (remove_octet_string %s) %s" % (EQ_BB, qb(s), qr(run(d.remove_octet_string, s), q_bb)), s)
        cs.add("remove_constructed/short", "res_eqb %s (remove_constructed %s) %s" % (
            EQ_NBB, qb(s), qr(run(d.remove_constructed, s), lambda v: "(%s, %s, %s)" % (qN(v[0]), qb(v[1]), qb(v[2])))), s)
    # bit strings in the three calling conventions
    import warnings
    modes = [("BsLegacy", None, True), ("BsNone", None, False)] + [("(BsInt %d)" % u, u, False) for u in (0, 1, 3, 7, 8, 9)]

    def q_bs(v, mode):
        body, rest = v
        if mode == "BsNone":
            return "(%s, Some %s, %s)" % (qb(body[0]), qN(body[1]), qb(rest))
        return "(%s, None, %s)" % (qb(body), qb(rest))
    with warnings.catch_warnings():
        warnings.simplefilter("ignore")
        bodies = [b"", b"\x00", b"\x01", b"\x80", b"\xf8", b"\x07\x80", b"\x08\x00", b"\x00" + rbytes(r, 5), rbytes(r, 65),
                  bytes(127), bytes(128), b"\x00" + bytes(255), b"\x03\xa8", b"\x03\xac", b"\x07", b"\x01\xfe", b"\x01\xff"]
        bodies += [rbytes(r, r.choice([1, 2, 3, 33, 65])) for _ in range(ctx.budget(3, 100))]
        if ctx.quick():
            bodies = bodies[::2] + bodies[-3:]
        for body in bodies:
            for mq, u, legacy in modes:
                e = run(d.encode_bitstring, body) if legacy else run(d.encode_bitstring, body, u)
                cs.add("encode_bitstring", "res_eqb bytes_eqb (encode_bitstring %s %s) %s" % (qb(body), mq, qr(e, qb)), (body, mq))
            raw = b"\x03" + d.encode_length(len(body)) + body
            variants = [raw, raw + b"\x00\x01", raw[:-1] if body else raw, b"\x03" + d.encode_length(len(body) + 1) + body]
            for s in variants:
                for mq, u, legacy in modes[:5]:
                    res = run(d.remove_bitstring, s) if legacy else run(d.remove_bitstring, s, u)
                    cs.add("remove_bitstring", "res_eqb %s (remove_bitstring %s %s) %s" % (
                        EQ_BOB, qb(s), mq, qr(res, lambda v: q_bs(v, mq))), (s, mq))
        for what, m in malformed_stream(r, d.encode_bitstring(b"\x04" + rbytes(r, 8), 0), extra_tags=(0x04, 0x23)):
            for mq, u, legacy in modes[:4]:
                res = run(d.remove_bitstring, m) if legacy else run(d.remove_bitstring, m, u)
                cs.add("remove_bitstring/" + what, "res_eqb %s (remove_bitstring %s %s) %s" % (
                    EQ_BOB, qb(m), mq, qr(res, lambda v: q_bs(v, mq))), (m, mq))
    # PEM framing with base64 factored out (identity): unpem(topem(x)) over the raw text
    for n in (0, 1, 63, 64, 65, 128, 200):
        payload = bytes(r.choice(b"ABCDEFGHIJKLMNOPQRSTUVWXYZabcdefghijklmnopqrstuvwxyz0123456789+/") for _ in range(n))
        lines = [b"-----BEGIN PUBLIC KEY-----\n"] + [payload[i:i + 64] + b"\n" for i in range(0, n, 64)] + [b"-----END PUBLIC KEY-----\n"]
        pem = b"".join(lines)
        cs.add("topem", "bytes_eqb (topem b64id %s PUBLIC_KEY_LABEL) %s" % (qb(payload), qb(pem)), n)
        for txt in (pem, pem.replace(b"\n", b"\r\n"), b"junk\n" + pem, pem + b"  trailing  \n\n", pem.replace(b"\n", b" \n\t", 2)):
            joined = b"".join(l.strip() for l in txt.split(b"\n") if l and not l.startswith(b"-----"))
            cs.add("unpem", "res_eqb bytes_eqb (unpem b64ok %s) (Ok %s)" % (qb(txt), qb(joined)), txt)


# ---------------------------------------------------------------------------
# correspondence: number/string codecs, points, curves, keys

def key_variants(r, c):
    """secret exponents: random, small, near the order, and with leading zero bytes"""
    n = c.order
    bl = c.baselen
    ks = [r.randrange(1, n), 1, 2, n - 1, r.randrange(1, 1 << (8 * (bl - 1))), r.randrange(1, 1 << (8 * (bl - 2) + 1))]
    return [k for k in ks if 1 <= k < n]


def find_leading_zero_point(r, c, tries):
    """a key whose public x or y has a leading zero byte (1 key in 128); None if not found in time"""
    I = impl()
    l = I.util.orderlen(c.curve.p())
    lim = 1 << (8 * (l - 1))
    pt = c.generator * r.randrange(1, c.order)
    g = c.generator
    for i in range(tries):
        a = pt.to_affine()
        if a.x() < lim or a.y() < lim:
            return a
        pt = pt + g
    return None


def corr_keys(ctx, cs):
    I = impl()
    r = ctx.rng
    u, K, Cv = I.util, I.keys, I.curves
    # util
    orders = [0, 1, 255, 256, 65535, 65536] + [c.order for c in I.W] + [c.curve.p() for c in I.W] + [2 ** 521 - 1, 2 ** 8 - 1, 2 ** 16]
    if ctx.quick():
        orders = orders[:6] + r.sample(orders[6:], 8)
    for o in orders:
        cs.add("orderlen", "N.eqb (orderlen %s) %s" % (qN(o), qN(u.orderlen(o))), o)
        l = u.orderlen(o)
        for v in (0, 1, o, max(0, o - 1), o + 1, 256 ** l - 1, 256 ** l, 16 * 256 ** l - 1, 16 * 256 ** l, 256 ** (l + 1),
                  r.getrandbits(8 * l), r.getrandbits(max(1, 8 * l - 9))):
            cs.add("number_to_string", "res_eqb bytes_eqb (number_to_string %s %s) %s" % (
                qN(v), qN(o), qr(run(u.number_to_string, v, o), qb)), (v, o))
            cs.add("number_to_string_crop", "res_eqb bytes_eqb (number_to_string_crop %s %s) %s" % (
                qN(v), qN(o), qr(run(u.number_to_string_crop, v, o), qb)), (v, o))
        for s in (b"", bytes(l), rbytes(r, l), rbytes(r, l + 1), rbytes(r, max(0, l - 1)), b"\x00" + rbytes(r, max(0, l - 1))):
            cs.add("string_to_number", "res_eqb N.eqb (string_to_number %s) %s" % (qb(s), qr(run(u.string_to_number, s), qN)), s)
            cs.add("string_to_number_fixedlen", "res_eqb N.eqb (string_to_number_fixedlen %s %s) %s" % (
                qb(s), qN(o), qr(run(u.string_to_number_fixedlen, s, o), qN)), (s, o))
    # curves: to_der / from_der
    for c in I.W:
        for ce in (None, "named_curve", "explicit"):
            for pe in ("uncompressed", "compressed", "hybrid", "raw"):
                if ce != "explicit" and pe != "uncompressed":
                    continue
                e = run(c.to_der, ce, pe)
                cs.add("curve_to_der", "res_eqb bytes_eqb (curve_to_der %s %s %s) %s" % (q_curve(c), CENC[ce], PENC[pe], qr(e, qb)),
                       (c.name, ce, pe))
                if e[0] != "ok":
                    continue
                streams = [("valid", e[1])]
                if c.name in HEAVY:
                    streams += malformed_stream(r, e[1])[:ctx.budget(8, 50)]
                    streams += [("mut", m) for _, _, m in mutations(e[1], r, ctx.budget(12, 200))]
                for what, s in streams:
                    for ven, vex in ((True, True), (True, False), (False, True)):
                        if (what != "valid" or c.name not in HEAVY) and not (ven and vex):
                            continue
                        with Recorder() as rec:
                            res = run(Cv.Curve.from_der, s, [x for x, ok in (("named_curve", ven), ("explicit", vex)) if ok])
                        if rec.unmodelled or not in_enum(res):
                            ctx.dist["skipped:unmodelled"] += 1
                            continue
                        cs.add("curve_from_der/" + what, "res_eqb cref_same (CFD %s %s %s %s) %s" % (
                            rec.q_sqrt(), qb(s), "true" if ven else "false", "true" if vex else "false", qr(res, q_cref)),
                            (c.name, s, ven, vex), res)
    # points and verifying keys
    for c in I.W:
        p = int(c.curve.p())
        pts = []
        for k in key_variants(r, c)[:ctx.budget(1, 3)]:
            a = (c.generator * k).to_affine()
            pts.append((int(a.x()), int(a.y()), "rand"))
        lz = find_leading_zero_point(r, c, 300)
        if lz is not None:
            pts.append((int(lz.x()), int(lz.y()), "leading-zero"))
        pts.append((r.randrange(p), r.randrange(p), "off-curve"))
        if c.name in HEAVY or not ctx.quick():
            pts.append((int(c.generator.x()), int(c.generator.y()), "generator"))
            pts.append((0, 1, "zero-x"))
            pts.append((p, 1, "x=p"))
            pts.append((256 ** u.orderlen(p), 1, "too-wide"))
        for x, y, kind in pts:
            for pe in ("raw", "uncompressed", "compressed", "hybrid"):
                pt = I.ec.PointJacobi(c.curve, x, y, 1)
                e = run(pt.to_bytes, pe)
                cs.add("point_to_bytes", "res_eqb bytes_eqb (point_to_bytes %s %s %s %s) %s" % (
                    qN(p), qN(x), qN(y), PENC[pe], qr(e, qb)), (c.name, x, y, pe))
                if e[0] != "ok":
                    continue
                streams = [("valid", e[1])]
                if kind in ("rand", "leading-zero"):
                    streams += [("trunc", e[1][:-1]), ("trunc", e[1][:1]), ("ext", e[1] + b"\x00"), ("empty", b"")]
                    streams += [("mut", m) for _, _, m in mutations(e[1], r, ctx.budget(8, 120))]
                    if pe == "hybrid":
                        streams.append(("hybrid-parity", bytes([e[1][0] ^ 1]) + e[1][1:]))
                for what, s in streams:
                    for ve in (None, ("raw",), ("uncompressed",), ("compressed",), ("hybrid",), ("uncompressed", "hybrid")):
                        if ve is not None and (what not in ("valid", "hybrid-parity") or kind not in ("rand", "off-curve")
                                               or (ctx.quick() and c.name not in HEAVY)):
                            continue
                        for validate in (True, False):
                            if not validate and (what not in ("valid", "hybrid-parity") or ve is not None):
                                continue
                            with Recorder() as rec:
                                res = run(K.VerifyingKey.from_string, s, c, validate_point=validate, valid_encodings=ve)
                            if rec.unmodelled or not in_enum(res):
                                ctx.dist["skipped:unmodelled"] += 1
                                continue
                            ves = "encs_all" if ve is None else "(mkEncs %s %s %s %s)" % tuple(
                                "true" if n in ve else "false" for n in ("raw", "uncompressed", "compressed", "hybrid"))
                            cs.add("vk_from_string/%s/%s" % (pe, what), "res_eqb vkey_same (VKS %s %s %s %s %s %s) %s" % (
                                rec.q_sqrt(), rec.q_mul(), q_cref(c), qb(s), "true" if validate else "false", ves, qr(res, q_vk)),
                                (c.name, s, validate, ve), res)
    # verifying / signing keys through DER
    for c in I.W:
        heavy_curve = c.name in HEAVY
        for k in key_variants(r, c)[:ctx.budget(2 if heavy_curve else 1, 6)]:
            sk = K.SigningKey.from_secret_exponent(k, c)
            vk = sk.verifying_key
            x, y = int(vk.pubkey.point.x()), int(vk.pubkey.point.y())
            combos = [("uncompressed", None), ("compressed", None), ("hybrid", "named_curve"), ("uncompressed", "explicit"),
                      ("compressed", "explicit"), ("raw", None)]
            if ctx.quick() and not heavy_curve:
                combos = [("uncompressed", None), ("compressed", "explicit"), ("hybrid", "named_curve")]
            for pe, ce in combos:
                e = run(vk.to_der, pe, ce)
                cs.add("vk_to_der", "res_eqb bytes_eqb (vk_to_der %s %s %s %s %s) %s" % (
                    q_curve(c), qN(x), qN(y), PENC[pe], CENC[ce], qr(e, qb)), (c.name, k, pe, ce))
                if e[0] == "ok":
                    corr_from_der(ctx, cs, "vk", c, e[1], heavy=heavy_curve)
                for fmt in ("ssleay", "pkcs8"):
                    e = run(sk.to_der, pe, fmt, ce)
                    cs.add("sk_to_der", "res_eqb bytes_eqb (sk_to_der %s %s %s %s %s %s %s) %s" % (
                        q_curve(c), qN(k), qN(x), qN(y), PENC[pe], "Ssleay" if fmt == "ssleay" else "Pkcs8", CENC[ce], qr(e, qb)),
                        (c.name, k, pe, fmt, ce))
                    if e[0] == "ok" and (pe, ce) in (("uncompressed", None), ("compressed", "explicit")):
                        corr_from_der(ctx, cs, "sk", c, e[1], heavy=heavy_curve)
            # raw private strings
            s = sk.to_string()
            cs.add("sk_to_string", "res_eqb bytes_eqb (sk_to_string %s %s) (Ok %s)" % (q_curve(c), qN(k), qb(s)), (c.name, k))
            for what, m in [("valid", s), ("trunc", s[:-1]), ("ext", s + b"\x00"), ("zero", bytes(len(s))), ("ff", b"\xff" * len(s)),
                            ("empty", b"")]:
                with Recorder() as rec:
                    res = run(K.SigningKey.from_string, m, c)
                if rec.unmodelled or not in_enum(res):
                    continue
                cs.add("sk_from_string/" + what, "res_eqb skey_same (SKS %s %s %s) %s" % (rec.q_mul(), q_cref(c), qb(m), qr(res, q_sk)),
                       (c.name, m), res)
    # bec2format raw format through the plug-in (P-256 only)
    P = I.plugin.PublicEccKeyProxy
    c = Cv.NIST256p
    for k in key_variants(r, c) + [r.randrange(1, c.order) for _ in range(ctx.budget(4, 40))]:
        vk = K.SigningKey.from_secret_exponent(k, c).verifying_key
        raw = vk.to_string()
        variants = [("valid", raw), ("trunc", raw[:-1]), ("ext", raw + b"\x00"), ("empty", b""), ("half", raw[:32])]
        variants += [("mut", m) for _, _, m in mutations(raw, r, 8)]
        for what, s in variants:
            with Recorder() as rec:
                res = run(lambda b: P.create_from_raw_fmt(b).public_key, s)
            if rec.unmodelled or not in_enum(res):
                continue
            cs.add("create_from_raw_fmt/" + what, "res_eqb vkey_same (RAWK %s %s der_header %s) %s" % (
                rec.q_sqrt(), rec.q_mul(), qb(s), qr(res, q_vk)), s, res)
        out = P(vk).to_raw_bin_fmt()
        cs.add("to_raw_bin_fmt", "res_eqb bytes_eqb (to_raw_bin_fmt der_header_len %s %s %s) (Ok %s)" % (
            q_curve(c), qN(int(vk.pubkey.point.x())), qN(int(vk.pubkey.point.y())), qb(out)), k)


def corr_from_der(ctx, cs, which, c, valid, heavy):
    """valid + malformed stream of one DER key file against the model"""
    I = impl()
    r = ctx.rng
    streams = [("valid", valid)]
    n = len(valid)
    cuts = {0, 1, n - 1} | set(r.randrange(n) for _ in range(ctx.budget(2, 12)))
    streams += [("trunc", valid[:k]) for k in sorted(cuts) if k < n]
    streams += [("ext", valid + b"\x00"), ("ext", valid + rbytes(r, 3))]
    streams += [("mut", m) for _, _, m in mutations(valid, r, ctx.budget(24 if heavy else 6, 400 if heavy else 60))]
    for what, s in streams:
        variants = [(True, True)]
        if what == "valid":
            variants += [(True, False), (False, True)]
        for ven, vex in variants:
            vce = [x for x, ok in (("named_curve", ven), ("explicit", vex)) if ok]
            with Recorder() as rec:
                if which == "vk":
                    res = run(I.keys.VerifyingKey.from_der, s, valid_curve_encodings=vce)
                else:
                    res = run(I.keys.SigningKey.from_der, s, valid_curve_encodings=vce)
            if rec.unmodelled or not in_enum(res):
                ctx.dist["skipped:unmodelled"] += 1
                continue
            if res[0] == "ok" and res[1].curve.name in ED_NAMES:
                ctx.dist["skipped:edwards"] += 1
                continue
            b = lambda v: "true" if v else "false"   # noqa
            if which == "vk":
                expr = "res_eqb vkey_same (VKD %s %s %s None %s %s) %s" % (rec.q_sqrt(), rec.q_mul(), qb(s), b(ven), b(vex), qr(res, q_vk))
            else:
                expr = "res_eqb skey_same (SKD %s %s %s %s %s) %s" % (rec.q_sqrt(), rec.q_mul(), qb(s), b(ven), b(vex), qr(res, q_sk))
            cs.add("%s_from_der/%s" % (which, what), expr, (c.name, s, ven, vex), res)
            ctx.dist["%s_from_der->%s" % (which, res[1] if res[0] == "err" else "ok")] += 1


def correspondence(ctx):
    cs = Cases(ctx)
    t0 = time.time()
    corr_der(ctx, cs)
    n_der = len(cs.exprs)
    corr_keys(ctx, cs)
    ctx.extra["correspondence_impl_s"] = round(time.time() - t0, 1)
    if ctx.quick() and not ctx.brokens:
        # the model is evaluated by coqc (about 50 ms per key-level case): keep at most CAP cases of
        # every category (category = operation / kind of input), chosen by the seeded PRNG
        by_cat = {}
        for i, d in enumerate(cs.descr):
            by_cat.setdefault(d[0], []).append(i)
        keep = []
        for cat in sorted(by_cat):
            idx = by_cat[cat]
            cap = ctx.budget(40, 40) if idx[0] >= n_der else ctx.budget(60, 60)
            keep += idx if len(idx) <= cap else ctx.rng.sample(idx, cap)
        keep.sort()
        cs.exprs = [cs.exprs[i] for i in keep]
        cs.descr = [cs.descr[i] for i in keep]
        ctx.extra["correspondence_generated"] = sum(len(v) for v in by_cat.values())
    ctx.sample({"op": cs.descr[len(cs.descr) // 3][0], "input": cs.descr[len(cs.descr) // 3][1]})
    ctx.sample({"op": cs.descr[-1][0], "input": cs.descr[-1][1]})
    bad = ctx.coq_eval("c19", IMPORTS, cs.exprs, preamble=PREAMBLE, shard=150)
    if bad is None:
        return
    ctx.traces += len(cs.exprs)
    for what, data, _ in cs.descr:
        ctx.case((what, data), trivial=(data in (b"", 0, ())))
        ctx.dist[what] += 1
    ctx.extra["correspondence_total_s"] = round(time.time() - t0, 1)
    for i in bad[:10]:
        what, data, res = cs.descr[i]
        ctx.broken("correspondence: Model.Der / Model.KeyCodec differs from the implementation on %s" % what,
                   {"case": repr(data)[:1500], "impl": repr(res)[:300], "expr": cs.exprs[i][:1500]})
