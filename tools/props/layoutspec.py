"""Independent Python parser / serialiser / validator for the BF3 / BEC2 container
layout, written from the text of properties C03 and C05 (not from the library's
code), and a field-list-driven emitter with structured edits for C05.

Layout of a body that starts at absolute file offset `off`:

    dirsize(4) | { entrylen(1) entry }* 00 | payload_1 ... payload_n
    entry = adr(4) total(4) actual(4) payloadMAC(16) desclen(1) { id(1) len(1) value }* entryMAC(16)

all integers big-endian; dirsize counts the directory including the sentinel;
adr_i = absolute offset of payload_i; payloads contiguous in directory order from the
end of the directory to the end of the file; payloadMAC_i = MAC(key, payload_i);
entryMAC_i = MAC(key, entry without its last 16 bytes, iv = 16-byte big-endian i)
with i counted from 1; tag ids pairwise distinct; actual <= total = len(payload).
MAC = last block of the AES-CBC encryption of the zero-padded data (CBC-MAC).

The cipher is passed in as a raw 16-byte block function (encrypt / decrypt one
block), so that CBC and the MAC are computed here, independently of the library's
adapter and of pyaes' block feeder and mode classes."""


class LayoutError(Exception):
    def __init__(self, rule, detail=""):
        Exception.__init__(self, "%s %s" % (rule, detail))
        self.rule = rule


def xor(a, b):
    return bytes(x ^ y for x, y in zip(a, b))


def zero_pad(d):
    return d + bytes(-len(d) % 16)


class Cipher:
    """CBC / CBC-MAC over a raw block function pair."""

    def __init__(self, enc_block, dec_block):
        self.enc_block, self.dec_block = enc_block, dec_block

    def cbc_encrypt(self, key, iv, data):
        prev = bytes(16) if iv is None else iv
        out = []
        data = zero_pad(data)
        for i in range(0, len(data), 16):
            prev = self.enc_block(key, xor(data[i:i + 16], prev))
            out.append(prev)
        return b"".join(out)

    def cbc_decrypt(self, key, iv, data):
        assert len(data) % 16 == 0
        prev = bytes(16) if iv is None else iv
        out = []
        for i in range(0, len(data), 16):
            c = data[i:i + 16]
            out.append(xor(self.dec_block(key, c), prev))
            prev = c
        return b"".join(out)

    def mac(self, key, iv, data):
        """CBC-MAC: the last chaining value (defined for non-empty data)"""
        st = bytes(16) if iv is None else iv
        data = zero_pad(data)
        for i in range(0, len(data), 16):
            st = self.enc_block(key, xor(data[i:i + 16], st))
        return st if data else b""


def real_aes():
    """the bundled pyaes block cipher, used block-wise (no mode class, no feeder, no adapter)"""
    import register_crypto_plugin.pyaes.aes as A
    cache = {}

    def obj(key):
        if key not in cache:
            cache[key] = A.AES(key)
        return cache[key]
    return Cipher(lambda k, b: bytes(obj(k).encrypt(list(b))), lambda k, b: bytes(obj(k).decrypt(list(b))))


def toy():
    from props import toycipher
    return Cipher(toycipher.toyE, toycipher.toyD)


def be(n, v):
    if not 0 <= v < 256 ** n:
        raise LayoutError("field-range", "%d does not fit %d bytes" % (v, n))
    return v.to_bytes(n, "big")


# ---------------------------------------------------------------------------
# serialiser: fields -> bytes   (fields: list of dict(tags=[(id, value)], actual=int, payload=bytes))

def ser_tags(tags):
    out = b""
    for i, v in tags:
        out += be(1, i) + be(1, len(v)) + v
    return out


def ser_body(off, key, fields, ciph):
    """the unique serialisation of the field list at offset off"""
    descs = [ser_tags(f["tags"]) for f in fields]
    dirsize = sum(1 + 45 + len(d) for d in descs) + 1
    adr = off + 4 + dirsize
    directory = b""
    for i, (f, d) in enumerate(zip(fields, descs)):
        p = f["payload"]
        e = be(4, adr) + be(4, len(p)) + be(4, f["actual"]) + ciph.mac(key, None, p) + be(1, len(d)) + d
        e += ciph.mac(key, be(16, i + 1), e)
        directory += be(1, len(e)) + e
        adr += len(p)
    directory += b"\0"
    assert len(directory) == dirsize
    return be(4, dirsize) + directory + b"".join(f["payload"] for f in fields)


# ---------------------------------------------------------------------------
# parser / validator: bytes -> fields, LayoutError(rule) when a clause is violated

class Cur:
    def __init__(self, b, what):
        self.b, self.p, self.what = b, 0, what

    def take(self, n):
        if self.p + n > len(self.b):
            raise LayoutError("length:" + self.what, "need %d bytes at %d of %d" % (n, self.p, len(self.b)))
        r = self.b[self.p:self.p + n]
        self.p += n
        return r

    def int(self, n):
        return int.from_bytes(self.take(n), "big")

    def done(self):
        return self.p == len(self.b)


def parse_tags(desc):
    c = Cur(desc, "tag")
    tags = []
    while not c.done():
        i = c.int(1)
        ln = c.int(1)
        v = c.take(ln)
        if i in [t for t, _ in tags]:
            raise LayoutError("duplicate-tag", "%02X" % i)
        tags.append((i, v))
    return tags


def parse_body(b, off, key, ciph, auth=True):
    """b = the bytes from offset off to the end of the file"""
    c = Cur(b, "body")
    dirsize = c.int(4)
    d = Cur(c.take(dirsize), "directory")
    entries = []
    idx = 1
    while True:
        ln = d.int(1)
        if ln == 0:
            break
        e = d.take(ln)
        ec = Cur(e, "entry")
        adr, total, actual = ec.int(4), ec.int(4), ec.int(4)
        pmac = ec.take(16)
        desc = ec.take(ec.int(1))
        emac = ec.take(16)
        if not ec.done():
            raise LayoutError("length:entry", "bytes left in entry %d" % idx)
        tags = parse_tags(desc)
        if auth and ciph.mac(key, be(16, idx), e[:-16]) != emac:
            raise LayoutError("entry-mac", "entry %d" % idx)
        entries.append(dict(adr=adr, total=total, actual=actual, pmac=pmac, tags=tags))
        idx += 1
    if not d.done():
        raise LayoutError("length:directory", "bytes after the sentinel")
    pos = off + 4 + dirsize
    for i, f in enumerate(entries):
        if f["adr"] != pos:
            raise LayoutError("address", "entry %d: %d, payload is at %d" % (i + 1, f["adr"], pos))
        if f["actual"] > f["total"]:
            raise LayoutError("declared>stored", "entry %d" % (i + 1))
        f["payload"] = c.take(f["total"])
        if auth and ciph.mac(key, None, f["payload"]) != f["pmac"]:
            raise LayoutError("payload-mac", "entry %d" % (i + 1))
        pos += f["total"]
    if not c.done():
        raise LayoutError("trailing", "%d bytes after the last payload" % (len(b) - c.p))
    return entries


ENC_TAG, ENC_SESSION = 0xC2, b"\x02"


def is_enc(f):
    return dict(f["tags"]).get(ENC_TAG) == ENC_SESSION


def reader_accepts(b, off, key, ciph, auth=True):
    """C05: well-formed and authentic, and every payload the reader is asked to decrypt
    (ENC = 02) is a whole number of cipher blocks.  Returns (fields or None, rule)"""
    try:
        fs = parse_body(b, off, key, ciph, auth)
    except LayoutError as e:
        return None, e.rule
    for f in fs:
        if is_enc(f) and len(f["payload"]) % 16:
            return None, "enc-unaligned"
    return fs, None


def content_of(fs, key, ciph):
    """what the fields say: (description items in stored order, blob, declared length, encrypted flag)"""
    out = []
    for f in fs:
        if is_enc(f):
            blob, e = ciph.cbc_decrypt(key, None, f["payload"]), True
        else:
            blob, e = f["payload"], False
        out.append((list(f["tags"]), blob, f["actual"] or len(blob), e))
    return out


# ---------------------------------------------------------------------------
# BEC2 header

def parse_tlv_header(b, pos=0):
    """tag(1) len(1) value blocks closed by 00 00; returns (blocks, position after the terminator)"""
    c = Cur(b, "auth-header")
    c.p = pos
    blocks = []
    while True:
        t, ln = c.int(1), c.int(1)
        v = c.take(ln)
        if t == 0 and ln == 0:
            return blocks, c.p
        blocks.append((t, v))


def ser_tlv_header(blocks):
    return b"".join(be(1, t) + be(1, len(v)) + v for t, v in blocks) + b"\0\0"


# ---------------------------------------------------------------------------
# text

HEXU = "0123456789ABCDEF"


def parse_text(text, comments):
    """checks the text layout for the given comments (list of (key, value)); returns the binary.
    'key: value' lines, one blank line, upper-case hex, every line that is followed by another
    non-empty line exactly 80 columns, lines at most 80 columns, at most one empty line, last."""
    pos = 0
    for k, v in comments:
        line = "%s: %s\n" % (k, v)
        if not text.startswith(line, pos):
            raise LayoutError("text:comment", repr(text[pos:pos + 40]))
        pos += len(line)
    if not text.startswith("\n", pos):
        raise LayoutError("text:blank-line", repr(text[pos:pos + 20]))
    pos += 1
    rest = text[pos:]
    if rest and not rest.endswith("\n"):
        raise LayoutError("text:last-line-unterminated")
    lines = rest.split("\n")[:-1] if rest else []
    if lines and lines[-1] == "":
        lines = lines[:-1]           # the optional empty last line
    for i, l in enumerate(lines):
        if l == "":
            raise LayoutError("text:empty-line", "line %d" % i)
        if any(ch not in HEXU for ch in l):
            raise LayoutError("text:not-upper-hex", repr(l[:20]))
        if len(l) % 2 or len(l) > 80:
            raise LayoutError("text:width", "line %d has %d columns" % (i, len(l)))
        if i + 1 < len(lines) and len(l) != 80:
            raise LayoutError("text:width", "line %d has %d columns" % (i, len(l)))
    return bytes.fromhex("".join(lines))


# ---------------------------------------------------------------------------
# C05: raw emitter with independently overridable fields

class RawEntry:
    def __init__(self, tags, actual, payload):
        self.tags = list(tags)
        self.actual = actual
        self.payload = payload
        # overrides (None = the consistent value)
        self.adr = None            # int
        self.adr_delta = 0
        self.total = None
        self.desc = None           # raw description bytes
        self.desc_len = None
        self.entry_len_delta = 0
        self.iv_index = None       # int (1-based position by default)
        self.emac_keep_iv = None   # iv index frozen before a reorder
        self.flip_pmac = None      # (byte position, bit mask) to damage in the stored MAC
        self.flip_emac = None
        self.junk = b""            # bytes appended after the entry MAC (entry length consistent)

    def copy(self):
        import copy
        c = copy.copy(self)
        c.tags = list(self.tags)
        return c


class RawFile:
    def __init__(self, entries):
        self.entries = entries
        self.payload_order = None   # permutation of the payloads in the payload area
        self.dirsize_delta = 0
        self.sentinel = b"\0"
        self.trailing = b""
        self.relative = None        # None | "area" | "body" : addresses relative to ... instead of absolute
        self.mac_key = None         # compute the MACs under this key instead of the session key
        self.fixed_point_failed = False   # set by emit when no self-consistent entry MAC exists for a junk byte

    def copy(self):
        r = RawFile([e.copy() for e in self.entries])
        r.__dict__.update({k: v for k, v in self.__dict__.items() if k != "entries"})
        return r


def _flip(m, where):
    i, mask = where
    return m[:i] + bytes([m[i] ^ mask]) + m[i + 1:]


def emit(raw, off, key, ciph):
    """bytes of the raw file; both MACs of every entry are computed last, over exactly the bytes
    a reader walking the file would MAC, so that only the edited structure is wrong"""
    mkey = raw.mac_key or key
    ents = raw.entries
    descs = [e.desc if e.desc is not None else ser_tags(e.tags) for e in ents]
    dirsize = sum(1 + 45 + len(d) + len(e.junk) for e, d in zip(ents, descs)) + len(raw.sentinel)
    raw.fixed_point_failed = False
    area = off + 4 + dirsize
    order = raw.payload_order or list(range(len(ents)))
    payload_area = b"".join(ents[i].payload for i in order) + raw.trailing
    # consistent addresses: where each entry's payload really starts
    start = {}
    p = area
    for i in order:
        start[i] = p
        p += len(ents[i].payload)
    directory = b""
    cursor = 0            # reader's cursor inside the payload area
    for n, (e, d) in enumerate(zip(ents, descs)):
        adr = e.adr if e.adr is not None else start[n]
        if raw.relative == "area":
            adr -= area
        elif raw.relative == "body":
            adr -= off
        adr += e.adr_delta
        total = e.total if e.total is not None else len(e.payload)
        seen = payload_area[cursor:cursor + total]       # what a reader would take as this payload
        cursor += total
        pmac = ciph.mac(mkey, None, seen) if seen else bytes(16)
        if len(pmac) != 16:
            pmac = bytes(16)
        if e.flip_pmac:
            pmac = _flip(pmac, e.flip_pmac)
        dl = e.desc_len if e.desc_len is not None else len(d)
        body = be(4, adr % 2 ** 32) + be(4, total % 2 ** 32) + be(4, e.actual % 2 ** 32) + pmac + be(1, dl % 256) + d
        ivn = e.iv_index if e.iv_index is not None else n + 1
        emac = ciph.mac(mkey, be(16, ivn), body)
        if len(e.junk) == 1:
            # a reader MACs entry[:-16] = body + emac[:1] and compares with emac: look for a fixed point
            for v in range(256):
                m = ciph.mac(mkey, be(16, ivn), body + bytes([v]))
                if m[0] == v:
                    emac = m
                    break
            else:
                raw.fixed_point_failed = True
        if e.flip_emac:
            emac = _flip(emac, e.flip_emac)
        entry = body + emac + e.junk
        directory += be(1, (len(entry) + e.entry_len_delta) % 256) + entry
    directory += raw.sentinel
    return be(4, (len(directory) + raw.dirsize_delta) % 2 ** 32) + directory + payload_area
